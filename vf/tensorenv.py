"""Tensor memory layouts and process-global torch state for workload generation (shared by C07, C17).

relayout(): a tensor with given values but a non-standard memory layout (permuted storage, strided
slice of a larger buffer, window with a storage offset, stride-0 expansion).  A function that is
correct for `torch.tensor(values)` must return the same result for every such view.

global_state(): runs a block under a different process-global torch setting (default dtype,
grad mode, inference mode, deterministic algorithms, thread count) and always restores it.
"""
from __future__ import annotations

import contextlib

import numpy as np

LAYOUTS = ["contiguous", "permuted", "strided", "window", "expanded"]
STATES = ["default", "float64_default", "no_grad", "inference_mode", "deterministic", "threads2", "requires_grad"]


def pick_layout(rng, p_plain=0.6, allow_expanded=True):
    if rng.random() < p_plain:
        return "contiguous"
    pool = LAYOUTS[1:] if allow_expanded else LAYOUTS[1:-1]
    return pool[int(rng.integers(len(pool)))]


def pick_state(rng, p_plain=0.7):
    if rng.random() < p_plain:
        return "default"
    return STATES[1 + int(rng.integers(len(STATES) - 1))]


def relayout(torch, arr, mode, rng):
    """Tensor holding exactly the values of `arr` (numpy) in memory layout `mode`.
    'expanded' needs all entries along axis 0 to be identical (the caller arranges that); otherwise it
    falls back to 'window'."""
    a = np.ascontiguousarray(arr)
    if mode == "contiguous" or a.ndim == 0 or a.size == 0:
        return torch.from_numpy(a.copy())
    src = torch.from_numpy(a.copy())
    if mode == "expanded":
        if a.shape[0] >= 1 and all(np.array_equal(a[0], a[k], equal_nan=True) for k in range(1, a.shape[0])):
            return torch.from_numpy(a[:1].copy()).expand(*a.shape)
        mode = "window"
    if mode == "permuted":
        if a.ndim == 1:
            mode = "strided"
        else:
            perm = np.roll(np.arange(a.ndim), int(rng.integers(1, a.ndim)))  # never the identity
            stored = torch.from_numpy(np.ascontiguousarray(a.transpose(perm)))
            inv = np.argsort(perm)
            return stored.permute(*[int(i) for i in inv])
    if mode == "strided":
        ax = int(rng.integers(a.ndim))
        shape = list(a.shape)
        shape[ax] = 2 * shape[ax] + 1
        big = torch.zeros(shape, dtype=src.dtype)
        if src.dtype.is_floating_point or src.dtype.is_complex:
            big += 7.25  # recognisable filler: a function that reads the gaps gets wrong values
        sl = [slice(None)] * a.ndim
        o = int(rng.integers(2))
        sl[ax] = slice(o, o + 2 * a.shape[ax], 2)
        view = big[tuple(sl)]
        view.copy_(src)
        return view
    # window: non-zero storage offset and row strides larger than the row length
    pads = [(int(rng.integers(0, 3)), int(rng.integers(0, 3))) for _ in range(a.ndim)]
    pads[-1] = (int(rng.integers(1, 4)), int(rng.integers(1, 4)))
    big = torch.zeros([s + p0 + p1 for s, (p0, p1) in zip(a.shape, pads)], dtype=src.dtype)
    if src.dtype.is_floating_point or src.dtype.is_complex:
        big += 7.25
    view = big[tuple(slice(p0, p0 + s) for s, (p0, _) in zip(a.shape, pads))]
    view.copy_(src)
    return view


def values(t):
    """numpy copy of a tensor's values whatever its layout / grad state."""
    return t.detach().cpu().resolve_conj().numpy().copy()


@contextlib.contextmanager
def global_state(torch, mode):
    """Run the body under process-global torch state `mode`; the previous state is always restored."""
    old_dtype = torch.get_default_dtype()
    old_grad = torch.is_grad_enabled()
    old_det = torch.are_deterministic_algorithms_enabled()
    old_warn = torch.is_deterministic_algorithms_warn_only_enabled()
    old_threads = torch.get_num_threads()
    stack = contextlib.ExitStack()
    try:
        if mode == "float64_default":
            torch.set_default_dtype(torch.float64)
        elif mode == "no_grad":
            torch.set_grad_enabled(False)
        elif mode == "inference_mode":
            stack.enter_context(torch.inference_mode())
        elif mode == "deterministic":
            torch.use_deterministic_algorithms(True, warn_only=True)
        elif mode == "threads2":
            torch.set_num_threads(2)
        yield
    finally:
        stack.close()
        torch.set_default_dtype(old_dtype)
        torch.set_grad_enabled(old_grad)
        torch.use_deterministic_algorithms(old_det, warn_only=old_warn)
        if torch.get_num_threads() != old_threads:
            torch.set_num_threads(old_threads)


def want_grad(t, mode):
    """'requires_grad' is a property of the caller's tensors, not of the process: apply it to float leaves."""
    if mode == "requires_grad" and (t.dtype.is_floating_point or t.dtype.is_complex) and not t.requires_grad:
        if t.is_leaf:
            try:
                return t.requires_grad_(True)
            except RuntimeError:
                return t
    return t
