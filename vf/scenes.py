"""Tiny but fully general ptychography scenes shared by C02 / C05 / C09 / C10 / C16.

`make_scene` draws a scene (calibration, scan, unit-amplitude object, orthogonal probe modes) with
numpy only; `simulate_scene` produces its 4D-STEM data with the independent reference simulator
(`vf.refmodels.multislice_ref`); `build_library` feeds that data through the library's own
construction and preprocessing path and (optionally) installs the ground truth through the public
entry points (`ObjectPixelated.from_array`, `probe_model.probe = ...`).
"""
from __future__ import annotations

import dataclasses
import io
import contextlib

import numpy as np

from vf.refmodels import multislice_ref as ref

POWER2_LEVEL = 3  # the library pads the object so that its shape is divisible by 2**3


@dataclasses.dataclass
class Scene:
    gpts: tuple
    roi: tuple
    obj_sampling: tuple  # Angstrom / object pixel
    recip_sampling: tuple  # 1/Angstrom per detector pixel
    scan_step_A: tuple
    step_px: tuple
    energy: float
    wavelength: float
    pad_req: tuple
    pad_eff: tuple
    obj_shape: tuple  # (S, H, W)
    obj_type: str
    thicknesses: tuple
    obj: np.ndarray  # complex (S,H,W) unit amplitude, or float potential >= 0
    probes: np.ndarray  # (M, h, w) complex128, corner centred, orthogonal, descending intensity
    positions_px: np.ndarray  # (J, 2) float64, harness-computed
    semiangle_mrad: float
    intensity_scale: float
    meta: dict

    @property
    def num_slices(self):
        return self.obj_shape[0]

    @property
    def num_probes(self):
        return self.probes.shape[0]

    def describe(self):
        return {
            "gpts": list(self.gpts), "roi": list(self.roi), "step_px": [round(float(s), 4) for s in self.step_px],
            "pad_req": list(self.pad_req), "pad_eff": list(self.pad_eff), "obj_shape": list(self.obj_shape), "obj_type": self.obj_type,
            "slices": self.num_slices, "modes": self.num_probes, "thicknesses": [round(float(t), 3) for t in self.thicknesses],
            "energy": self.energy, "semiangle_mrad": round(self.semiangle_mrad, 3), **{k: v for k, v in self.meta.items() if isinstance(v, (int, float, str, bool, list))},
        }


def crop_shape_2d(gpts, step_px):
    """floor(fov / sampling), made even — the rule the property's 'library's own preprocessing' uses."""
    shp = np.floor(np.asarray(step_px, dtype=np.float64) * (np.asarray(gpts) - 1))
    shp += shp % 2
    return shp.astype(int)


def effective_padding(base_shape, pad_req, level=POWER2_LEVEL):
    div = 2**level
    pad = np.array(pad_req, dtype=int).copy()
    for a in range(2):
        rem = (base_shape[a] + 2 * pad[a]) % div
        if rem:
            pad[a] += (div - rem) // 2
    return pad


def smooth_field(rng, shape, corr=3.0):
    """random real field with correlation length ~corr px, periodic, zero mean, unit std."""
    H, W = shape
    ky = np.fft.fftfreq(H)[:, None]
    kx = np.fft.fftfreq(W)[None, :]
    filt = np.exp(-0.5 * (ky**2 + kx**2) * (2 * np.pi * corr) ** 2)
    f = np.fft.ifft2(np.fft.fft2(rng.normal(size=shape)) * filt).real
    f -= f.mean()
    s = f.std()
    return f / s if s > 0 else f


def gram_schmidt(modes):
    out = []
    for m in modes:
        v = m.astype(np.complex128).copy()
        for u in out:
            v = v - np.vdot(u, v) * u
        n = np.sqrt(np.vdot(v, v).real)
        out.append(v / n)
    return np.stack(out)


def make_probes(rng, roi, recip_sampling, wavelength, num_modes, orthogonal=True, aberrations=True, weights=None, total_intensity=1e6, radius_div=3.2):
    h, w = roi
    kcut = min(h * recip_sampling[0], w * recip_sampling[1]) / radius_div * float(rng.uniform(0.55, 1.0))
    semiangle_mrad = kcut * wavelength * 1e3
    ab = {}
    if aberrations:
        amax = kcut * wavelength
        # aberration phases of at most ~1.5 cycles at the aperture edge
        ab["C10"] = float(rng.uniform(-1, 1) * 1.5 * wavelength / (0.5 * amax**2)) if amax > 0 else 0.0
        ab["C12"] = float(rng.uniform(0, 1) * 0.6 * wavelength / (0.5 * amax**2))
        ab["phi12"] = float(rng.uniform(0, np.pi))
        ab["C30"] = float(rng.uniform(-1, 1) * 0.5 * wavelength / (0.25 * amax**4))
    modes = [ref.soft_aperture_probe(roi, recip_sampling, wavelength, semiangle_mrad, ab, m) for m in range(num_modes)]
    if orthogonal:
        modes = gram_schmidt(modes)
    else:
        modes = np.stack([m / np.sqrt(np.vdot(m, m).real) for m in modes])
        for m in range(1, num_modes):  # make them visibly non-orthogonal
            modes[m] = modes[m] + 0.4 * modes[0]
            modes[m] /= np.sqrt(np.vdot(modes[m], modes[m]).real)
    if weights is None:
        weights = np.array([1.0, 0.3, 0.1, 0.03][:num_modes])
    weights = np.asarray(weights, dtype=np.float64)
    weights = weights / weights.sum()
    probes = modes * np.sqrt(weights * total_intensity)[:, None, None]
    return probes, semiangle_mrad, ab


def make_scene(rng, *, gpts=None, roi=None, obj_type=None, num_slices=None, num_modes=None, pad_req=None, integer_centre=False,
               phase_std=None, orthogonal=True, aberrations=True, periodic_symmetric=False, total_intensity=None, lib_shape=None, lib_pad=None,
               samp=None, step_px=None, gaussian_probe=False):
    gpts = tuple(gpts) if gpts is not None else (int(rng.integers(3, 7)), int(rng.integers(3, 7)))
    roi = tuple(roi) if roi is not None else (int(rng.integers(8, 21)), int(rng.integers(8, 21)))
    obj_type = obj_type or ["complex", "pure_phase", "potential"][int(rng.integers(3))]
    S = int(num_slices) if num_slices is not None else int(rng.integers(1, 4))
    M = int(num_modes) if num_modes is not None else int(rng.integers(1, 4))
    pad_req = tuple(pad_req) if pad_req is not None else (int(rng.integers(0, 9)), int(rng.integers(0, 9)))
    # a 1-row (1-column) scan has zero field of view on that axis: the canvas there is 2*pad, which must not be empty
    pad_req = tuple(max(int(p), 2) if gpts[a] == 1 else int(p) for a, p in enumerate(pad_req))
    energy = float(rng.choice([60e3, 80e3, 200e3, 300e3]))
    lam = ref.electron_wavelength_A(energy)
    samp_draw = (float(rng.uniform(0.2, 0.5)), float(rng.uniform(0.2, 0.5)))
    samp = tuple(samp) if samp is not None else samp_draw
    dk = (1.0 / (roi[0] * samp[0]), 1.0 / (roi[1] * samp[1]))
    # scan step in object pixels: fov/sampling = step_px*(n-1) must be >= 1 and stay clear of integers (floor) ...
    step_fixed = step_px
    step_px = []
    for a in range(2):
        n = gpts[a]
        if step_fixed is not None:
            step_px.append(float(step_fixed[a]))
            continue
        if integer_centre:
            # even integer fov in px -> integer scan centre, floor() unambiguous, and no .5 ties in the positions
            for _ in range(200):
                tot = 2 * int(rng.integers(max(1, (n - 1) // 2), (3 * (n - 1)) // 2 + 2))
                s = tot / (n - 1)
                fr = (np.arange(n) * s) % 1.0
                if np.all(np.abs(fr - 0.5) > 2e-3):
                    break
            step_px.append(s)
            continue
        for _ in range(100):
            s = float(rng.uniform(0.7, 3.3))
            tot = s * (n - 1)
            fr = (np.arange(n) * s) % 1.0
            if tot >= 1.2 and 0.08 < tot % 1.0 < 0.92 and np.all(np.abs(fr - 0.5) > 2e-3):  # ... and of .5 ties in round()
                break
        step_px.append(s)
    step_px = tuple(step_px)
    scan_step_A = (step_px[0] * samp[0], step_px[1] * samp[1])
    base = crop_shape_2d(gpts, step_px)
    pad_eff = effective_padding(base, pad_req)
    if lib_shape is not None:  # fallback: the library reported a different geometry; follow it
        pad_eff = np.array(lib_pad, dtype=int)
        base = np.array(lib_shape[-2:], dtype=int) - 2 * pad_eff
    H, W = int(base[0] + 2 * pad_eff[0]), int(base[1] + 2 * pad_eff[1])
    thick = tuple(float(t) for t in rng.uniform(2.0, 25.0, size=max(0, S - 1)))
    std = float(phase_std) if phase_std is not None else float(rng.uniform(0.15, 0.6))
    phase = np.stack([smooth_field(rng, (H, W), corr=float(rng.uniform(1.2, 4.0))) * std + 0.15 * std * rng.normal(size=(H, W)) for _ in range(S)])
    if periodic_symmetric:
        # phase periodic on the ROI patch and inversion symmetric about the scan centre (see DESIGN C02, 'constant'
        # descan): a few low cosine harmonics of the patch period centred on c = pad + fov/2
        c = (pad_eff[0] + step_px[0] * (gpts[0] - 1) / 2.0, pad_eff[1] + step_px[1] * (gpts[1] - 1) / 2.0)
        yy, xx = np.meshgrid(np.arange(H) - c[0], np.arange(W) - c[1], indexing="ij")
        phase = []
        for _ in range(S):
            f = np.zeros((H, W))
            for hr, hc in [(1, 0), (0, 1), (1, 1), (1, -1)]:
                f += float(rng.normal()) * np.cos(2 * np.pi * (hr * yy / roi[0] + hc * xx / roi[1]))
            f *= std / max(f.std(), 1e-12)
            phase.append(f)
        phase = np.stack(phase)
    if obj_type == "potential":
        obj = phase - phase.min()
    else:
        obj = np.exp(1j * phase)
    I0 = float(total_intensity) if total_intensity is not None else float(10 ** rng.uniform(5, 7))
    probes, semiangle, ab = make_probes(rng, roi, dk, lam, M, orthogonal=orthogonal, aberrations=aberrations, total_intensity=I0, radius_div=5.0 if periodic_symmetric else 3.2)
    if gaussian_probe:
        # Gaussian in both spaces (sigma_k = roi/8 px, sigma_x = 4/pi px): confined to ~1e-9 at the ROI edge for roi >= 16, so the
        # periodic wrap-around of the probe window carries no signal and the data does not depend on how a .5 tie is rounded
        kr = ref.signed_fft_indices(roi[0])[:, None] / (roi[0] / 8.0)
        kc = ref.signed_fft_indices(roi[1])[None, :] / (roi[1] / 8.0)
        base = np.exp(-0.5 * (kr**2 + kc**2))
        chi = float(rng.uniform(-0.15, 0.15)) * (kr**2 + kc**2) + float(rng.uniform(-0.1, 0.1)) * (kr**2 - kc**2)
        mods = [1.0, kr + 0 * kc, kc + 0 * kr, kr * kc]
        modes = gram_schmidt([np.fft.ifft2(base * mods[m] * np.exp(-1j * chi), norm="ortho") for m in range(M)])
        w = np.array([1.0, 0.3, 0.1, 0.03][:M])
        probes = modes * np.sqrt(w / w.sum() * I0)[:, None, None]
    pos = ref.raster_positions_px(gpts, scan_step_A, samp, pad_eff)
    return Scene(gpts=gpts, roi=roi, obj_sampling=samp, recip_sampling=dk, scan_step_A=scan_step_A, step_px=step_px, energy=energy, wavelength=lam,
                 pad_req=pad_req, pad_eff=tuple(int(p) for p in pad_eff), obj_shape=(S, H, W), obj_type=obj_type, thicknesses=thick, obj=obj, probes=probes,
                 positions_px=pos, semiangle_mrad=semiangle, intensity_scale=I0, meta={"aberrations": {k: float(v) for k, v in ab.items()}, "phase_std": std, "orthogonal": bool(orthogonal)})


def simulate_scene(scene: Scene, obj=None, probes=None) -> np.ndarray:
    """4-D intensities (nr, nc, h, w) float64 from the independent reference simulator."""
    inten = ref.simulate(scene.obj if obj is None else obj, scene.obj_type, scene.probes if probes is None else probes, scene.positions_px, scene.roi,
                         sampling_A=scene.obj_sampling, wavelength_A=scene.wavelength, thicknesses_A=scene.thicknesses)
    return inten.reshape(scene.gpts[0], scene.gpts[1], scene.roi[0], scene.roi[1])


# ---------------------------------------------------------------------------------------------
# library side


def build_library(scene: Scene, intensities: np.ndarray, *, com_fit="no_shift", install_truth=True, obj_init=None, seed=0, detector_mask=None,
                  val_ratio=0.0, val_mode="grid", learn_descan=False, learn_scan_positions=False, orthogonalize=True, vectorized=True, probe_from="params",
                  detector_units="A^-1", dset_pre=(), pt_twice=False, dataset_file=None, probe_order=None, array_form="c32"):
    """Runs the library's own construction + preprocessing on the simulated data and returns the Ptychography object.

    obj_init: None -> truth object installed via ObjectPixelated.from_array; "uniform" -> library default initial object.
    """
    import torch
    from quantem.core.datastructures import Dataset4dstem
    from quantem.diffractive_imaging.dataset_models import PtychographyDatasetRaster
    from quantem.diffractive_imaging.detector_models import DetectorPixelated
    from quantem.diffractive_imaging.object_models import ObjectPixelated
    from quantem.diffractive_imaging.probe_models import ProbePixelated
    from quantem.diffractive_imaging.ptychography import Ptychography

    sink = io.StringIO()
    with contextlib.redirect_stdout(sink):
        if detector_units == "mrad":
            # the same calibration expressed as scattering angle: alpha = lambda * k (the library converts back with the probe energy)
            dq = [scene.recip_sampling[0] * scene.wavelength * 1e3, scene.recip_sampling[1] * scene.wavelength * 1e3]
        else:
            dq = [scene.recip_sampling[0], scene.recip_sampling[1]]
        arr4 = np.ascontiguousarray(intensities, dtype=np.float32)
        if array_form == "f32":
            arr4 = np.asfortranarray(arr4)
        elif array_form == "c64":
            arr4 = arr4.astype(np.float64)  # (the float32-rounded values, so that the data are the same numbers)
        elif array_form == "ro32":
            arr4.setflags(write=False)
        elif array_form == "strided":
            big = np.zeros(arr4.shape[:-1] + (arr4.shape[-1] * 2,), dtype=np.float32)
            big[..., ::2] = arr4
            arr4 = big[..., ::2]
        d4 = Dataset4dstem.from_array(
            array=arr4, name="vf-scene", origin=np.zeros(4),
            sampling=[scene.scan_step_A[0], scene.scan_step_A[1], dq[0], dq[1]], units=["A", "A", detector_units, detector_units],
        )
        if dataset_file is not None:
            # the raw data also lives in a file (as for every real acquisition): a reconstruction saved without its data reloads it from there
            d4.save(dataset_file, mode="o")
            d4.file_path = dataset_file
        pdset = PtychographyDatasetRaster.from_dataset4dstem(d4, detector_mask=detector_mask, verbose=0, learn_descan=learn_descan, learn_scan_positions=learn_scan_positions)
        for earlier in dset_pre:
            # history: earlier preprocessing passes on the same dataset object (e.g. trying another descan fit first) must not matter,
            # nor must what was read / which loss targets were built in between (lazily built values must not survive a new pass)
            pdset.preprocess(com_fit_function=earlier, force_com_rotation=0, force_com_transpose=False, plot_rotation=False, plot_com=False, vectorized=vectorized, probe_energy=scene.energy)
            for name in ("centered_intensities", "centered_amplitudes", "intensities", "amplitudes", "com_measured", "com_fit", "mean_diffraction_intensity"):
                getattr(pdset, name, None)
            for lt in ("l2_intensity", "l1_amplitude", "poisson"):
                pdset._set_targets(lt)
                pdset.targets
        pdset.preprocess(com_fit_function=com_fit, force_com_rotation=0, force_com_transpose=False, plot_rotation=False, plot_com=False, vectorized=vectorized, probe_energy=scene.energy)
        thick = list(scene.thicknesses) if scene.num_slices > 1 else None
        if obj_init == "uniform":
            obj_model = ObjectPixelated.from_uniform(num_slices=scene.num_slices, slice_thicknesses=thick, obj_type=scene.obj_type, rng=seed)
        else:
            arr = scene.obj.astype(np.float32) if scene.obj_type == "potential" else scene.obj.astype(np.complex64)
            obj_model = ObjectPixelated.from_array(arr, slice_thicknesses=thick, obj_type=scene.obj_type, rng=seed)
        params = {"energy": scene.energy, "semiangle_cutoff": scene.semiangle_mrad, "defocus": 0.0}
        prb_truth = scene.probes if probe_order is None else scene.probes[list(probe_order)]  # the order of incoherent modes is physically irrelevant
        if probe_from == "array":
            # the other public constructor: the probe handed over as an array (its initial probe is then a non-leaf tensor, so
            # Ptychography.clone() takes its save-and-reload route instead of copy.deepcopy)
            probe_model = ProbePixelated.from_array(prb_truth.astype(np.complex64), num_probes=scene.num_probes, probe_params={"energy": scene.energy}, rng=seed)
        else:
            probe_model = ProbePixelated.from_params(params, num_probes=scene.num_probes, rng=seed)
        det = DetectorPixelated()
        pt = Ptychography.from_models(dset=pdset, obj_model=obj_model, probe_model=probe_model, detector_model=det, device="cpu", verbose=0, rng=seed)
        for _rep in range(2 if pt_twice else 1):
            pt.preprocess(obj_padding_px=tuple(int(p) for p in scene.pad_req), com_fit_function=com_fit, force_com_rotation=0, force_com_transpose=False,
                          plot_rotation=False, plot_com=False, val_ratio=val_ratio, val_mode=val_mode)
        if not orthogonalize:
            pt.probe_model.add_constraint("orthogonalize_probe", False)
        if install_truth:
            pt.probe_model.probe = torch.tensor(prb_truth.astype(np.complex64))
    return pt


def library_loss(pt, loss_type="l2_amplitude", batch_size=None, key="object"):
    """Loss at the current state through the public path: one reconstruct() iteration with lr = 0 SGD."""
    pt.reconstruct(num_iters=1, reset=False, optimizer_params={key: {"type": "sgd", "lr": 0.0}}, batch_size=batch_size, loss_type=loss_type)
    return float(pt.iter_losses[-1])


def library_loss_with(pt, loss_type, batch_size, dataset_opt):
    """As library_loss, with object and probe optimizers at lr = 0 and the dataset optimizer entry given (None = not mentioned)."""
    opt = {"object": {"type": "sgd", "lr": 0.0}, "probe": {"type": "sgd", "lr": 0.0}}
    if dataset_opt is not None:
        opt["dataset"] = dict(dataset_opt)
    pt.reconstruct(num_iters=1, reset=False, optimizer_params=opt, batch_size=batch_size, loss_type=loss_type)
    return float(pt.iter_losses[-1])


def chain_loss(pt, loss_type="l2_amplitude", indices=None, with_grad=False, audit=None):
    """Loss through the explicit chain named in the property's observe_at; optionally returns gradients w.r.t. raw object/probe."""
    import torch

    n = pt.dset.num_gpts
    idx = np.arange(n) if indices is None else np.asarray(indices)
    pt.dset._set_targets(loss_type)
    pt.compute_propagator_arrays()
    objp, prbp = pt.obj_model._obj, pt.probe_model._probe
    if with_grad:
        for p in (objp, prbp):
            p.requires_grad_(True)
            p.grad = None
    ctxm = contextlib.nullcontext() if with_grad else torch.no_grad()
    with ctxm:
        patch_indices, _pos, frac, descan = pt.dset.forward(idx, pt.obj_padding_px)
        shifted = pt.probe_model.forward(frac)
        patches = pt.obj_model.forward(patch_indices)
        if audit is not None:
            # the stages of the chain are functions of their arguments: they must not modify them, and calling a stage again with
            # the same tensors must give the same result (the caller may keep and reuse the placed probes / object patches)
            s0, p0 = shifted.detach().clone(), patches.detach().clone()
            _pp1, ov1 = pt.forward_operator(patches, shifted, descan)
            ov1 = ov1.detach().clone()
            audit["shifted_probes_modified"] = float((shifted.detach() - s0).abs().max() / s0.abs().max().clamp_min(1e-30))
            audit["object_patches_modified"] = float((patches.detach() - p0).abs().max() / p0.abs().max().clamp_min(1e-30))
            o0 = ov1.clone()
            pr1 = pt.detector_model.forward(ov1)
            audit["exit_waves_modified"] = float((ov1 - o0).abs().max() / o0.abs().max().clamp_min(1e-30))
            _pp2, ov2 = pt.forward_operator(patches, shifted, descan)
            audit["forward_operator_not_repeatable"] = float((ov2.detach() - o0).abs().max() / o0.abs().max().clamp_min(1e-30))
            pr2 = pt.detector_model.forward(ov2)
            audit["detector_not_repeatable"] = float((pr2.detach() - pr1.detach()).abs().max() / pr1.detach().abs().max().clamp_min(1e-30))
        _pp, overlap = pt.forward_operator(patches, shifted, descan)
        pred = pt.detector_model.forward(overlap)
        loss, _t = pt.error_estimate(pred, idx, loss_type=loss_type)
    if not with_grad:
        return float(loss), pred.detach().cpu().numpy()
    loss.backward()
    g_obj = objp.grad.detach().clone()
    g_prb = prbp.grad.detach().clone()
    objp.grad = None
    prbp.grad = None
    return float(loss), pred.detach().cpu().numpy(), g_obj, g_prb
