"""Executable reference model of quantem's ragged Vector (C11).

Pure Python + numpy, shares no code with quantem.  A vector is a dict {index tuple -> None | 2-D array}
over the full index grid of its fixed shape (``nested()`` renders it as the nested lists the real
class stores) plus an ordered schema (fields, units).  The model has *value* semantics: arrays are
copied on the way in and on the way out, so two model vectors never share storage.

Calls outside the API's domain raise ``Invalid``: the real object must raise as well and must keep
its state.  Semantics (pinned by probes against the real class, see DESIGN C11):

* indexing is per axis ("outer"): int (Python or NumPy, any width), slice, list / range / 1-D integer array of any
  integer dtype; missing trailing axes = all;
  an expression made of ints only, one per axis, addresses one cell (array or None = unset);
  anything else addresses a block, returned as a vector with the per-axis selection lengths
  (int axes keep length 1) / as the row-major list of its cells (``get_data``);
* ``get_data``/``set_data`` take exactly one index per axis and no negative positions;
* block assignment takes exactly one valid cell array per addressed cell, in row-major order;
* a valid cell value is a 2-D ndarray with one column per field;
* field arithmetic / set_flattened write a column back into each populated cell (row-major order),
  in the cell's own dtype; ``add_fields`` appends zero columns and one (default) unit per new field;
  ``remove_fields`` drops the known names and ignores unknown ones.
"""
from __future__ import annotations

import itertools

import numpy as np


class Invalid(Exception):
    """The modelled call is not in the API's domain (must raise, state unchanged)."""


def _is_int(x):
    return isinstance(x, (int, np.integer)) and not isinstance(x, (bool, np.bool_))


def axis_positions(ix, n, neg_ok):
    """One axis of an index expression -> (is_scalar, list of positions)."""
    if _is_int(ix):
        k = int(ix)
        if k < 0 and neg_ok:
            k += n
        if not 0 <= k < n:
            raise Invalid("position %r outside axis of size %d" % (ix, n))
        return True, [k]
    if isinstance(ix, slice):
        return False, list(range(*ix.indices(n)))
    if ix is Ellipsis:
        return False, list(range(n))
    if isinstance(ix, range):
        ix = list(ix)  # a range is an explicit list of positions
    if isinstance(ix, (list, np.ndarray)):
        a = np.asarray(ix)
        if a.ndim != 1 or a.dtype.kind not in "iu":
            raise Invalid("index list must be a 1-D sequence of ints")
        return False, [axis_positions(int(k), n, neg_ok)[1][0] for k in a.tolist()]
    raise Invalid("unsupported index %r" % (ix,))


OPS = {
    "iadd": lambda x, o: x + o,
    "isub": lambda x, o: x - o,
    "imul": lambda x, o: x * o,
    "itruediv": lambda x, o: x / o,
    "ifloordiv": lambda x, o: x // o,
    "imod": lambda x, o: x % o,
    "ipow": lambda x, o: x**o,
}


class VecModel:
    def __init__(self, shape, fields, units=None, name=None):
        shape = tuple(shape)
        if not shape or any((not _is_int(s)) or s <= 0 for s in shape):
            raise Invalid("shape %r" % (shape,))
        fields = [str(f) for f in fields]
        if len(set(fields)) != len(fields) or not fields:
            raise Invalid("fields %r" % (fields,))
        if units is None:
            units = [None] * len(fields)  # None = "whatever default text the library uses" (adopted by the monitor)
        if len(units) != len(fields):
            raise Invalid("units %r" % (units,))
        self.shape = shape
        self.fields = fields
        self.units = [None if u is None else str(u) for u in units]
        self.name = name
        self.cells = {ix: None for ix in itertools.product(*[range(s) for s in shape])}

    # ---- helpers ----------------------------------------------------------------------------
    @property
    def nf(self):
        return len(self.fields)

    @property
    def ndim(self):
        return len(self.shape)

    def order(self):
        """all index tuples in row-major order"""
        return list(itertools.product(*[range(s) for s in self.shape]))

    def nested(self):
        def build(prefix, rest):
            if not rest:
                return self.cells[prefix]
            return [build(prefix + (i,), rest[1:]) for i in range(rest[0])]

        return build((), self.shape)

    def valid_cell(self, a):
        return isinstance(a, np.ndarray) and a.ndim == 2 and a.shape[1] == self.nf

    def populated(self):
        return [ix for ix in self.order() if self.cells[ix] is not None]

    def clone(self):
        m = VecModel(self.shape, self.fields, self.units, self.name)
        for k, a in self.cells.items():
            m.cells[k] = None if a is None else a.copy()
        return m

    # ---- construction -----------------------------------------------------------------------
    @classmethod
    def from_data(cls, data, fields=None, units=None, num_fields=None, name=None):
        if not isinstance(data, list) or not data:
            raise Invalid("data must be a non-empty list")
        arrs = []
        for item in data:
            a = np.array(item) if isinstance(item, list) else item
            if not isinstance(a, np.ndarray) or a.ndim != 2:
                raise Invalid("cell is not a 2-D array")
            arrs.append(a)
        nf = arrs[0].shape[1]
        if any(a.shape[1] != nf for a in arrs) or nf == 0:
            raise Invalid("ragged column counts")
        if num_fields is not None and num_fields != nf:
            raise Invalid("num_fields")
        if fields is None:
            fields = ["field_%d" % i for i in range(nf)]
        if len(fields) != nf:
            raise Invalid("fields vs data")
        m = cls((len(arrs),), fields, units, name)
        for i, a in enumerate(arrs):
            m.cells[(i,)] = a.copy()
        return m

    def copy(self):
        return self.clone()

    # ---- addressing -------------------------------------------------------------------------
    def _address(self, idx, neg_ok, exact):
        """-> (all_scalar, per-axis position lists); idx is a tuple of per-axis expressions."""
        if not isinstance(idx, tuple):
            idx = (idx,)
        if len(idx) > self.ndim or (exact and len(idx) != self.ndim):
            raise Invalid("%d indices for %d axes" % (len(idx), self.ndim))
        scal, pos = [], []
        for ix, n in zip(idx, self.shape):
            s, p = axis_positions(ix, n, neg_ok)
            scal.append(s)
            pos.append(p)
        for n in self.shape[len(idx) :]:
            scal.append(False)
            pos.append(list(range(n)))
        return all(scal), pos

    def getitem(self, idx):
        """v[idx] -> None | array | VecModel (block)"""
        one, pos = self._address(idx, neg_ok=True, exact=False)
        if one:
            a = self.cells[tuple(p[0] for p in pos)]
            return None if a is None else a.copy()
        if any(len(p) == 0 for p in pos):
            raise Invalid("empty selection cannot be a vector")
        out = VecModel([len(p) for p in pos], self.fields, self.units, self.name)
        for oix in out.order():
            a = self.cells[tuple(p[i] for p, i in zip(pos, oix))]
            out.cells[oix] = None if a is None else a.copy()
        return out

    def get_data(self, *idx):
        """-> ('cell', array|None) for an all-int address, else ('list', row-major cells)"""
        one, pos = self._address(tuple(idx), neg_ok=False, exact=True)
        if one:
            a = self.cells[tuple(p[0] for p in pos)]
            return "cell", (None if a is None else a.copy())
        out = []
        for six in itertools.product(*pos):
            a = self.cells[six]
            out.append(None if a is None else a.copy())
        return "list", out

    def _assign(self, idx, value, neg_ok, exact):
        one, pos = self._address(idx, neg_ok=neg_ok, exact=exact)
        if one:
            if not self.valid_cell(value):
                raise Invalid("cell value")
            self.cells[tuple(p[0] for p in pos)] = value.copy()
            return
        if isinstance(value, VecModel):
            if value.fields.__len__() != self.nf:
                raise Invalid("field count of the source vector")
            value = [value.cells[k] for k in value.order()]
        if not isinstance(value, list):
            raise Invalid("block assignment needs a list of arrays")
        targets = list(itertools.product(*pos))
        if len(value) != len(targets):
            raise Invalid("need %d arrays, got %d" % (len(targets), len(value)))
        if not all(self.valid_cell(a) for a in value):
            raise Invalid("cell value in list")
        for t, a in zip(targets, value):
            self.cells[t] = a.copy()

    def setitem(self, idx, value):
        """full-length index expression (use setitem_short for fewer indices than axes)"""
        self._assign(idx, value, neg_ok=True, exact=True)

    def setitem_padded(self, idx, value):
        """the 'missing trailing axes = all' reading of an assignment with fewer indices than axes"""
        self._assign(idx, value, neg_ok=True, exact=False)

    def set_data(self, value, *idx):
        if isinstance(value, VecModel):
            raise Invalid("set_data takes arrays / lists of arrays")
        self._assign(tuple(idx), value, neg_ok=False, exact=True)

    # ---- fields -----------------------------------------------------------------------------
    def _col(self, name):
        if name not in self.fields:
            raise Invalid("unknown field %r" % (name,))
        return self.fields.index(name)

    def field_iop(self, name, op, other):
        k = self._col(name)
        f = OPS[op]
        for ix in self.populated():
            a = self.cells[ix]
            a[:, k] = f(a[:, k], other)

    def flatten(self):
        arrs = [self.cells[ix] for ix in self.populated()]
        if not arrs:
            return np.empty((0, self.nf))
        return np.concatenate(arrs, axis=0)

    def field_flatten(self, name):
        k = self._col(name)
        arrs = [self.cells[ix][:, k] for ix in self.populated()]
        if not arrs:
            return np.empty((0,))
        return np.concatenate(arrs)

    def set_flattened(self, name, values):
        k = self._col(name)
        values = np.asarray(values)
        total = sum(self.cells[ix].shape[0] for ix in self.populated())
        if values.ndim != 1 or values.shape[0] != total:
            raise Invalid("flattened length")
        at = 0
        for ix in self.populated():
            a = self.cells[ix]
            a[:, k] = values[at : at + a.shape[0]]
            at += a.shape[0]

    def add_fields(self, new):
        new = [new] if isinstance(new, str) else list(new)
        if len(set(new)) != len(new) or any(n in self.fields for n in new):
            raise Invalid("duplicate / existing field name")
        self.fields = self.fields + [str(n) for n in new]
        self.units = self.units + [None] * len(new)  # one unit per new field, text unspecified
        for ix in self.populated():
            a = self.cells[ix]
            self.cells[ix] = np.concatenate([a, np.zeros((a.shape[0], len(new)))], axis=1)

    def remove_fields(self, names):
        names = [names] if isinstance(names, str) else list(names)
        drop = {self.fields.index(n) for n in names if n in self.fields}
        if not drop:
            return
        keep = [i for i in range(self.nf) if i not in drop]
        self.fields = [self.fields[i] for i in keep]
        self.units = [self.units[i] for i in keep]
        for ix in self.populated():
            self.cells[ix] = self.cells[ix][:, keep].copy()
