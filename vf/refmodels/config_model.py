"""Abstract reference model of a dask-style configuration store (C19).

State: one nested dict whose keys are spelling-normalised ('-' -> '_'), an ordered list of default
mappings (normalised the same way) and a stack of open context-manager records.

Semantics (what the property states, not how quantem.core.config is written):
* set(items)            last writer wins, items applied in order; a dotted key walks/creates namespaces.
* update_defaults(new)  appended to the defaults; a stored value is overwritten only if the key is absent
                        or still equal to the current merged default; namespaces merge (siblings survive).
* refresh(user_files)   state := left fold of the accumulated defaults (later defaults win, namespaces merge), then
                        the user's configuration files merged on top the same way (nested, siblings survive).
* open_with/close_with  like set, but remembers for every assigned path either the previous value or, for
                        the topmost component that did not exist, that it has to be removed; close restores in
                        reverse order.
* key "device" (top level only) passes through `device_rule(value) -> (accepted, normalised)`; a rejected
  request raises DeviceRejected and never changes the device.

Stdlib only.  Nothing here imports quantem or torch.
"""
from __future__ import annotations

import copy
import functools
from collections.abc import Mapping


class _Missing:
    def __repr__(self):
        return "<MISSING>"


MISSING = _Missing()


class DeviceRejected(Exception):
    pass


class OutOfDomain(Exception):
    """The operation is outside the modelled domain (e.g. assigning below a leaf)."""


def norm_key(k: str) -> str:
    return k.replace("-", "_")


@functools.lru_cache(maxsize=4096)
def _path(key: str):
    return tuple(norm_key(p) for p in key.split("."))


def cp(v):
    """copy of a JSON-like value (dict/list containers, immutable leaves)"""
    if isinstance(v, dict):
        return {k: cp(x) for k, x in v.items()}
    if isinstance(v, list):
        return [cp(x) for x in v]
    if isinstance(v, (str, int, float, bool, type(None), tuple)):
        return v
    return copy.deepcopy(v)


def deep_merge(old: dict, new: Mapping) -> dict:
    """in-place merge, new wins on leaves, namespaces merge"""
    for k, v in new.items():
        k = norm_key(k)
        if isinstance(v, Mapping):
            if not isinstance(old.get(k), dict):
                old[k] = {}
            deep_merge(old[k], v)
        else:
            old[k] = cp(v)
    return old


def norm_tree(v):
    """value with all mapping keys normalised (two spellings of one key inside a mapping merge in order)"""
    if isinstance(v, Mapping):
        return deep_merge({}, v)
    return cp(v)


class ConfigModel:
    def __init__(self, config=None, defaults=None, device_rule=None):
        self.cfg = norm_tree(config or {})
        self.defaults = [norm_tree(d) for d in (defaults or [])]
        self.device_rule = device_rule or (lambda v: (True, v))
        self.blocks = []

    # ------------------------------------------------------------------ reads
    @staticmethod
    def path(key: str):
        return _path(key)

    def get(self, key: str):
        d = self.cfg
        for k in self.path(key):
            if not isinstance(d, dict) or k not in d:
                return MISSING
            d = d[k]
        return d

    def merged_defaults(self) -> dict:
        out: dict = {}
        for d in self.defaults:
            deep_merge(out, d)
        return out

    # ------------------------------------------------------------------ writes
    def _value(self, path, value):
        if path == ("device",):
            ok, val = self.device_rule(value)
            if not ok:
                raise DeviceRejected(repr(value))
            return val
        return norm_tree(value)

    def _assign(self, path, value, record=None):
        d = self.cfg
        for i, k in enumerate(path[:-1]):
            if k not in d:
                if record is not None:
                    record.append(("insert", tuple(path[: i + 1]), None))
                    record = None  # everything below an inserted namespace goes away with it
                d[k] = {}
            if not isinstance(d[k], dict):
                raise OutOfDomain("assignment below the leaf %r" % (path[: i + 1],))
            d = d[k]
        k = path[-1]
        if record is not None:
            if k in d:
                record.append(("replace", tuple(path), cp(d[k])))
            else:
                record.append(("insert", tuple(path), None))
        d[k] = value

    def set(self, items, record=None):
        """items: iterable of (key string, value) applied in order.  Raises DeviceRejected at the first
        rejected device request; items before it have been applied (callers decide how to judge that)."""
        for key, value in items:
            p = self.path(key)
            self._assign(p, self._value(p, value), record)

    def open_with(self, items):
        rec: list = []
        self.blocks.append(rec)
        self.set(items, rec)

    def close_with(self):
        rec = self.blocks.pop()
        for op, path, old in reversed(rec):
            d = self.cfg
            if op == "replace":
                for k in path[:-1]:
                    if not isinstance(d.get(k), dict):
                        d[k] = {}
                    d = d[k]
                d[path[-1]] = old
            else:
                for k in path[:-1]:
                    d = d.get(k) if isinstance(d, dict) else None
                    if not isinstance(d, dict):
                        break
                else:
                    d.pop(path[-1], None)

    def inserted_prefixes(self):
        """namespaces/leaves that exist only because an open block created them"""
        return [path for rec in self.blocks for op, path, _ in rec if op == "insert"]

    def update_defaults(self, new: Mapping):
        new = dict(new)
        for k in list(new):
            if k == "device":
                ok, val = self.device_rule(new[k])
                if not ok:
                    raise DeviceRejected(repr(new[k]))
                new[k] = val
        new = norm_tree(new)
        cur = self.merged_defaults()
        self.defaults.append(new)
        self._merge_new_defaults(self.cfg, new, cur)

    def _merge_new_defaults(self, old, new, dflt):
        for k, v in new.items():
            if isinstance(v, dict):
                if not isinstance(old.get(k), dict):
                    old[k] = {}
                sub = dflt.get(k) if isinstance(dflt, dict) else None
                self._merge_new_defaults(old[k], v, sub if isinstance(sub, dict) else {})
            else:
                if k not in old or (isinstance(dflt, dict) and k in dflt and _eq(dflt[k], old[k])):
                    old[k] = cp(v)

    def refresh(self, user_files=()):
        """state := fold of the defaults, then the user's configuration files layered on top by nested merge
        (files in name order; siblings of an overridden key keep their default values).
        user_files: iterable of (file name, mapping)."""
        cfg = self.merged_defaults()
        for _name, mapping in sorted(user_files, key=lambda nm: nm[0]):
            if not mapping:
                continue
            m = dict(mapping)
            if "device" in m:
                ok, val = self.device_rule(m["device"])
                if not ok:
                    raise DeviceRejected(repr(m["device"]))
                m["device"] = val
            deep_merge(cfg, m)
        self.cfg = cfg


def _eq(a, b):
    try:
        return bool(a == b)
    except Exception:
        return False
