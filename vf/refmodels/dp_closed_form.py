"""Harness-side float64 reference pieces for C04 (direct ptychography). Shares no code with quantem.

Conventions (read off the public constructor contract, not from library internals):
* the bright-field mask is corner-centred (DC at [0, 0]); image i of the stack belongs to the i-th
  True pixel of the construction mask in row-major order;
* detector pixel (i, j) sits at k = (signed(i) * dk0, signed(j) * dk1) [1/A] with fftfreq-style signed
  indices, then passively rotated by the rotation angle;
* scan spatial frequencies q are fftfreq(n, d) [1/A].
"""
from __future__ import annotations

import numpy as np

_HC = 12.398419843320026  # keV * A
_MC2 = 510.99895  # keV


def wavelength_A(energy_eV: float) -> float:
    e = energy_eV * 1e-3
    return _HC / np.sqrt(e * (2.0 * _MC2 + e))


def signed_index(n: int) -> np.ndarray:
    i = np.arange(n)
    return np.where(i < (n + 1) // 2, i, i - n).astype(np.float64)  # == fftfreq(n) * n


def mask_k(mask: np.ndarray, dk, rotation: float):
    """k-vectors (passively rotated) of all pixels of a corner-centred mask array; returns (kx, ky) full grids."""
    n0, n1 = mask.shape
    kx = signed_index(n0)[:, None] * float(dk[0]) * np.ones((1, n1))
    ky = signed_index(n1)[None, :] * float(dk[1]) * np.ones((n0, 1))
    c, s = np.cos(rotation), np.sin(rotation)
    return kx * c - ky * s, kx * s + ky * c


def soft_aperture_weights(kx, ky, lam, semiangle_mrad, dk):
    """|A(k)|^2 of the soft-edged aperture sampled on a detector with pixel size dk [1/A]."""
    alpha = lam * np.hypot(kx, ky)
    phi = np.arctan2(ky, kx)
    d0, d1 = float(dk[0]) * lam, float(dk[1]) * lam  # angular pixel size [rad]
    den = np.sqrt((np.cos(phi) * d0) ** 2 + (np.sin(phi) * d1) ** 2)
    a = np.clip((semiangle_mrad * 1e-3 - alpha) / den + 0.5, 0.0, 1.0)
    return a**2


def aperture_weight(mask, dk, rotation, lam, semiangle_mrad) -> float:
    kx, ky = mask_k(mask, dk, rotation)
    return float(soft_aperture_weights(kx, ky, lam, semiangle_mrad, dk)[mask].sum())


def geometric_shifts(kx, ky, lam, C10=0.0, C12=0.0, phi12=0.0):
    """grad chi / 2pi [A] for defocus + astigmatism: lam * [C10 k + C12 (cos2phi12 (kx,-ky) + sin2phi12 (ky,kx))]."""
    c2, s2 = np.cos(2 * phi12), np.sin(2 * phi12)
    sx = lam * (C10 * kx + C12 * (c2 * kx + s2 * ky))
    sy = lam * (C10 * ky + C12 * (-c2 * ky + s2 * kx))
    return sx, sy


def parallax_closed_form(stack32, sub_index, kx_i, ky_i, shifts, scan_sampling, upsampling, weight):
    """sum_i T_{s_i}[ zero-interleaved (x_i - mean_i) ] / W in float64.

    stack32: (num_bf_total, n0, n1) float32 stack as held by the library; sub_index: indices of the used images;
    shifts: (sx, sy) arrays aligned with sub_index [A]. T_s = Fourier translation by +s (multiply by exp(-2 pi i q.s))."""
    x = stack32[sub_index].astype(np.float64)
    x = x - x.mean(axis=(1, 2), keepdims=True)
    n, n0, n1 = x.shape
    U = int(upsampling)
    up = np.zeros((n, n0 * U, n1 * U))
    up[:, ::U, ::U] = x
    qx = np.fft.fftfreq(n0 * U, float(scan_sampling[0]) / U)[:, None]
    qy = np.fft.fftfreq(n1 * U, float(scan_sampling[1]) / U)[None, :]
    sx, sy = shifts
    F = np.fft.fft2(up)
    ramp = np.exp(-2j * np.pi * (qx[None] * np.asarray(sx)[:, None, None] + qy[None] * np.asarray(sy)[:, None, None]))
    out = np.fft.ifft2(F * ramp).real
    return out.sum(0) / weight, out / weight
