"""Independent reference simulator of the (multislice, mixed-state) ptychographic forward model.

numpy float64 / complex128, written from the physics; shares no code with quantem.

Conventions (the ones a 4D-STEM experiment + the usual FFT layout imply):
* probe modes are *corner-centred* arrays psi_m[i, j] on the ROI grid (index 0 = optical axis);
* a probe at object position p (pixels, float) illuminates the periodic patch of the object whose
  corner-centred index (i, j) is object pixel (round(p_r) + f_i, round(p_c) + f_j) mod (H, W), where
  f = (0, 1, ..., ceil(n/2)-1, -floor(n/2), ..., -1) are the signed FFT indices, and is displaced by the
  sub-pixel remainder p - round(p) with the Fourier shift theorem;
* slices transmit (O_s, or exp(i V_s) for a potential) and are separated by Fresnel free-space
  propagation exp(-i pi lambda dz k^2);
* the detector records the incoherent sum over modes of |FFT_ortho(exit wave)|^2, displayed with the
  zero frequency at pixel n // 2 (fftshift).
"""
from __future__ import annotations

import numpy as np


def electron_wavelength_A(energy_eV: float) -> float:
    """Relativistic de Broglie wavelength in Angstrom (CODATA constants)."""
    m = 9.1093837015e-31
    e = 1.602176634e-19
    c = 299792458.0
    h = 6.62607015e-34
    E = float(energy_eV) * e
    lam = h * c / np.sqrt(E * (2 * m * c * c + E))
    return lam * 1e10


def signed_fft_indices(n: int) -> np.ndarray:
    k = np.arange(n)
    k[k >= (n + 1) // 2] -= n
    return k


def round_half_even(x):
    return np.rint(x)  # IEEE round-half-to-even, what both numpy and torch implement


def fourier_shift(arr: np.ndarray, shift_rc) -> np.ndarray:
    """arr'(x) = arr(x - s) on the periodic grid (last two axes), exact for band-limited arrays."""
    nr, nc = arr.shape[-2:]
    kr = signed_fft_indices(nr) / nr
    kc = signed_fft_indices(nc) / nc
    ramp = np.exp(-2j * np.pi * (kr[:, None] * shift_rc[0] + kc[None, :] * shift_rc[1]))
    return np.fft.ifft2(np.fft.fft2(arr) * ramp)


def fresnel_propagator(shape, sampling_A, wavelength_A, dz_A) -> np.ndarray:
    kr = signed_fft_indices(shape[0]) / (shape[0] * sampling_A[0])
    kc = signed_fft_indices(shape[1]) / (shape[1] * sampling_A[1])
    k2 = kr[:, None] ** 2 + kc[None, :] ** 2
    return np.exp(-1j * np.pi * wavelength_A * dz_A * k2)


def transmission(obj: np.ndarray, obj_type: str) -> np.ndarray:
    if obj_type == "potential":
        return np.exp(1j * obj.astype(np.float64))
    return obj.astype(np.complex128)


def simulate(obj, obj_type, probes, positions_px, roi_shape, sampling_A=None, wavelength_A=None, thicknesses_A=()):
    """Returns intensities (J, h, w), float64, zero frequency at (h//2, w//2).

    obj: (S, H, W); probes: (M, h, w) corner-centred; positions_px: (J, 2) float.
    """
    T = transmission(np.asarray(obj), obj_type)
    S, H, W = T.shape
    h, w = roi_shape
    fi, fj = signed_fft_indices(h), signed_fft_indices(w)
    props = [fresnel_propagator((h, w), sampling_A, wavelength_A, dz) for dz in thicknesses_A] if S > 1 else []
    assert len(props) == S - 1
    out = np.zeros((len(positions_px), h, w))
    for j, p in enumerate(np.asarray(positions_px, dtype=np.float64)):
        r0 = round_half_even(p)
        frac = p - r0
        rows = (int(r0[0]) + fi) % H
        cols = (int(r0[1]) + fj) % W
        inten = np.zeros((h, w))
        for m in range(probes.shape[0]):
            psi = fourier_shift(probes[m], frac)
            for s in range(S):
                psi = psi * T[s][np.ix_(rows, cols)]
                if s < S - 1:
                    psi = np.fft.ifft2(np.fft.fft2(psi) * props[s])
            inten += np.abs(np.fft.fft2(psi, norm="ortho")) ** 2
        out[j] = np.fft.fftshift(inten)
    return out


# ---- geometry the library is expected to derive from the calibration (cross-oracle) -------------


def object_sampling_A(roi_shape, reciprocal_sampling):
    return 1.0 / (np.asarray(roi_shape, dtype=np.float64) * np.asarray(reciprocal_sampling, dtype=np.float64))


def raster_positions_px(gpts, scan_step_A, obj_sampling_A, padding_px):
    r = np.arange(gpts[0]) * scan_step_A[0] / obj_sampling_A[0] + padding_px[0]
    c = np.arange(gpts[1]) * scan_step_A[1] / obj_sampling_A[1] + padding_px[1]
    rr, cc = np.meshgrid(r, c, indexing="ij")
    return np.stack([rr.ravel(), cc.ravel()], axis=-1)


def soft_aperture_probe(roi_shape, reciprocal_sampling, wavelength_A, semiangle_mrad, aberr=None, mode_index=0):
    """A corner-centred probe from a soft aperture and chi(k) = pi/lambda * (C10 a^2 + C12 a^2 cos 2(phi - phi12)) / ... (simple)."""
    kr = signed_fft_indices(roi_shape[0]) * reciprocal_sampling[0]
    kc = signed_fft_indices(roi_shape[1]) * reciprocal_sampling[1]
    KR, KC = np.meshgrid(kr, kc, indexing="ij")
    alpha = np.sqrt(KR**2 + KC**2) * wavelength_A  # rad
    phi = np.arctan2(KC, KR)
    cutoff = semiangle_mrad * 1e-3
    edge = 0.5 * max(reciprocal_sampling) * wavelength_A
    ap = np.clip((cutoff - alpha) / (2 * edge) + 0.5, 0.0, 1.0)
    chi = np.zeros_like(alpha)
    if aberr:
        c10 = aberr.get("C10", 0.0)
        c12 = aberr.get("C12", 0.0)
        p12 = aberr.get("phi12", 0.0)
        c30 = aberr.get("C30", 0.0)
        chi = 2 * np.pi / wavelength_A * (0.5 * alpha**2 * (c10 + c12 * np.cos(2 * (phi - p12))) + 0.25 * c30 * alpha**4)
    # higher modes: Hermite-like modulation in the aperture plane makes them orthogonal-ish before Gram-Schmidt
    mod = 1.0
    if mode_index == 1:
        mod = KR / (np.abs(KR).max() + 1e-30)
    elif mode_index == 2:
        mod = KC / (np.abs(KC).max() + 1e-30)
    elif mode_index >= 3:
        mod = (KR * KC) / (np.abs(KR * KC).max() + 1e-30)
    far = ap * mod * np.exp(-1j * chi)
    return np.fft.ifft2(far, norm="ortho")
