"""Executable reference model of quantem's Dataset containers (C03).

Plain numpy + lists; written from the property text and the public docstrings, sharing no code with
quantem.  A model instance is the abstract state (class name, array, per-axis origin / sampling /
units).  Every operation returns the *expected* state of the result; `arr is None` means "content
not predicted" (fourier_resample: content is C06's job, only shape and calibration are modelled).

Calls the model considers invalid raise ModelInvalid: the real call must then raise and leave the
real object unchanged.
"""
from __future__ import annotations

import numbers

import numpy as np

# class <-> dimensionality, and the registry used when indexing changes the dimensionality
FIXED_NDIM = {"Dataset2d": 2, "Dataset3d": 3, "Dataset4d": 4, "Dataset4dstem": 4}
REGISTRY = {2: "Dataset2d", 3: "Dataset3d", 4: "Dataset4d"}


class ModelInvalid(Exception):
    """the modelled call is outside the API's domain: the real call must raise, state unchanged"""


def _ndinfo(value, ndim):
    """origin / sampling assignment: a real scalar is broadcast, a sequence must have one real entry per axis"""
    if isinstance(value, (bool, np.bool_)) or value is None or isinstance(value, (str, bytes, dict, set)):
        raise ModelInvalid("non-numeric")
    if isinstance(value, numbers.Real):
        return [float(value)] * ndim
    if isinstance(value, (list, tuple, np.ndarray)):
        flat = list(np.asarray(value, dtype=object).ravel()) if not isinstance(value, np.ndarray) else list(value.ravel())
        for v in flat:
            if isinstance(v, (bool, np.bool_)) or not isinstance(v, numbers.Real):
                raise ModelInvalid("non-numeric entry")
        if len(flat) != ndim:
            raise ModelInvalid("wrong length")
        return [float(v) for v in flat]
    raise ModelInvalid("unsupported type")


def _units(value, ndim):
    if isinstance(value, str):
        return [value] * ndim
    if isinstance(value, (list, tuple)):
        if len(value) != ndim:
            raise ModelInvalid("wrong length")
        return [str(v) for v in value]
    raise ModelInvalid("unsupported type")


def _is_int(v):
    return isinstance(v, numbers.Integral) and not isinstance(v, (bool, np.bool_))


def _is_real(v):
    return isinstance(v, numbers.Real) and not isinstance(v, (bool, np.bool_))


def _axes(axes, ndim):
    if axes is None:
        return list(range(ndim))
    if isinstance(axes, numbers.Real):
        axes = [int(axes)]
    out = []
    for a in axes:
        a = int(a)
        if not -ndim <= a < ndim:
            raise ModelInvalid("axis out of range")
        out.append(a % ndim)
    return out


class DModel:
    def __init__(self, cls, arr, origin, sampling, units):
        self.cls = cls
        self.arr = None if arr is None else np.array(arr, copy=True)
        self.shape = tuple(arr.shape) if arr is not None else None
        nd = len(self.shape)
        self.origin = _ndinfo(origin, nd)
        self.sampling = _ndinfo(sampling, nd)
        self.units = _units(units, nd)

    # -- helpers -----------------------------------------------------------------------------
    @property
    def ndim(self):
        return len(self.shape)

    def clone(self):
        m = DModel.__new__(DModel)
        m.cls, m.shape = self.cls, tuple(self.shape)
        m.arr = None if self.arr is None else self.arr.copy()
        m.origin, m.sampling, m.units = list(self.origin), list(self.sampling), list(self.units)
        return m

    def _with(self, arr=None, shape=None):
        m = self.clone()
        m.arr = arr
        m.shape = tuple(arr.shape) if arr is not None else tuple(shape)
        return m

    # -- operations --------------------------------------------------------------------------
    def copy(self):
        return self.clone()

    def set_origin(self, v):
        self.origin = _ndinfo(v, self.ndim)

    def set_sampling(self, v):
        self.sampling = _ndinfo(v, self.ndim)

    def set_units(self, v):
        self.units = _units(v, self.ndim)

    def set_array(self, new):
        new = np.asarray(new)
        if new.ndim > self.ndim:
            raise ModelInvalid("array with more dimensions than the dataset")
        while new.ndim < self.ndim:  # documented: lower-dimensional arrays get leading length-1 axes
            new = new[None]
        self.arr = new.copy()
        self.shape = tuple(new.shape)

    def pad(self, pad_width=None, output_shape=None):
        nd = self.ndim
        if (pad_width is None) == (output_shape is None):
            raise ModelInvalid("exactly one of pad_width / output_shape")
        if output_shape is not None:
            if len(output_shape) != nd:
                raise ModelInvalid("output_shape length")
            pairs = []
            if not all(_is_int(m) for m in output_shape):
                raise ModelInvalid("output_shape entry is not an integer")
            for n, m in zip(self.shape, output_shape):
                d = int(m) - n
                pairs.append((d // 2, d - d // 2) if d > 0 else (0, 0))  # symmetric: floor before, ceil after
        elif isinstance(pad_width, numbers.Integral):
            pairs = [(int(pad_width), int(pad_width))] * nd
        else:
            pw = list(pad_width)
            if len(pw) == 2 and all(isinstance(x, numbers.Integral) for x in pw):
                pairs = [(int(pw[0]), int(pw[1]))] * nd
            else:
                if len(pw) != nd:
                    raise ModelInvalid("pad_width length")
                for e in pw:
                    if not isinstance(e, (tuple, list)) or len(e) != 2 or not all(_is_int(x) and x >= 0 for x in e):
                        raise ModelInvalid("pad_width entry is not a pair of non-negative integers")
                pairs = [(int(b), int(a)) for b, a in pw]
        new_shape = tuple(n + b + a for n, (b, a) in zip(self.shape, pairs))
        out = np.zeros(new_shape, dtype=self.arr.dtype)
        out[tuple(slice(b, b + n) for n, (b, a) in zip(self.shape, pairs))] = self.arr
        return self._with(out)  # calibration is documented to stay as it is

    def crop(self, crop_widths, axes=None):
        nd = self.ndim
        if axes is None:
            if len(crop_widths) != nd:
                raise ModelInvalid("crop_widths length")
            ax = list(range(nd))
            cw = list(crop_widths)
        elif isinstance(axes, numbers.Real):
            ax = _axes(axes, nd)
            cw = [crop_widths[0]]
        else:
            ax = _axes(axes, nd)
            cw = list(crop_widths)
            if len(cw) != len(ax):
                raise ModelInvalid("crop_widths length")
        sl = [slice(None)] * nd
        for e in cw:
            if not isinstance(e, (tuple, list)) or len(e) != 2 or not all(_is_int(x) for x in e):
                raise ModelInvalid("crop_widths entry is not a (min, max) pair of integers")
        for a, (lo, hi) in zip(ax, cw):
            sl[a] = slice(lo, hi if hi != 0 else None)  # (min, max) per axis; max 0 = up to the end
        return self._with(self.arr[tuple(sl)].copy())

    def bin(self, factors, axes=None, reducer="sum"):
        nd = self.ndim
        ax = _axes(axes, nd)
        if isinstance(factors, numbers.Integral):
            fs = [int(factors)] * len(ax)
        else:
            if not isinstance(factors, (list, tuple)) or not all(_is_int(f) for f in factors):
                raise ModelInvalid("bin factor is not an integer")
            fs = [int(f) for f in factors]
            if len(fs) != len(ax):
                raise ModelInvalid("factors length")
        if any(f <= 0 for f in fs) or reducer not in ("sum", "mean"):
            raise ModelInvalid("bad factor / reducer")
        a = self.arr
        if a.dtype.kind in "iu":
            # exact integer arithmetic: int64 when it cannot overflow (|v| < 2**32, block volume far below 2**31), else Python ints
            out = a.astype(np.int64) if (a.dtype.itemsize <= 4 and a.size > 4096) else a.astype(object)
        else:
            out = a.astype(np.complex128 if a.dtype.kind == "c" else np.float64)
        o, s = list(self.origin), list(self.sampling)
        vol = 1
        for axis, f in zip(ax, fs):
            nb = out.shape[axis] // f
            idx = [slice(None)] * nd
            acc = None
            for k in range(f):
                idx[axis] = slice(k, nb * f, f)
                part = out[tuple(idx)]
                acc = part.copy() if acc is None else acc + part
            out = acc
            o[axis] = o[axis] + 0.5 * (f - 1) * s[axis]  # mean coordinate of the first block
            s[axis] = s[axis] * f
            vol *= f
        if reducer == "mean":
            out = out.astype(np.complex128 if a.dtype.kind == "c" else np.float64) / vol
        m = self._with(np.asarray(out))
        m.origin, m.sampling = o, s
        return m

    def fourier_resample(self, out_shape=None, factors=None, axes=None):
        nd = self.ndim
        ax = _axes(axes, nd)
        if (out_shape is None) == (factors is None):
            raise ModelInvalid("exactly one of out_shape / factors")
        if factors is not None:
            if not isinstance(factors, numbers.Real) and not all(_is_real(f) for f in factors):
                raise ModelInvalid("resample factor is not a number")
            fs = [float(factors)] * len(ax) if isinstance(factors, numbers.Real) else [float(f) for f in factors]
            if len(fs) != len(ax):
                raise ModelInvalid("factors length")
            lens = [max(1, int(round(self.shape[a] * f))) for a, f in zip(ax, fs)]
        else:
            if not all(_is_int(m) for m in out_shape):
                raise ModelInvalid("out_shape entry is not an integer")
            lens = [int(m) for m in out_shape]
            if len(lens) != len(ax) or any(m < 1 for m in lens):
                raise ModelInvalid("out_shape")
        shape = list(self.shape)
        o, s = list(self.origin), list(self.sampling)
        for a, m in zip(ax, lens):
            n = shape[a]
            s_new = s[a] * n / m  # extent n*s preserved
            o[a] = o[a] + (n - 1) / 2.0 * s[a] - (m - 1) / 2.0 * s_new  # physical centre preserved
            s[a] = s_new
            shape[a] = m
        mdl = self._with(None, shape=shape)
        mdl.origin, mdl.sampling = o, s
        return mdl

    def index(self, index):
        nd = self.ndim
        data = self.arr[index]  # "exactly the NumPy-indexed data"
        tup = index if isinstance(index, tuple) else (index,)
        n_ell = sum(1 for t in tup if t is Ellipsis)
        if n_ell > 1:
            raise ModelInvalid("two Ellipsis")
        explicit = len(tup) - n_ell
        full = []
        for t in tup:
            if t is Ellipsis:
                full.extend([slice(None)] * (nd - explicit))
            else:
                full.append(t)
        full.extend([slice(None)] * (nd - len(full)))
        o, s, u = [], [], []
        for axis, t in enumerate(full):
            if isinstance(t, (numbers.Integral, np.integer)) and not isinstance(t, (bool, np.bool_)):
                continue  # integer: axis removed
            step = 1
            if isinstance(t, slice) and t.step is not None:
                step = t.step
            o.append(self.origin[axis])  # kept axis: its own origin (not shifted by the slice start)
            s.append(self.sampling[axis] * step)
            u.append(self.units[axis])
        m = DModel.__new__(DModel)
        m.arr, m.shape = np.array(data, copy=True), tuple(data.shape)
        m.origin, m.sampling, m.units = o, s, u
        if len(m.shape) == nd:
            m.cls = self.cls
        else:
            m.cls = REGISTRY.get(len(m.shape), "Dataset")
        return m


def class_consistent(cls_name, ndim):
    want = FIXED_NDIM.get(cls_name)
    return want is None or want == ndim
