"""Structural deep equality with typed diff paths (DESIGN section 2), used by C01 / C08 / C14.

    d = deq(a, b, mode)          -> None if equal, else the first Diff (depth-first, deterministic order)
    ds = diffs(a, b, mode, n)    -> up to n Diffs

A Diff carries the *path* of the first differing node (``obj.inner.lst[2]['k']``), a categorical
``what`` (class / type / container_kind / attr_missing / attr_extra / key_missing / key_extra /
length / dtype / shape / value / requires_grad / state) and the value kinds on both sides, so a
violation record can be classified by mechanism without looking at random values.

Modes
-----
``strict``     same Python type everywhere, same container kind, arrays: dtype + shape + bytes,
               tensors: class + dtype + shape + requires_grad + bytes, modules / optimizers /
               schedulers: class + state_dict, AutoSerialize objects: class + exact attribute-name
               set, floats bit-for-bit (NaN == NaN, -0.0 != 0.0), rng generators: bit generator
               class + state.
``roundtrip``  strict minus the relaxations the serializer properties grant:
               * a NumPy scalar and a Python scalar (or two NumPy scalars) are equal when their
                 values are (``npscalar``),
               * list vs list / tuple vs tuple whose items are all real numeric scalars on both
                 sides are compared by numeric value (``numseq``),
               * NaN equals NaN, floats are compared with ``==`` (``nan``),
               * rng generators, loggers and summary writers only need to be the same kind of
                 object (``kind_only``).
``loaded``     strict + ``kind_only`` - for comparing two objects that were both produced by
               ``load`` (every load creates rng generators with fresh entropy).

stdlib + numpy + torch only; nothing from quantem is imported (AutoSerialize objects are recognised
by the class marker the serializer itself uses).
"""
from __future__ import annotations

import logging
import math
import os
import struct

import numpy as np

try:  # torch is always present in /venv, but deq must stay importable without it
    import torch
except Exception:  # pragma: no cover
    torch = None

MODES = {
    "strict": frozenset(),
    "loaded": frozenset({"kind_only"}),
    "roundtrip": frozenset({"npscalar", "numseq", "nan", "kind_only"}),
}

_REAL = (bool, int, float, np.bool_, np.integer, np.floating)


class Diff:
    __slots__ = ("path", "what", "a_kind", "b_kind", "detail")

    def __init__(self, path, what, a_kind, b_kind, detail=""):
        self.path, self.what, self.a_kind, self.b_kind, self.detail = path, what, a_kind, b_kind, detail

    def __str__(self):
        return "%s: %s %s != %s%s" % (self.path, self.what, self.a_kind, self.b_kind, (" (" + self.detail + ")") if self.detail else "")

    __repr__ = __str__

    def fields(self):
        return {"diff_what": self.what, "a_kind": self.a_kind, "b_kind": self.b_kind}


def is_autoserialize(v) -> bool:
    m = getattr(type(v), "__autoserialize_marker__", None)
    return isinstance(m, tuple) and len(m) == 2 and m[0] == "AutoSerialize"


def attrs_of(o) -> dict:
    """attribute name -> value of an AutoSerialize object: the declared fields of an attrs-defined class, vars() otherwise."""
    fields = getattr(type(o), "__attrs_attrs__", None)
    if fields is not None:
        return {fl.name: getattr(o, fl.name) for fl in fields if hasattr(o, fl.name)}
    return dict(vars(o))


def kind_of(v) -> str:
    """Categorical value kind (independent of the random value)."""
    if v is None:
        return "none"
    if isinstance(v, np.generic):
        return "npscalar:" + v.dtype.kind
    if isinstance(v, bool):
        return "bool"
    if isinstance(v, int):
        return "int"
    if isinstance(v, float):
        return "float"
    if isinstance(v, complex):
        return "complex"
    if isinstance(v, str):
        return "str"
    if isinstance(v, (bytes, bytearray)):
        return "bytes"
    if isinstance(v, os.PathLike):
        return "path"
    if isinstance(v, np.ndarray):
        return "ndarray"
    if is_autoserialize(v):
        return "autoserialize"  # also when it is an nn.Module at the same time: compared attribute by attribute
    if torch is not None:
        if isinstance(v, torch.nn.Parameter):
            return "parameter"
        if isinstance(v, torch.Tensor):
            return "tensor"
        if isinstance(v, torch.nn.Module):
            return "module"
        if isinstance(v, torch.optim.Optimizer):
            return "optimizer"
        if isinstance(v, torch.optim.lr_scheduler.LRScheduler):
            return "scheduler"
        if isinstance(v, torch.Generator):
            return "torch_generator"
    if isinstance(v, list):
        return "list"
    if isinstance(v, tuple):
        return "tuple"
    if isinstance(v, dict):
        return "dict"
    if isinstance(v, set):
        return "set"
    if isinstance(v, frozenset):
        return "frozenset"
    if is_autoserialize(v):
        return "autoserialize"
    if isinstance(v, np.random.Generator):
        return "rng"
    if isinstance(v, logging.Logger):
        return "logger"
    if type(v).__name__ == "SummaryWriter":
        return "summarywriter"
    return "other:" + type(v).__name__


def array_kind(a) -> str:
    if a.ndim == 0:
        s = "0d"
    elif a.size == 0:
        s = "empty"
    else:
        s = "%dd" % a.ndim
    return "ndarray[%s,%s]" % (a.dtype.kind, s)


def _tname(v):
    t = type(v)
    return "%s.%s" % (t.__module__, t.__qualname__) if t.__module__ not in ("builtins",) else t.__qualname__


def _is_real(v):
    """real numeric scalar (np.timedelta64 subclasses np.signedinteger but is not a number here)."""
    if isinstance(v, np.generic):
        return v.dtype.kind in "biuf"
    return isinstance(v, (bool, int, float))


def _num_eq(a, b) -> bool:
    """numeric equality of two real scalars by value, NaN == NaN; exact for ints beyond 2**53."""
    try:
        if a != a and b != b:
            return True
        if isinstance(a, (np.generic,)):
            a = a.item()
        if isinstance(b, (np.generic,)):
            b = b.item()
        return bool(a == b)
    except Exception:
        return False


def _float_bits(x):
    return struct.pack("<d", float(x))


def _arr_bytes(a):
    return np.ascontiguousarray(a).tobytes()


def _tensor_bytes_equal(a, b):
    a, b = a.detach(), b.detach()
    try:
        fa = a.contiguous().flatten().view(torch.uint8)
        fb = b.contiguous().flatten().view(torch.uint8)
        return bool(torch.equal(fa, fb))
    except Exception:
        if a.numel() == 0:
            return True
        same = a == b
        if a.is_floating_point() or a.is_complex():
            same = same | (a.isnan() & b.isnan())
        return bool(same.all())


def _short(v, n=60):
    r = repr(v)
    return r if len(r) <= n else r[: n - 3] + "..."


class _Cmp:
    def __init__(self, flags, limit):
        self.f = flags
        self.limit = limit
        self.out = []
        self.active = set()

    def add(self, path, what, a, b, detail=""):
        ka = array_kind(a) if isinstance(a, np.ndarray) else kind_of(a)
        kb = array_kind(b) if isinstance(b, np.ndarray) else kind_of(b)
        self.out.append(Diff(path, what, ka, kb, detail))
        return len(self.out) >= self.limit

    def full(self):
        return len(self.out) >= self.limit

    # ------------------------------------------------------------------------------------------
    def cmp(self, a, b, path, depth=0):
        if self.full():
            return
        if depth > 400:
            self.add(path, "depth", a, b, "recursion deeper than 400")
            return
        ka, kb = kind_of(a), kind_of(b)
        f = self.f

        # ---- scalars (Python and NumPy) ------------------------------------------------------
        a_np, b_np = isinstance(a, np.generic), isinstance(b, np.generic)
        if a_np or b_np:
            if "npscalar" in f and self._scalar_value_class(a) is not None and self._scalar_value_class(a) == self._scalar_value_class(b):
                if not self._scalar_value_eq(a, b):
                    self.add(path, "value", a, b, "%s vs %s" % (_short(a), _short(b)))
                return
            if not (a_np and b_np) or type(a) is not type(b):
                self.add(path, "type", a, b, "%s vs %s" % (_tname(a), _tname(b)))
                return
            if a.dtype != b.dtype:
                self.add(path, "dtype", a, b, "%s vs %s" % (a.dtype, b.dtype))
                return
            if _arr_bytes(np.asarray(a)) != _arr_bytes(np.asarray(b)):
                self.add(path, "value", a, b, "%s vs %s" % (_short(a), _short(b)))
            return

        if ka != kb:
            what = "container_kind" if ka in ("list", "tuple", "set", "frozenset", "dict") and kb in ("list", "tuple", "set", "frozenset", "dict") else "type"
            self.add(path, what, a, b, "%s vs %s" % (_tname(a), _tname(b)))
            return

        if ka == "none":
            return
        if ka in ("bool", "int"):
            if type(a) is not type(b):
                self.add(path, "type", a, b, "%s vs %s" % (_tname(a), _tname(b)))
            elif a != b:
                self.add(path, "value", a, b, "%s vs %s" % (_short(a), _short(b)))
            return
        if ka == "float":
            if type(a) is not type(b):
                self.add(path, "type", a, b, "%s vs %s" % (_tname(a), _tname(b)))
            elif "nan" in f:
                if not (a == b or (a != a and b != b)):
                    self.add(path, "value", a, b, "%r vs %r" % (a, b))
            elif _float_bits(a) != _float_bits(b):
                self.add(path, "value", a, b, "%r vs %r (bit-for-bit)" % (a, b))
            return
        if ka == "complex":
            if type(a) is not type(b):
                self.add(path, "type", a, b, "%s vs %s" % (_tname(a), _tname(b)))
            elif not (a == b or (a != a and b != b and repr(a) == repr(b))):
                self.add(path, "value", a, b, "%r vs %r" % (a, b))
            return
        if ka in ("str", "bytes", "path"):
            if type(a) is not type(b):
                self.add(path, "type", a, b, "%s vs %s" % (_tname(a), _tname(b)))
            elif a != b:
                self.add(path, "value", a, b, "%s vs %s" % (_short(a), _short(b)))
            return

        # ---- arrays / tensors ---------------------------------------------------------------
        if ka == "ndarray":
            if type(a) is not type(b):
                self.add(path, "type", a, b, "%s vs %s" % (_tname(a), _tname(b)))
            elif a.dtype != b.dtype:
                self.add(path, "dtype", a, b, "%s vs %s" % (a.dtype, b.dtype))
            elif a.shape != b.shape:
                self.add(path, "shape", a, b, "%s vs %s" % (a.shape, b.shape))
            elif a.dtype.hasobject:
                if not all(x == y for x, y in zip(a.ravel().tolist(), b.ravel().tolist())):
                    self.add(path, "value", a, b, "object array contents differ")
            elif _arr_bytes(a) != _arr_bytes(b):
                n = int(np.sum(np.ascontiguousarray(a).view(np.uint8).reshape(-1) != np.ascontiguousarray(b).view(np.uint8).reshape(-1))) if a.size else 0
                self.add(path, "value", a, b, "contents differ (%d bytes); a=%s b=%s" % (n, _short(a.ravel()[:4].tolist()), _short(b.ravel()[:4].tolist())))
            return
        if ka in ("tensor", "parameter"):
            if type(a) is not type(b):
                self.add(path, "type", a, b, "%s vs %s" % (_tname(a), _tname(b)))
            elif a.dtype != b.dtype:
                self.add(path, "dtype", a, b, "%s vs %s" % (a.dtype, b.dtype))
            elif tuple(a.shape) != tuple(b.shape):
                self.add(path, "shape", a, b, "%s vs %s" % (tuple(a.shape), tuple(b.shape)))
            elif bool(a.requires_grad) != bool(b.requires_grad):
                self.add(path, "requires_grad", a, b, "%s vs %s" % (a.requires_grad, b.requires_grad))
            elif not _tensor_bytes_equal(a, b):
                self.add(path, "value", a, b, "tensor contents differ")
            return

        # ---- torch stateful objects ---------------------------------------------------------
        if ka in ("module", "optimizer", "scheduler"):
            if type(a) is not type(b):
                self.add(path, "class", a, b, "%s vs %s" % (_tname(a), _tname(b)))
                return
            if ka == "module" and bool(a.training) != bool(b.training):
                self.add(path, "state", a, b, "training flag %s vs %s" % (a.training, b.training))
                return
            try:
                sa, sb = a.state_dict(), b.state_dict()
            except Exception as e:  # noqa: BLE001
                self.add(path, "state", a, b, "state_dict() raised %r" % (e,))
                return
            if ka == "module" and list(sa.keys()) != list(sb.keys()):
                self.add(path + ".state_dict()", "key_missing", a, b, "%s vs %s" % (list(sa.keys())[:6], list(sb.keys())[:6]))
                return
            self.cmp(dict(sa), dict(sb), path + ".state_dict()", depth + 1)
            return

        # ---- containers -----------------------------------------------------------------------
        if ka in ("list", "tuple"):
            if type(a) is not type(b):
                self.add(path, "type", a, b, "%s vs %s" % (_tname(a), _tname(b)))
                return
            if len(a) != len(b):
                self.add(path, "length", a, b, "%d vs %d" % (len(a), len(b)))
                return
            if "numseq" in f and len(a) and all(_is_real(x) for x in a) and all(_is_real(x) for x in b):
                for i, (x, y) in enumerate(zip(a, b)):
                    if not _num_eq(x, y):
                        self.add("%s[%d]" % (path, i), "value", x, y, "%s vs %s (numeric sequence, by value)" % (_short(x), _short(y)))
                        return
                return
            for i, (x, y) in enumerate(zip(a, b)):
                self.cmp(x, y, "%s[%d]" % (path, i), depth + 1)
                if self.full():
                    return
            return
        if ka == "dict":
            if type(a) is not type(b):
                self.add(path, "type", a, b, "%s vs %s" % (_tname(a), _tname(b)))
                return
            for k in a:
                if k not in b:
                    if self.add("%s[%r]" % (path, k), "key_missing", a[k], None, "key %r of a (%s) absent in b" % (k, kind_of(a[k]))):
                        return
            for k in b:
                if k not in a:
                    if self.add("%s[%r]" % (path, k), "key_extra", None, b[k], "key %r of b (%s) absent in a" % (k, kind_of(b[k]))):
                        return
            for k in sorted((k for k in a if k in b), key=repr):
                self.cmp(a[k], b[k], "%s[%r]" % (path, k), depth + 1)
                if self.full():
                    return
            return
        if ka in ("set", "frozenset"):
            if type(a) is not type(b):
                self.add(path, "type", a, b, "%s vs %s" % (_tname(a), _tname(b)))
                return
            # under an equality with NaN == NaN (and by-value numerics) a set may hold "duplicates"
            # ({nan, np.float64(nan)}) that collapse on the way: compare by mutual containment then
            relaxed = "nan" in f
            if not relaxed and len(a) != len(b):
                self.add(path, "length", a, b, "%d vs %d" % (len(a), len(b)))
                return
            numeric = "numseq" in f and len(a) and all(_is_real(x) for x in a) and all(_is_real(x) for x in b)

            def same(x, y):
                if numeric:
                    return _num_eq(x, y)
                sub = _Cmp(f, 1)
                sub.cmp(x, y, path, depth + 1)
                return not sub.out

            rest = list(b)
            for x in sorted(a, key=repr):
                hit = None
                for jj, y in enumerate(rest):
                    if same(x, y):
                        hit = jj
                        break
                if hit is None:
                    self.add("%s{%s}" % (path, _short(x, 30)), "value", x, None, "set element %s of a has no equal partner in b=%s" % (_short(x), _short(sorted(b, key=repr), 80)))
                    return
                if not relaxed:
                    rest.pop(hit)
            if relaxed:
                for y in sorted(b, key=repr):
                    if not any(same(x, y) for x in a):
                        self.add("%s{%s}" % (path, _short(y, 30)), "value", None, y, "set element %s of b has no equal partner in a" % _short(y))
                        return
            return
        if ka == "autoserialize":
            if type(a) is not type(b):
                self.add(path, "class", a, b, "%s vs %s" % (_tname(a), _tname(b)))
                return
            va, vb = self._attrs(a), self._attrs(b)
            for k in va:
                if k not in vb:
                    if self.add("%s.%s" % (path, k), "attr_missing", va[k], None, "attribute %r (%s) absent in b" % (k, kind_of(va[k]))):
                        return
            for k in vb:
                if k not in va:
                    if self.add("%s.%s" % (path, k), "attr_extra", None, vb[k], "attribute %r (%s) only in b" % (k, kind_of(vb[k]))):
                        return
            key = (id(a), id(b))
            if key in self.active:
                return
            self.active.add(key)
            try:
                for k in sorted(k for k in va if k in vb):
                    self.cmp(va[k], vb[k], "%s.%s" % (path, k), depth + 1)
                    if self.full():
                        return
            finally:
                self.active.discard(key)
            return

        # ---- kind-only objects ------------------------------------------------------------------
        if ka == "rng":
            if type(a) is not type(b):
                self.add(path, "type", a, b, "%s vs %s" % (_tname(a), _tname(b)))
            elif "kind_only" not in f:
                if type(a.bit_generator) is not type(b.bit_generator):
                    self.add(path, "type", a, b, "bit generator %s vs %s" % (_tname(a.bit_generator), _tname(b.bit_generator)))
                elif repr(a.bit_generator.state) != repr(b.bit_generator.state):
                    self.add(path, "state", a, b, "generator state differs")
            return
        if ka in ("logger", "summarywriter", "torch_generator"):
            if type(a) is not type(b):
                self.add(path, "type", a, b, "%s vs %s" % (_tname(a), _tname(b)))
            elif "kind_only" not in f:
                if ka == "logger" and (a.name != b.name or a.level != b.level):
                    self.add(path, "state", a, b, "logger %s/%s vs %s/%s" % (a.name, a.level, b.name, b.level))
                elif ka == "torch_generator" and not bool(torch.equal(a.get_state(), b.get_state())):
                    self.add(path, "state", a, b, "generator state differs")
            return

        # ---- anything else (dill fallback objects): same type and == ---------------------------
        if type(a) is not type(b):
            self.add(path, "type", a, b, "%s vs %s" % (_tname(a), _tname(b)))
            return
        try:
            same = bool(a == b)
        except Exception:  # noqa: BLE001
            same = False
        if not same:
            try:
                same = vars(a) == vars(b)
            except Exception:  # noqa: BLE001
                same = False
        if not same:
            self.add(path, "value", a, b, "%s vs %s" % (_short(a), _short(b)))

    # ------------------------------------------------------------------------------------------
    @staticmethod
    def _attrs(o):
        fields = getattr(type(o), "__attrs_attrs__", None)
        if fields is not None:
            return {fl.name: getattr(o, fl.name) for fl in fields if hasattr(o, fl.name)}
        return dict(vars(o))

    @staticmethod
    def _scalar_value_class(v):
        """value class under which NumPy and Python scalars are comparable by value."""
        if isinstance(v, np.generic):
            k = v.dtype.kind
            return {"b": "real", "i": "real", "u": "real", "f": "real", "c": "complex", "U": "str", "S": "bytes", "M": "datetime", "m": "timedelta"}.get(k)
        if isinstance(v, (bool, int, float)):
            return "real"
        if isinstance(v, complex):
            return "complex"
        if isinstance(v, str):
            return "str"
        if isinstance(v, bytes):
            return "bytes"
        return None

    @staticmethod
    def _scalar_value_eq(a, b):
        cls = _Cmp._scalar_value_class(a)
        if cls == "real":
            return _num_eq(a, b)
        if cls == "complex":
            ca, cb = complex(a), complex(b)
            re = ca.real == cb.real or (math.isnan(ca.real) and math.isnan(cb.real))
            im = ca.imag == cb.imag or (math.isnan(ca.imag) and math.isnan(cb.imag))
            return re and im
        if cls in ("datetime", "timedelta"):
            if not (isinstance(a, np.generic) and isinstance(b, np.generic)):
                return False
            if np.isnat(a) and np.isnat(b):
                return True
            return bool(a == b)
        if cls == "str":
            return str(a) == str(b)
        if cls == "bytes":
            return bytes(a) == bytes(b)
        return False


def diffs(a, b, mode="strict", limit=8, relax=(), root="obj"):
    flags = MODES[mode] | frozenset(relax)
    c = _Cmp(flags, limit)
    c.cmp(a, b, root)
    return c.out


def deq(a, b, mode="strict", relax=(), root="obj"):
    """first difference or None."""
    out = diffs(a, b, mode, 1, relax, root)
    return out[0] if out else None


# ------------------------------------------------------------------------------------------------
# graph statistics used for the non-trivial / distinctness rules


def walk_kinds(v, depth=0, out=None, maxdepth=12):
    """multiset of (kind, depth) over the whole graph (containers and nested objects are descended)."""
    if out is None:
        out = []
    k = array_kind(v) if isinstance(v, np.ndarray) else kind_of(v)
    out.append((k, depth))
    if depth >= maxdepth:
        return out
    if k in ("list", "tuple", "set", "frozenset"):
        for x in (sorted(v, key=repr) if k in ("set", "frozenset") else v):
            walk_kinds(x, depth + 1, out, maxdepth)
    elif k == "dict":
        for x in v.values():
            walk_kinds(x, depth + 1, out, maxdepth)
    elif k == "autoserialize":
        for x in attrs_of(v).values():
            walk_kinds(x, depth + 1, out, maxdepth)
    return out
