"""Runtime-monitoring harness for electronmicroscopy/quantem (see /verif/DESIGN.md)."""
