"""Value-kind table for the serializer cluster: names, flags and builders (numpy / torch only).

No quantem import here, so ``plan()`` may enumerate the kind matrix cheaply; builders that need
the AutoSerialize classes import ``vf.sergraph`` lazily (inside workers).
"""
from __future__ import annotations

import logging
from pathlib import Path

import numpy as np
import torch


def _sg():
    from vf import sergraph

    return sergraph


class TinyNet(torch.nn.Module):
    def __init__(self, n=3):
        super().__init__()
        self.l1 = torch.nn.Linear(n, 2)
        self.act = torch.nn.Tanh()
        self.register_buffer("scale", torch.ones(2))

    def forward(self, x):
        return self.act(self.l1(x)) * self.scale


# names that are legal attribute names / dict keys for the property
NAME_POOL = ["a", "b", "c", "data", "w", "x1", "_p", "with space", "dot.ted", "ünï", "k9", "12", "Cap", "__dd", "a-b", "q'uote"]
NASTY_NAMES = ["with space", "dot.ted", "ünï中", "12", "_private", "__dunder", "UPPER", "a-b", "q'uo\"te", "tab\there",
               ".tif", "..x", "trail.", "c", "0.0", "L" * 200, "x:y", "*"]

ARRAY_DTYPES = ["bool", "int8", "uint8", "int16", "uint16", "int32", "uint32", "int64", "uint64", "float16", "float32", "float64", "complex64", "complex128", "U", "S", "M8[ns]", "M8[D]", "m8[ms]", "struct"]
ARRAY_SHAPES = ["0d", "e1", "e3", "1d", "2d", "3d", "4d", "nc", "F"]
TENSOR_DTYPES = ["float32", "float64", "float16", "bfloat16", "int64", "int32", "uint8", "bool", "complex64"]
NPSCALARS = ["bool_", "int8", "uint8", "int16", "uint16", "int32", "uint32", "int64", "uint64", "uint64big", "float16", "float32", "float64", "float64nan", "complex64", "complex128", "str_", "bytes_", "M8[D]", "M8[ns]", "m8[s]"]


def _shape(rng, code):
    if code == "0d":
        return ()
    if code == "e1":
        return (0,)
    if code == "e3":
        return (2, 0, 3)
    if code == "1d":
        return (int(rng.integers(1, 9)),)
    if code == "2d":
        return (int(rng.integers(1, 5)), int(rng.integers(1, 6)))
    if code == "3d":
        return (2, int(rng.integers(1, 4)), 3)
    if code == "4d":
        return (2, 1, int(rng.integers(1, 4)), 2)
    if code in ("nc", "F"):
        return (int(rng.integers(2, 5)), int(rng.integers(2, 6)))
    raise KeyError(code)


def make_array(rng, dt, shape_code):
    shape = _shape(rng, shape_code)
    if shape_code == "nc":  # non-contiguous view
        big = make_array_shape(rng, dt, (shape[0] * 2, shape[1] * 3))
        a = big[::2, ::3]
        assert not a.flags["C_CONTIGUOUS"] or a.size <= 1
        return a
    a = make_array_shape(rng, dt, shape)
    if shape_code == "F":
        a = np.asfortranarray(a)
    return a


def make_array_shape(rng, dt, shape):
    n = int(np.prod(shape)) if len(shape) else 1
    if dt == "bool":
        flat = rng.integers(0, 2, size=n).astype(bool)
        if n:
            flat[0] = True
    elif dt in ("int8", "uint8", "int16", "uint16", "int32", "uint32", "int64", "uint64"):
        info = np.iinfo(dt)
        flat = rng.integers(info.min, info.max, size=n, dtype=dt, endpoint=True)
        if n:
            flat[0] = info.max
        if n > 1:
            flat[1] = info.min
    elif dt in ("float16", "float32", "float64"):
        flat = (rng.normal(size=n) * 10.0 ** rng.uniform(-3, 3)).astype(dt)
        special = [np.nan, np.inf, -np.inf, -0.0, np.finfo(dt).max, np.finfo(dt).tiny]
        for j in range(min(n, int(rng.integers(1, 4)))):
            flat[j] = special[int(rng.integers(len(special)))]
        if n and not np.any(flat != 0):
            flat[0] = 1.5
        if n == 1:
            flat[0] = np.dtype(dt).type(2.5) if rng.random() < 0.5 else flat[0]
    elif dt in ("complex64", "complex128"):
        flat = (rng.normal(size=n) + 1j * rng.normal(size=n)).astype(dt)
        if n:
            flat[0] = complex(1.5, -2.5)
        if n > 1:
            flat[1] = complex(np.nan, np.inf)
    elif dt == "U":
        pool = ["", "a", "héllo", "中文", "with space", "q\"uote"]
        flat = np.array([pool[int(rng.integers(len(pool)))] for _ in range(n)] or [], dtype="U6")
        if n:
            flat[0] = "héllo"
    elif dt == "S":
        pool = [b"", b"a", b"bcd", b"\xff\x00z"[:1] + b"q"]
        flat = np.array([pool[int(rng.integers(len(pool)))] for _ in range(n)] or [], dtype="S3")
        if n:
            flat[0] = b"bcd"
    elif dt in ("M8[ns]", "M8[D]"):
        flat = rng.integers(1, 2_000_000_000 if dt == "M8[ns]" else 30000, size=n).astype(dt)
        if n > 2:
            flat[2] = np.datetime64("NaT")
    elif dt == "m8[ms]":
        flat = rng.integers(-10_000, 10_000, size=n).astype(dt)
        if n and flat[0] == 0:
            flat[0] = 7
    elif dt == "struct":
        flat = np.zeros(n, dtype=[("a", "<i4"), ("b", "<f8")])
        flat["a"] = rng.integers(-50, 50, size=n)
        flat["b"] = rng.normal(size=n)
        if n:
            flat["a"][0] = 7
    else:
        raise KeyError(dt)
    return flat.reshape(shape)


def make_tensor(rng, dt, variant="2d"):
    tdt = getattr(torch, dt)
    if variant == "0d":
        shape = ()
    elif variant == "empty":
        shape = (0, 3)
    else:
        shape = (int(rng.integers(1, 4)), int(rng.integers(1, 5)))
    n = int(np.prod(shape)) if shape else 1
    base = rng.normal(size=n) * 3 + 1.25
    if dt == "bool":
        t = torch.tensor((base > 1).tolist(), dtype=torch.bool).reshape(shape)
        if n:
            t.view(-1)[0] = True
    elif dt in ("int64", "int32", "uint8"):
        t = torch.tensor(np.abs(base * 10).astype(np.int64).tolist(), dtype=tdt).reshape(shape)
        if n:
            t.view(-1)[0] = 77
    elif dt == "complex64":
        t = torch.tensor((base + 1j * base[::-1]).tolist(), dtype=tdt).reshape(shape)
    else:
        t = torch.tensor(base.tolist(), dtype=torch.float64).to(tdt).reshape(shape)
        if n > 1:
            t.view(-1)[1] = float("nan")
    return t


def make_tensor_view(rng, how, grad):
    """tensors that do not own their whole storage (torch.save pickles the full base storage)."""
    base = torch.tensor((rng.normal(size=(5, 3, 4)) * 2 + 0.5).tolist(), dtype=torch.float32)
    if how == "frame":
        t = base[2]
        return t.requires_grad_() if grad else t
    if how == "slice":
        flat = torch.tensor(rng.normal(size=12).tolist(), dtype=torch.float32)
        t = flat[3:7]
        return t.requires_grad_() if grad else t
    if how == "column64":
        m = torch.tensor(rng.normal(size=(4, 6)).tolist(), dtype=torch.float64)
        return m[:, 2].requires_grad_()
    w = torch.tensor(rng.normal(size=(4, 3)).tolist(), dtype=torch.float32, requires_grad=True)
    if how == "nonleaf":
        return (w * 2)[:2]  # non-leaf, requires grad through its history, view of the product's storage
    if how == "nonleaf_whole":
        return w * 2 + 1
    raise KeyError(how)


LAYOUTS_ARR = ["transposed", "stride2", "reversed", "readonly", "broadcast", "view_of_torch", "diagonal", "newaxis", "swapaxes3d", "rows_stride3", "readonly_F"]
LAYOUTS_TENSOR = ["expanded", "permuted", "t", "from_numpy", "stride2", "expanded_grad", "flip", "channels_last", "narrow_col", "unfold"]
SIZE_KINDS = ["obj_wide1200", "list_items1500", "dict_keys1200", "list_deep70", "obj_deep55", "dict_deep70", "tuple_items1100_arrays"]


def make_layout_array(rng, which):
    base = (rng.normal(size=(4, 6)) * 10).round(3)
    base[0, 0] = 7.25
    if which == "transposed":
        return base.T
    if which == "stride2":
        return (np.arange(20) + int(rng.integers(1, 9)))[::2]
    if which == "reversed":
        return (np.arange(7, dtype=np.int16) + int(rng.integers(1, 9)))[::-1]
    if which == "readonly":
        a = base.copy()
        a.flags.writeable = False
        return a
    if which == "readonly_F":
        a = np.asfortranarray(base.astype(np.float32))
        a.flags.writeable = False
        return a
    if which == "broadcast":
        return np.broadcast_to(np.arange(3.0) + float(rng.integers(1, 9)), (4, 3))  # stride 0, read-only
    if which == "view_of_torch":
        return torch.tensor(base.tolist(), dtype=torch.float32)[1:, ::2].numpy()  # NumPy view of torch memory
    if which == "diagonal":
        return np.diagonal(base)
    if which == "newaxis":
        return base[:, None, ::2]
    if which == "swapaxes3d":
        return (np.arange(24).reshape(2, 3, 4) + int(rng.integers(1, 9))).swapaxes(0, 2)
    if which == "rows_stride3":
        return (rng.integers(0, 255, size=(9, 5)).astype(np.uint8))[::3]
    raise KeyError(which)


def make_layout_tensor(rng, which):
    base = torch.tensor((rng.normal(size=(2, 3, 4)) * 3).tolist(), dtype=torch.float32)
    if which == "expanded":
        return (torch.arange(3.0) + float(rng.integers(1, 9))).expand(4, 3)  # stride 0
    if which == "permuted":
        return base.permute(2, 0, 1)
    if which == "t":
        return base[0].t()
    if which == "from_numpy":
        return torch.from_numpy(np.arange(5.0) + float(rng.integers(1, 9)))  # shares memory with a NumPy array
    if which == "stride2":
        return (torch.arange(10.0) + float(rng.integers(1, 9)))[::2]
    if which == "expanded_grad":
        return torch.tensor([[1.5, 2.5, float(rng.integers(1, 9))]], requires_grad=True).expand(2, 3)
    if which == "flip":
        return base[0, 0].flip(0)
    if which == "channels_last":
        return torch.tensor(rng.normal(size=(1, 2, 3, 3)).tolist(), dtype=torch.float32).to(memory_format=torch.channels_last)
    if which == "narrow_col":
        return base[1].narrow(1, 1, 2)
    if which == "unfold":
        return (torch.arange(8.0) + float(rng.integers(1, 9))).unfold(0, 3, 2)  # overlapping windows
    raise KeyError(which)


def make_size_case(rng, which):
    sg = _sg()
    k0 = int(rng.integers(1, 9))
    if which == "obj_wide1200":
        w = sg.Node()
        for i in range(1200):
            setattr(w, "a%04d" % i, [i + k0, float(i) + 0.5, "s%d" % i, None][i % 4])
        for i in range(30):
            setattr(w, "arr%02d" % i, np.full((2,), i + k0))
        return w
    if which == "list_items1500":
        return [("s%d" % i if i % 3 else i + k0) for i in range(1500)]
    if which == "tuple_items1100_arrays":
        return tuple((np.full((2,), i, dtype=np.int16) if i % 50 == 0 else ("t%d" % i if i % 2 else float(i + k0))) for i in range(1100))
    if which == "dict_keys1200":
        return {"k%d" % i: (i + k0 if i % 2 else "v%d" % i) for i in range(1200)}
    if which == "list_deep70":
        v = ["core", k0]
        for i in range(70):
            v = [v, i] if i % 2 else (v, "t")
        return v
    if which == "dict_deep70":
        d = {"leaf": k0}
        for i in range(70):
            d = {"k": d, "i": i}
        return d
    if which == "obj_deep55":
        o = sg.Leaf()
        o.n = k0
        for i in range(55):
            p = sg.Leaf() if i % 2 else sg.Other()
            p.child = o
            p.n = i + 1
            p.items = [i, "x"]
            o = p
        return o
    raise KeyError(which)


def make_shared(rng):
    sg = _sg()
    arr = make_array_shape(rng, "float32", (5,))
    leaf = make_leaf(rng)
    lst = [1, "a", int(rng.integers(9))]
    t = make_tensor(rng, "float32")
    s = sg.Node()
    s.a, s.b = arr, arr
    s.l1, s.l2 = lst, lst
    s.o1, s.o2 = leaf, leaf
    s.t1, s.t2 = t, t
    s.c = [leaf, leaf, arr, arr, lst, lst, t]
    s.d = {"x": leaf, "y": leaf, "z": {"again": leaf, "arr": arr}}
    s.tup = (lst, lst, (lst,))
    s.holder = sg.Other()
    s.holder.same_leaf = leaf
    s.holder.same_arr = arr
    return s


def make_big_array(rng, which):
    """arrays above 4 MiB with non-zero contents everywhere (a dropped or zero-filled tail must be visible)."""
    if which == "f32_1025":
        a = (np.arange(1025 * 1025, dtype=np.float32).reshape(1025, 1025) % 977) + 1.0
    elif which == "f64_600001":
        a = np.arange(600001, dtype=np.float64) * 0.5 + 1.0
    elif which == "c128_4d":
        n = 7 * 20 * 65 * 65
        a = ((np.arange(n) % 1013) + 1.0 + 1j * ((np.arange(n) % 7) + 1.0)).astype(np.complex128).reshape(7, 20, 65, 65)
    elif which == "i64_F":
        a = np.asfortranarray((np.arange(700 * 999, dtype=np.int64).reshape(700, 999) % 100003) + 1)
    elif which == "u8_odd":
        a = ((np.arange(4999 * 1001) % 251) + 1).astype(np.uint8).reshape(4999, 1001)
    else:
        raise KeyError(which)
    a[-1, ...] += int(rng.integers(1, 50))  # seeded, so that two cases are not byte-identical
    return a


def make_npscalar(rng, name):
    if name == "bool_":
        return np.bool_(True)
    if name == "uint64big":
        return np.uint64(2**63 + 5)
    if name == "float64nan":
        return np.float64("nan")
    if name in ("int8", "uint8", "int16", "uint16", "int32", "uint32", "int64", "uint64"):
        info = np.iinfo(name)
        v = int(rng.integers(max(info.min, -(2**62)), min(info.max, 2**62), endpoint=True))
        if v == 0:
            v = 5
        return np.dtype(name).type(v)
    if name in ("float16", "float32", "float64"):
        return np.dtype(name).type(0.1 + float(rng.integers(1, 50)))
    if name in ("complex64", "complex128"):
        return np.dtype(name).type(complex(1.5 + int(rng.integers(1, 9)), -2.25))
    if name == "str_":
        return np.str_("hé llo")
    if name == "bytes_":
        return np.bytes_(b"ab\xffz")
    if name == "M8[D]":
        return np.datetime64("2020-02-%02d" % int(rng.integers(1, 28)))
    if name == "M8[ns]":
        return np.datetime64("2020-01-01T00:00:00.000000001") + np.timedelta64(int(rng.integers(1, 1000)), "ns")
    if name == "m8[s]":
        return np.timedelta64(int(rng.integers(1, 1000)), "s")
    raise KeyError(name)


def make_leaf(rng, cls=None):
    o = (cls or _sg().Leaf)()
    o.n = int(rng.integers(1, 100))
    o.arr = make_array_shape(rng, "float32", (3,))
    o.s = "leaf"
    return o


def make_module(rng, which):
    torch.manual_seed(int(rng.integers(1 << 30)))
    if which == "linear":
        return torch.nn.Linear(3, 2)
    if which == "sequential":
        return torch.nn.Sequential(torch.nn.Linear(3, 4), torch.nn.ReLU(), torch.nn.Linear(4, 1))
    if which == "custom":
        return TinyNet(3)
    if which == "eval":
        m = TinyNet(3)
        m.eval()
        for p in m.l1.parameters():
            p.requires_grad_(False)
        return m
    if which == "modulelist":
        return torch.nn.ModuleList([torch.nn.Linear(2, 2), torch.nn.Tanh()])
    raise KeyError(which)


def make_optimizer(rng, which):
    m = make_module(rng, "linear")
    if which == "sgd":
        opt = torch.optim.SGD(m.parameters(), lr=0.1, momentum=0.9)
    else:
        opt = torch.optim.Adam(m.parameters(), lr=1e-3 * float(rng.integers(1, 9)))
    x = torch.tensor(rng.normal(size=(4, 3)).tolist(), dtype=torch.float32)
    for _ in range(2):
        opt.zero_grad()
        m(x).pow(2).sum().backward()
        opt.step()
    return m, opt


def make_scheduler(rng, which):
    m, opt = make_optimizer(rng, "sgd")
    if which == "steplr":
        s = torch.optim.lr_scheduler.StepLR(opt, step_size=2, gamma=0.5)
    else:
        s = torch.optim.lr_scheduler.ExponentialLR(opt, gamma=0.9)
    opt.step()
    s.step()
    s.step()
    return s


# ------------------------------------------------------------------------------------------------
# kind table: name -> (builder, flags)   flags: h = hashable (may sit in a set), n = real numeric scalar
# usable in an all-numeric sequence, N = numeric but outside the all-numeric-sequence domain,
# A = generated as an attribute only (optimizers / schedulers: not among the property's value kinds),
# B = big (> 4 MiB) array: a handful of placements only, to keep the run time bounded


def _kinds():
    K = {}

    def add(name, fn, flags=""):
        K[name] = (fn, flags)

    add("none", lambda r: None, "h")
    add("bool:true", lambda r: True, "hn")
    add("bool:false", lambda r: False, "hn")
    add("int:small", lambda r: int(r.integers(1, 1000)), "hn")
    add("int:neg", lambda r: -int(r.integers(1, 1000)), "hn")
    add("int:zero", lambda r: 0, "hn")
    add("int:int64max", lambda r: 2**63 - 1, "hn")
    add("int:int64min", lambda r: -(2**63), "hn")
    add("int:big", lambda r: 2**70 + int(r.integers(1, 1000)), "hN")
    add("float:plain", lambda r: 0.5 + float(r.integers(1, 1000)), "hn")
    add("float:nan", lambda r: float("nan"), "hn")
    add("float:inf", lambda r: float("inf"), "hn")
    add("float:-inf", lambda r: float("-inf"), "hn")
    add("float:-0.0", lambda r: -0.0, "hn")
    add("float:denormal", lambda r: 5e-324, "hn")
    add("float:max", lambda r: 1.7976931348623157e308, "hn")
    add("str:empty", lambda r: "", "h")
    add("str:ascii", lambda r: "hello %d" % int(r.integers(100)), "h")
    add("str:unicode", lambda r: "héllo 中文 \U0001f600", "h")
    add("str:quotes", lambda r: "a\"b'c\\d\ne\tf{}[],:", "h")
    add("str:long", lambda r: "x" * 5000 + "y", "h")
    add("str:numeric", lambda r: "12", "h")
    add("str:pathlike", lambda r: "/not/a/path", "h")
    add("path:rel", lambda r: Path("a/b c/d.txt"), "h")
    add("path:abs", lambda r: Path("/abs/ü/x"), "h")
    add("path:dot", lambda r: Path("."), "h")
    for n in NPSCALARS:
        fl = "h"
        if n in ("bool_", "int8", "uint8", "int16", "uint16", "int32", "uint32", "int64", "uint64", "float16", "float32", "float64", "float64nan"):
            fl = "hn"
        if n == "uint64big":
            fl = "hN"
        add("np:" + n, (lambda nn: (lambda r: make_npscalar(r, nn)))(n), fl)
    for dt in ARRAY_DTYPES:
        for sh in ("0d", "e1", "2d"):
            add("arr:%s:%s" % (dt, sh), (lambda d, s: (lambda r: make_array(r, d, s)))(dt, sh))
    for sh in ("e3", "1d", "3d", "4d", "nc", "F"):
        for dt in ("float64", "int16", "complex64"):
            add("arr:%s:%s" % (dt, sh), (lambda d, s: (lambda r: make_array(r, d, s)))(dt, sh))
    # memory layout / ownership of arrays and tensors: the stored value is the logical content, whatever the strides
    for w in LAYOUTS_ARR:
        add("arr:layout:" + w, (lambda ww: (lambda r: make_layout_array(r, ww)))(w))
    for w in LAYOUTS_TENSOR:
        add("tensor:layout:" + w, (lambda ww: (lambda r: make_layout_tensor(r, ww)))(w))
    # size thresholds: > 1000 attributes / items / keys, > 50 levels of nesting (a few placements only)
    for w in SIZE_KINDS:
        add("size:" + w, (lambda ww: (lambda r: make_size_case(r, ww)))(w), "B")
    # one sub-object reachable by several paths (aliasing itself is not compared, the values are)
    add("obj:shared_refs", lambda r: make_shared(r))
    for w in ("f32_1025", "f64_600001", "c128_4d", "i64_F", "u8_odd"):
        add("arr:big:" + w, (lambda ww: (lambda r: make_big_array(r, ww)))(w), "B")
    for dt in TENSOR_DTYPES:
        add("tensor:%s:2d" % dt, (lambda d: (lambda r: make_tensor(r, d, "2d")))(dt))
    for dt in ("float32", "int64", "bool"):
        add("tensor:%s:0d" % dt, (lambda d: (lambda r: make_tensor(r, d, "0d")))(dt))
        add("tensor:%s:empty" % dt, (lambda d: (lambda r: make_tensor(r, d, "empty")))(dt))
    add("tensor:float32:grad", lambda r: make_tensor(r, "float32", "2d").requires_grad_(True))
    add("tensor:float64:grad0d", lambda r: make_tensor(r, "float64", "0d").requires_grad_(True))
    add("tensor:float32:nc", lambda r: torch.tensor(r.normal(size=(4, 6)).tolist(), dtype=torch.float32)[::2, ::3])
    add("tensor:parameter", lambda r: torch.nn.Parameter(make_tensor(r, "float32", "2d")))
    add("tensor:parameter_nograd", lambda r: torch.nn.Parameter(make_tensor(r, "float32", "2d"), requires_grad=False))
    # views of a larger storage (one frame of a stack, a slice, a slice of a non-leaf result), with and without grad
    add("tensor:view_frame_grad", lambda r: make_tensor_view(r, "frame", True))
    add("tensor:view_slice_grad", lambda r: make_tensor_view(r, "slice", True))
    add("tensor:view_nonleaf_grad", lambda r: make_tensor_view(r, "nonleaf", True))
    add("tensor:view_frame", lambda r: make_tensor_view(r, "frame", False))
    add("tensor:view_slice", lambda r: make_tensor_view(r, "slice", False))
    add("tensor:nonleaf_whole_grad", lambda r: make_tensor_view(r, "nonleaf_whole", True))
    add("tensor:view_f64_col_grad", lambda r: make_tensor_view(r, "column64", True))
    for w in ("linear", "sequential", "custom", "eval", "modulelist"):
        add("module:" + w, (lambda ww: (lambda r: make_module(r, ww)))(w))
    for w in ("sgd", "adam"):
        add("optimizer:" + w, (lambda ww: (lambda r: make_optimizer(r, ww)[1]))(w), "A")
    for w in ("steplr", "explr"):
        add("scheduler:" + w, (lambda ww: (lambda r: make_scheduler(r, ww)))(w), "A")
    add("obj:leaf", lambda r: make_leaf(r), "h")
    add("obj:empty", lambda r: _sg().Node(), "h")
    add("obj:withinit", lambda r: _sg().WithInit(int(r.integers(9)), "b"), "h")
    add("obj:nested2", lambda r: _nested2(r), "h")
    # attrs-defined / dataclass AutoSerialize classes with nested attrs-defined objects in fields and in containers
    add("obj:attrs_outer", lambda r: _sg().make_attrs_object(r, "outer"))
    add("obj:attrs_inner", lambda r: _sg().make_attrs_object(r, "inner"))
    add("obj:attrs_postinit", lambda r: _sg().make_attrs_object(r, "postinit"))
    add("obj:dataclass", lambda r: _sg().make_attrs_object(r, "dataclass"))
    add("rng:pcg64", lambda r: np.random.default_rng(int(r.integers(1 << 30))))
    add("rng:mt19937", lambda r: np.random.Generator(np.random.MT19937(int(r.integers(1 << 30)))))
    add("rng:philox", lambda r: np.random.Generator(np.random.Philox(int(r.integers(1 << 30)))))
    add("rng:sfc64", lambda r: np.random.Generator(np.random.SFC64(int(r.integers(1 << 30)))))
    add("rng:torch", lambda r: torch.Generator())
    add("logger:python", lambda r: _logger(r))
    add("logger:summarywriter", lambda r: _summary_writer(r))
    # containers as kinds
    add("list:empty", lambda r: [])
    add("tuple:empty", lambda r: (), "h")
    add("dict:empty", lambda r: {})
    add("set:empty", lambda r: set())
    add("list:ints", lambda r: [int(x) for x in r.integers(-50, 50, size=int(r.integers(1, 7)))])
    add("list:floats", lambda r: [float(x) for x in r.normal(size=int(r.integers(1, 7)))])
    add("list:bools", lambda r: [True, False, True])
    add("list:mixed_num", lambda r: [True, int(r.integers(2, 9)), 2.5, np.int16(3), np.float32(1.5), float("nan"), float("inf")])
    add("list:int64_extremes", lambda r: [2**63 - 1, -(2**63), 0])
    add("list:bigint_float", lambda r: [2**62 + 1 + int(r.integers(100)), 0.5])
    add("tuple:bigint_float", lambda r: (0.25, -(2**60) - 1 - int(r.integers(100)), True), "h")
    add("list:uint64_neg", lambda r: [np.uint64(901684429045358555 + int(r.integers(100))), -905])
    add("set:bigint_float", lambda r: {2**62 + 1 + int(r.integers(100)), 0.5})
    add("set:two_nans", lambda r: {float("nan"), np.float64("nan"), 1.5})
    add("set:bool_float", lambda r: {True, 2.5, 5e-324})
    add("list:npscalars", lambda r: [np.int8(-3), np.uint8(200), np.int32(70000)])
    add("list:strings", lambda r: ["a", "", "hé"])
    add("list:with_none", lambda r: [None, 1, None])
    add("list:hetero", lambda r: [1, "a", None, 2.5, Path("p"), True])
    add("list:nested_num", lambda r: [[1, 2], [3, 4]])
    add("list:ragged", lambda r: [[1], [2, 3], []])
    add("list:dict_inside", lambda r: [{"k": 1, "arr": make_array(r, "int16", "1d")}, {"k": "v"}])
    add("list:arrays", lambda r: [make_array(r, "float32", "2d"), make_array(r, "int64", "0d"), make_array(r, "uint8", "e1")])
    add("list:tensors", lambda r: [make_tensor(r, "float32"), make_tensor(r, "int64", "0d")])
    add("list:objects", lambda r: [make_leaf(r), make_leaf(r, _sg().Other)])
    # widths crossing 10 and 100 (stored item by item under the keys '0', '1', ..., '10', ...: order must be numeric)
    add("list:strings12", lambda r: ["item%02d_%d" % (i, int(r.integers(9))) for i in range(12)])
    add("list:pairs23", lambda r: [["name%d" % i, i] for i in range(23)])
    add("tuple:wide_mixed", lambda r: tuple([i, "s%d" % i, None, 2.5 * i, Path("p%d" % i)][i % 5] for i in range(17)))
    add("list:wide101", lambda r: ["s%d" % i if i % 3 else i for i in range(101 + int(r.integers(4)))])
    add("list:wide_arrays", lambda r: [np.full((2,), i, dtype=np.int16) if i % 2 else "a%d" % i for i in range(13)])
    add("list:long_at_depth", lambda r: [{"k": [["deep%d" % i, i, None] for i in range(12)]}, ("x", ["w%d" % i for i in range(11)])])
    add("tuple:wide_nested", lambda r: tuple((i, "t%d" % i) for i in range(14)))
    add("dict:wide", lambda r: {"key%d" % i: (i if i % 2 else "v%d" % i) for i in range(25)})
    add("set:wide_strings", lambda r: {"m%d" % i for i in range(12)} | {None})
    add("list:wide_objects", lambda r: [make_leaf(r) if i % 4 == 0 else "o%d" % i for i in range(12)])
    # rectangular all-numeric tables: every row keeps its own container kind
    add("table:list_then_tuple", lambda r: [[1, 2], (3, int(r.integers(4, 99)))])
    add("table:tuple_then_list", lambda r: [(1, 2), [3, int(r.integers(4, 99))], (5, 6)])
    add("table:tuple_of_mixed_rows", lambda r: ([1.5, 2.5], (3.5, float(r.integers(4, 99))), [5.5, 6.5]))
    add("table:empty_rows", lambda r: [[], ()])
    add("table:empty_rows_tuple_first", lambda r: ((), [], ()))
    add("table:npscalar_rows", lambda r: [(np.int16(1), np.float32(2.5)), [3, 4.5], (np.uint8(7), np.float64(0.25))])
    add("table:one_row_tuple_in_list", lambda r: [(1, 2, 3, int(r.integers(4, 99)))])
    add("table:one_row_list_in_tuple", lambda r: ([1, 2, 3, int(r.integers(4, 99))],), )
    add("table:column", lambda r: [[1], (2,), [int(r.integers(3, 99))]])
    add("table:bools", lambda r: [(True, False), [True, True]])
    add("table:nan_inf", lambda r: [[float("nan"), 1.0], (2.0, float("inf"))])
    add("table:depth3", lambda r: [[(1, 2), [3, 4]], ([5, 6], (7, int(r.integers(8, 99))))])
    add("table:uniform_tuples", lambda r: [(1, 2), (3, 4), (5, int(r.integers(6, 99)))])
    add("table:uniform_lists", lambda r: [[1.5, 2], [3, 4.5]])
    add("table:ragged_mixed", lambda r: [(1, 2), [3], (4, 5, 6)])
    add("list:deep", lambda r: [[[["deep", 1, [2.5]]]], ({"k": [(1, 2), {"z": None}]},)])
    add("tuple:ints", lambda r: (1, 2, int(r.integers(3, 99))), "h")
    add("tuple:hetero", lambda r: (1, "a", None, (2, 3)), "h")
    add("tuple:of_lists", lambda r: ([1, 2], ["a"], []))
    add("dict:scalars", lambda r: {"i": 1, "f": 2.5, "s": "x", "n": None, "b": False})
    add("dict:oddkeys", lambda r: {"with space": 1, "dot.ted": [1, 2], "ünï": None, "12": "digits", "7": make_array(r, "int8", "1d"), "UP": (1,), "q'uo\"te": 2})
    add("dict:nested", lambda r: {"d": {"e": {"f": [1, 2, {"g": "h"}]}}, "arr": make_array(r, "float64", "2d"), "t": make_tensor(r, "float32")})
    add("dict:objects", lambda r: {"o1": make_leaf(r), "o2": make_leaf(r, _sg().Other)})
    add("dict:digitkeys", lambda r: {"0": "a", "1": "b", "2": 3})
    # hostile key spellings carrying values that are stored as zarr nodes (arrays, tensors, containers, objects), not only scalars
    add("dict:dot_keys", lambda r: {".tif": make_array(r, "int16", "1d"), ".h5": {"x": 1, ".in": make_array(r, "uint8", "1d")}, "..x": [1, "a"], ".t": make_tensor(r, "float32"),
                                    ".o": make_leaf(r), ".s": 5, "...": (1, "t")})
    add("dict:underscore_and_trailing_dot", lambda r: {"_u": make_array(r, "float32", "2d"), "__dd": [1, "a"], "t.": make_leaf(r), "t..": make_tensor(r, "int64"), "a.b.": {"k": make_array(r, "bool", "1d")}})
    add("dict:zarrish_keys", lambda r: {"c": make_array(r, "float64", "2d"), "0": [1, "a"], "0.0": make_array(r, "int8", "1d"), "c.0": make_leaf(r), "values": make_tensor(r, "float32"),
                                        "tensor": [2, "b"], "module": make_array(r, "int32", "1d"), "zarr": {"json": 1}})
    add("dict:case_keys", lambda r: {"Key": make_array(r, "int16", "1d"), "key": make_array(r, "int16", "2d"), "KEY": [1, "a"], "kEy": make_leaf(r), "keY": 3})
    add("dict:long_keys", lambda r: {"L" * 200: make_array(r, "int8", "1d"), "M" * 250: [1, "a"], "\u00e9" * 100: make_leaf(r), "N" * 120 + ".x": make_tensor(r, "float32")})
    add("dict:odd_punctuation_keys", lambda r: {"~x": make_array(r, "int8", "1d"), "-x": [1, "a"], "x%y": make_leaf(r), "x:y": make_tensor(r, "float32"), "*": make_array(r, "bool", "1d"),
                                                "?q": {"k": 1}, "[b]": (1, "t"), "a b ": [2, "c"], " lead": make_array(r, "uint8", "1d")})
    add("set:ints", lambda r: set(int(x) for x in r.integers(-50, 50, size=4)) | {7})
    add("set:floats", lambda r: {1.5, 2.5, float("inf")})
    add("set:strings", lambda r: {"a", "b", "hé"})
    add("set:hetero", lambda r: {1, "a", (1, 2), None, 2.5})
    add("set:tuples", lambda r: {(1, 2), ("a", "b"), ()})
    add("set:paths", lambda r: {Path("a"), Path("b/c")})
    add("set:single_str", lambda r: {"only"})
    return K


def _nested2(r):
    o = _sg().Node()
    o.child = make_leaf(r)
    o.child.sub = make_leaf(r, _sg().Other)
    o.v = 1
    return o


def _logger(r):
    lg = logging.getLogger("vf.sergraph.%d" % int(r.integers(5)))
    lg.setLevel(logging.WARNING)
    return lg


def _summary_writer(r):
    from torch.utils.tensorboard import SummaryWriter

    return SummaryWriter(log_dir="runs/vf_sw_%d" % int(r.integers(3)))


KINDS = _kinds()

PLACEMENTS = ["attr", "list1", "listmix", "tuple1", "tuplemix", "dict", "set1", "setmix", "nested_attr", "list_in_dict", "obj_in_list"]


def placement_ok(kind, placement):
    flags = KINDS[kind][1]
    if "A" in flags and placement not in ("attr", "nested_attr"):
        return False
    if "B" in flags:
        return placement == "attr" or (kind == "arr:big:f32_1025" and placement in ("list1", "dict")) or (kind == "arr:big:f64_600001" and placement == "listmix")
    if placement in ("set1", "setmix") and "h" not in flags:
        return False
    if "N" in flags and placement in ("list1", "tuple1", "set1", "list_in_dict"):
        return False  # would form an all-numeric sequence outside the stated integer domain
    return True


def build_kind(kind, rng):
    return KINDS[kind][0](rng)


