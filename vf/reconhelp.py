"""Helpers shared by the monitors that run real Ptychography.reconstruct() calls (C05, C09).

Nothing here touches library behaviour: `warm_and_freeze` only moves the objects that exist after the
imports and one throw-away reconstruction into the garbage collector's permanent generation, so that
the two `gc.collect()` calls at the end of every `reconstruct()` cost ~5 ms instead of ~100 ms each.
"""
from __future__ import annotations

import contextlib
import gc
import io


@contextlib.contextmanager
def quiet():
    with contextlib.redirect_stdout(io.StringIO()):
        yield


def warm_and_freeze():
    import numpy as np

    from vf import scenes

    rng = np.random.default_rng(12345)
    sc = scenes.make_scene(rng, gpts=(2, 3), roi=(8, 8), num_slices=2, num_modes=2, pad_req=(0, 0))
    pt = scenes.build_library(sc, scenes.simulate_scene(sc), seed=1, obj_init="uniform", install_truth=False, val_ratio=0.34)
    with quiet():
        pt.reconstruct(num_iters=1, reset=True, optimizer_params={"object": {"type": "adam", "lr": 1e-3}, "probe": {"type": "sgd", "lr": 1e-3}}, batch_size=2)
    del pt, sc
    gc.collect()
    gc.freeze()
