"""Reach monitor: which functions of the anchored files did the workload execute?

Uses a sys.monitoring tool with PY_START events and returns DISABLE after the first hit of every
code object, so the steady-state overhead is nil.  Informational (evidence) only.
"""
from __future__ import annotations

import os
import sys


class Reach:
    TOOL = 4  # a free tool id (0 debugger, 1 coverage, 2 profiler, 5 optimizer are conventional)

    def __init__(self, repo_src, anchor_files):
        self.prefix = os.path.realpath(repo_src) + os.sep
        self.anchor = set(os.path.normpath(a[4:] if a.startswith("src/") else a) for a in anchor_files)
        self.seen = set()
        self.active = False

    def _cb(self, code, offset):
        fn = code.co_filename
        if fn.startswith(self.prefix):
            rel = fn[len(self.prefix):]
            if rel in self.anchor:
                self.seen.add("%s:%s" % (rel, code.co_qualname))
        return sys.monitoring.DISABLE

    def start(self):
        if not hasattr(sys, "monitoring") or not self.anchor:
            return
        try:
            sys.monitoring.use_tool_id(self.TOOL, "vf-reach")
            sys.monitoring.register_callback(self.TOOL, sys.monitoring.events.PY_START, self._cb)
            sys.monitoring.set_events(self.TOOL, sys.monitoring.events.PY_START)
            self.active = True
        except Exception:
            self.active = False

    def stop(self):
        if self.active:
            sys.monitoring.set_events(self.TOOL, 0)
            sys.monitoring.register_callback(self.TOOL, sys.monitoring.events.PY_START, None)
            sys.monitoring.free_tool_id(self.TOOL)
            self.active = False

    def result(self):
        return sorted(self.seen)
