"""Shared plumbing: seeds, per-case context, verdicts, evidence, known findings, replay files.

Everything here is stdlib + numpy. Nothing imports quantem at module import time.
"""
from __future__ import annotations

import collections
import hashlib
import json
import math
import os
import sys
import time
import traceback

ROOT = os.path.dirname(os.path.dirname(os.path.abspath(__file__)))  # the /verif checkout
REPO = os.environ.get("VERIF_REPO", "/repo")
REPO_SRC = os.path.realpath(os.path.join(REPO, "src"))

EXIT_HELD, EXIT_VIOLATION, EXIT_INCONCLUSIVE = 0, 1, 2


def prop_number(pid: str) -> int:
    return int(pid[1:])


def case_rng(seed: int, pid: str, idx: int, stream: int = 0):
    import numpy as np

    return np.random.default_rng(np.random.SeedSequence([int(seed), prop_number(pid), int(idx), int(stream)]))


def jsonable(x, depth=0):
    """Best-effort conversion of arbitrary harness values to JSON (for samples/replays)."""
    try:
        import numpy as np
    except Exception:  # pragma: no cover
        np = None
    if depth > 8:
        return repr(x)[:200]
    if x is None or isinstance(x, (bool, int, str)):
        return x
    if isinstance(x, float):
        if math.isnan(x) or math.isinf(x):
            return repr(x)
        return x
    if isinstance(x, complex):
        return repr(x)
    if np is not None:
        if isinstance(x, np.generic):
            return jsonable(x.item(), depth + 1)
        if isinstance(x, np.ndarray):
            if x.size <= 24:
                return {"ndarray": jsonable(x.tolist(), depth + 1), "dtype": str(x.dtype)}
            return {"ndarray": "shape=%s dtype=%s sha1=%s" % (x.shape, x.dtype, hashlib.sha1(np.ascontiguousarray(x).tobytes()).hexdigest()[:10])}
    if isinstance(x, dict):
        return {str(k): jsonable(v, depth + 1) for k, v in list(x.items())[:1024]}
    if isinstance(x, (list, tuple, set, frozenset)):
        return [jsonable(v, depth + 1) for v in list(x)[:256]]
    return repr(x)[:300]


class HarnessError(Exception):
    """Raised by harness code for conditions that are the harness' fault (→ inconclusive)."""


def _tb_frames(exc):
    return traceback.extract_tb(exc.__traceback__)


def exception_origin(exc) -> tuple[bool, str]:
    """(came_through_repo_code, 'file:function' of the deepest repo frame)."""
    loc = ""
    through = False
    for fr in _tb_frames(exc):
        fn = os.path.realpath(fr.filename)
        if fn.startswith(REPO_SRC + os.sep):
            through = True
            loc = "%s:%s" % (os.path.relpath(fn, REPO_SRC), fr.name)
    return through, loc


class Ctx:
    """Per-worker context handed to props' setup()/run_case()."""

    def __init__(self, pid: str, tier: str, seed: int, tmp: str):
        self.pid, self.tier, self.seed, self.tmp = pid, tier, seed, tmp
        self.counters = collections.Counter()  # monitor evaluations per named check / hook
        self.residuals = {}  # name -> {"worst": float, "bound": float, "n": int}
        self.hooks_missing = []
        self.state = {}  # free for the property module
        self._case = None  # current CaseRec

    # ---- per-case API -------------------------------------------------------------------
    def rng(self, idx: int, stream: int = 0):
        return case_rng(self.seed, self.pid, idx, stream)

    def begin(self, idx, spec):
        self._case = {"idx": idx, "viol": [], "nontrivial": False, "sig": None, "obs": {}, "spec": spec}
        return self._case

    def viol(self, mechanism: str, detail: str, **fields):
        rec = {"property": self.pid, "mechanism": mechanism, "detail": str(detail)[:1500]}
        rec.update({k: jsonable(v) for k, v in fields.items()})
        c = self._case
        if c is not None:
            rec["case"] = c["idx"]
            if len(c["viol"]) < 20:
                c["viol"].append(rec)
            else:
                c["obs"]["violations_truncated"] = c["obs"].get("violations_truncated", 0) + 1
        return rec

    def check(self, cond, mechanism: str, detail="", **fields) -> bool:
        """Evaluate one monitor condition: counts the evaluation, records a violation if false."""
        self.counters["eval:" + mechanism] += 1
        ok = bool(cond)
        if not ok:
            self.viol(mechanism, detail() if callable(detail) else detail, **fields)
        return ok

    def close(self, value, bound, mechanism: str, detail="", track=None, **fields) -> bool:
        """Residual check |value| <= bound; tracks the worst residual seen per mechanism (or mechanism:track)."""
        v = float(value)
        r = self.residuals.setdefault(mechanism if track is None else "%s:%s" % (mechanism, track), {"worst": 0.0, "bound": float(bound), "n": 0})
        r["n"] += 1
        r["bound"] = max(r["bound"], float(bound))
        if v == v and abs(v) > r["worst"]:
            r["worst"] = abs(v)
        ok = (v == v) and abs(v) <= bound
        if not ok and v != v:
            r["worst"] = float("inf")
        return self.check(ok, mechanism, (detail() if callable(detail) else detail) + " residual=%.3e bound=%.1e" % (v, bound), **fields)

    def nontrivial(self, sig, flag=True):
        c = self._case
        c["nontrivial"] = bool(flag)
        c["sig"] = sig if isinstance(sig, str) else json.dumps(jsonable(sig), sort_keys=True)

    def observe(self, **kv):
        self._case["obs"].update({k: jsonable(v) for k, v in kv.items()})

    def count(self, name, n=1):
        self.counters[name] += n


# ---------------------------------------------------------------------------------------------
# known findings


def load_known_findings(pid: str):
    path = os.path.join(ROOT, "known_findings.json")
    if not os.path.exists(path):
        return []
    with open(path) as f:
        data = json.load(f)
    return [e for e in data.get("findings", []) if e.get("property") == pid]


def finding_matches(entry, rec) -> bool:
    m = entry.get("match", {})
    if not m:
        return False
    for k, v in m.items():
        rv = rec.get(k)
        if isinstance(v, list):
            if rv not in v:
                return False
        elif rv != v:
            return False
    return True


# ---------------------------------------------------------------------------------------------
# evidence / replay


def repo_identity():
    import subprocess

    def run(*a):
        try:
            return subprocess.run(a, capture_output=True, text=True, timeout=30).stdout
        except Exception:
            return ""

    head = run("git", "-C", REPO, "rev-parse", "HEAD").strip()
    diff = run("git", "-C", REPO, "diff", "HEAD", "--", "src")
    return {"repo": REPO, "head": head, "worktree_diff_sha1": hashlib.sha1(diff.encode()).hexdigest()[:12] if diff else "clean"}


def write_evidence(pid, tier, seed, level, coverage, assumptions, wall_s, violations, extra=None):
    os.makedirs(os.path.join(ROOT, "evidence"), exist_ok=True)
    ev = {
        "property_id": pid,
        "tier": tier,
        "seed": int(seed),
        "level": level,
        "coverage": coverage,
        "assumptions": assumptions,
        "wall_s": round(float(wall_s), 2),
        "violations": int(violations),
    }
    if extra:
        ev.update(extra)
    path = os.path.join(ROOT, "evidence", pid + ".json")
    tmp = path + ".tmp"
    with open(tmp, "w") as f:
        json.dump(jsonable(ev, -50), f, indent=1, sort_keys=False)
        f.write("\n")
    os.replace(tmp, path)
    return path


def write_replay(pid, tier, seed, rec, spec):
    d = os.path.join(ROOT, "replays")
    os.makedirs(d, exist_ok=True)
    name = "%s-%s-%s-%s.json" % (pid, seed, rec.get("case", "x"), rec.get("mechanism", "v").replace("/", "_").replace(":", "_")[:40])
    path = os.path.join(d, name)
    with open(path, "w") as f:
        json.dump({"property": pid, "tier": tier, "seed": seed, "case": rec.get("case"), "spec": spec, "violation": rec}, f, indent=1)
        f.write("\n")
    return path


def now():
    return time.monotonic()
