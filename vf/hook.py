"""Method/function wrappers attached from the harness (no edits to the repository).

wrap(owner, name, pre=None, post=None) replaces owner.name by a wrapper that calls
pre(args, kwargs) -> token, the original, then post(token, args, kwargs, result).  Conditions record
into the Ctx (they never raise into library code), so observing does not change the execution.
"""
from __future__ import annotations

import functools
import sys

_installed = []


def wrap(owner, name, pre=None, post=None, ctx=None, counter=None, also_patch_importers=True):
    if not hasattr(owner, name):
        if ctx is not None:
            ctx.hooks_missing.append("%s.%s" % (getattr(owner, "__name__", owner), name))
        return None
    raw = owner.__dict__.get(name, None) if hasattr(owner, "__dict__") else None
    orig = getattr(owner, name)
    is_static = isinstance(raw, staticmethod)
    is_class = isinstance(raw, classmethod)
    func = raw.__func__ if (is_static or is_class) else (raw if raw is not None else orig)
    cname = counter or "hook:%s.%s" % (getattr(owner, "__name__", "?"), name)

    @functools.wraps(func)
    def wrapper(*a, **k):
        if ctx is not None:
            ctx.counters[cname] += 1
        tok = pre(a, k) if pre is not None else None
        res = func(*a, **k)
        if post is not None:
            post(tok, a, k, res)
        return res

    wrapper.__vf_wrapped__ = func
    new = staticmethod(wrapper) if is_static else classmethod(wrapper) if is_class else wrapper
    setattr(owner, name, new)
    _installed.append((owner, name, raw if raw is not None else orig))
    # names re-imported with `from m import f` are separate bindings: patch them too
    if also_patch_importers and not isinstance(owner, type):
        for m in list(sys.modules.values()):
            if m is None or m is owner or not getattr(m, "__name__", "").startswith("quantem"):
                continue
            if m.__dict__.get(name) is orig:
                setattr(m, name, wrapper)
                _installed.append((m, name, orig))
    return wrapper


def unwrap_all():
    while _installed:
        owner, name, orig = _installed.pop()
        try:
            setattr(owner, name, orig)
        except Exception:
            pass
