"""Ground truth by construction for image registration (C13) and drift geometry (C15).

numpy only, float64.  Shares no code with quantem.

* band-limited random images whose circular translation by a real vector is *exact* (every Fourier
  coefficient lies strictly below Nyquist, so a phase ramp is the true translate and stays real);
* the exact translate T_s:  (T_s f)(x) = f(x - s)  (content moves by +s along each axis);
* wrap() to compare shifts modulo the image size;
* closed-form scan geometry of drift correction: canvas centre + R(theta) (pixel - image centre).
"""
from __future__ import annotations

import numpy as np


def freq_grids(shape):
    M, N = shape
    return np.fft.fftfreq(M)[:, None], np.fft.fftfreq(N)[None, :]  # cycles / pixel


def band_limited_image(rng, shape, bw, family="gauss", dc=0.0):
    """Real image with spectrum confined to the ellipse |k_r|,|k_c| <= bw * 0.5 (bw < 1).

    family "gauss":  i.i.d. complex-normal coefficients inside the ellipse (random, mildly
                     anisotropic correlation peak);
    family "env":    deterministic isotropic Gaussian envelope x random phases x mild amplitude jitter
                     (auto-correlation close to an isotropic Gaussian: a clean unique peak).
    The image is scaled to unit standard deviation and offset by `dc`.
    """
    M, N = shape
    kr, kc = freq_grids(shape)
    rad = np.sqrt((kr / 0.5) ** 2 + (kc / 0.5) ** 2)
    inside = rad <= bw
    if family == "gauss":
        F = (rng.normal(size=shape) + 1j * rng.normal(size=shape)) * inside
    elif family == "env":
        sig = bw / 2.0
        env = np.exp(-0.5 * (rad / sig) ** 2) * inside
        F = env * np.exp(2j * np.pi * rng.random(shape)) * (1.0 + 0.3 * (rng.random(shape) - 0.5))
    else:
        raise ValueError(family)
    F[0, 0] = 0.0
    im = np.real(np.fft.ifft2(F))  # real part = Hermitian-symmetrised spectrum, still inside the ellipse
    sd = float(im.std())
    if not sd > 0:
        raise ValueError("degenerate image")
    return im / sd + dc


def translate(im, s):
    """Exact circular translate of a band-limited image: content moves by +s (rows, cols)."""
    kr, kc = freq_grids(im.shape)
    return np.real(np.fft.ifft2(np.fft.fft2(im) * np.exp(-2j * np.pi * (kr * s[0] + kc * s[1]))))


def wrap(d, shape):
    d = np.asarray(d, dtype=np.float64)
    sh = np.asarray(shape, dtype=np.float64)
    return (d + sh / 2.0) % sh - sh / 2.0


def blob_image(rng, shape, nblobs=5, margin=0.3, sigma=(1.0, 1.8), min_sep=0.0):
    """Compactly supported (to ~1e-12) positive image: isotropic Gaussian blobs well inside the frame.

    With min_sep >= ~5 sigma the blobs do not overlap, so the central auto-correlation peak is a sum of
    isotropic Gaussians (no tilt): the coarse correlation maximum is the sample nearest to the true shift.
    """
    M, N = shape
    rr, cc = np.mgrid[:M, :N].astype(np.float64)
    im = np.zeros(shape)
    centres = []
    tries = 0
    while len(centres) < nblobs and tries < 200:
        tries += 1
        r0 = rng.uniform(margin * M, (1 - margin) * M)
        c0 = rng.uniform(margin * N, (1 - margin) * N)
        if any((r0 - a) ** 2 + (c0 - b) ** 2 < min_sep**2 for a, b in centres):
            continue
        centres.append((r0, c0))
        sg = rng.uniform(*sigma)
        im += rng.uniform(0.4, 1.0) * np.exp(-((rr - r0) ** 2 + (cc - c0) ** 2) / (2 * sg**2))
    return im


# ---- drift-correction geometry (C15) ---------------------------------------------------------------


def scan_geometry(image_shape, canvas_shape, angle_deg):
    """Closed form: canvas coordinates (rows, cols) of every image pixel.

    pixel (r, c) -> canvas centre + R(theta) (r - (R-1)/2, c - (C-1)/2),
    R(theta) = [[cos, -sin], [sin, cos]] acting on (row, col) offsets; theta = scan direction.
    At theta = 0 rows map to rows and columns to columns.
    """
    R, C = image_shape
    H, W = canvas_shape
    th = np.deg2rad(float(angle_deg))
    dr = np.arange(R, dtype=np.float64)[:, None] - (R - 1) / 2.0
    dc = np.arange(C, dtype=np.float64)[None, :] - (C - 1) / 2.0
    ct, st = np.cos(th), np.sin(th)
    xa = (H - 1) / 2.0 + ct * dr - st * dc
    ya = (W - 1) / 2.0 + st * dr + ct * dc
    return xa, ya


# ---- anisotropic / obliquely elongated band-limited content (C13) --------------------------------------


def oblique_image(rng, shape, bw, sigma_short, anisotropy, angle_deg, style="texture", dc=0.0, nblobs=4):
    """Real band-limited image made of features elongated along one oblique direction.

    Every feature is a Gaussian with standard deviations (sigma_short * anisotropy, sigma_short) pixels whose long axis
    makes `angle_deg` with the row axis; the spectrum is cut strictly inside the ellipse rad <= bw (so `translate` stays
    exact).  The auto-correlation peak is the same Gaussian widened by sqrt(2): a tilted ridge whose 1-D row / column cuts
    do not peak at the 2-D maximum.

    style "texture": random phases (streaky texture, the auto-correlation is the clean tilted Gaussian);
    style "blobs":   `nblobs` such blobs at random positions with amplitudes 0.5..1 (diagonal streaks / elongated particles).
    """
    M, N = shape
    kr, kc = freq_grids(shape)
    rad = np.sqrt((kr / 0.5) ** 2 + (kc / 0.5) ** 2)
    inside = rad <= bw
    th = np.deg2rad(float(angle_deg))
    ku = kr * np.cos(th) + kc * np.sin(th)  # along the long axis
    kv = -kr * np.sin(th) + kc * np.cos(th)
    sl, ss = float(sigma_short) * float(anisotropy), float(sigma_short)
    env = np.exp(-2.0 * np.pi**2 * ((sl * ku) ** 2 + (ss * kv) ** 2)) * inside
    if style == "texture":
        F = env * np.exp(2j * np.pi * rng.random(shape)) * (1.0 + 0.3 * (rng.random(shape) - 0.5))
    elif style == "blobs":
        F = np.zeros(shape, dtype=np.complex128)
        for _ in range(int(nblobs)):
            r0, c0 = rng.uniform(0, M), rng.uniform(0, N)
            F = F + rng.uniform(0.5, 1.0) * env * np.exp(-2j * np.pi * (kr * r0 + kc * c0))
    else:
        raise ValueError(style)
    F[0, 0] = 0.0
    im = np.real(np.fft.ifft2(F))
    sd = float(im.std())
    if not sd > 0:
        raise ValueError("degenerate image")
    return im / sd + dc
