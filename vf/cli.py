"""Parent driver: plan cases, shard them over worker subprocesses, merge, judge, write evidence.

usage: python -m vf.cli <Cxx> [--tier quick|thorough] [--replay <file>] [--workers N]
exit:  0 held (possibly with KNOWN-FINDING lines) / 1 VIOLATION / 2 INCONCLUSIVE
"""
from __future__ import annotations

import argparse
import collections
import importlib
import json
import os
import shutil
import subprocess
import sys
import tempfile
import time

from vf import core


def worker_env():
    env = dict(os.environ)
    env["PYTHONPATH"] = os.pathsep.join([core.REPO_SRC, core.ROOT] + ([env["PYTHONPATH"]] if env.get("PYTHONPATH") else []))
    env["PYTHONHASHSEED"] = "0"
    env["MPLBACKEND"] = "Agg"
    env["OMP_NUM_THREADS"] = "1"
    env["MKL_NUM_THREADS"] = "1"
    env["OPENBLAS_NUM_THREADS"] = "1"
    env["PYTHONDONTWRITEBYTECODE"] = "1"
    env["PIP_NO_INDEX"] = "1"
    env["VERIF_REPO"] = core.REPO
    env["QUANTEM_VERIF"] = "1"
    return env


def run_shards(pid, tier, seed, cases, nworkers, soft_budget_s, hard_timeout_s, scratch):
    """cases: list of (idx, spec). Returns list of worker result dicts (or {'dead':...})."""
    nworkers = max(1, min(nworkers, len(cases)))
    shards = [[] for _ in range(nworkers)]
    for j, c in enumerate(cases):
        shards[j % nworkers].append(c)
    procs = []
    env = worker_env()
    for w, sh in enumerate(shards):
        wtmp = os.path.join(scratch, "w%02d" % w)
        os.makedirs(wtmp, exist_ok=True)
        cfgdir = os.path.join(wtmp, "qcfg")
        os.makedirs(cfgdir, exist_ok=True)
        e = dict(env)
        e["TMPDIR"] = wtmp
        e["QUANTEM_CONFIG"] = cfgdir
        e["HOME"] = wtmp
        sp = os.path.join(scratch, "shard%02d.json" % w)
        op = os.path.join(scratch, "out%02d.json" % w)
        with open(sp, "w") as f:
            json.dump({"property": pid, "tier": tier, "seed": seed, "cases": sh, "tmp": wtmp, "soft_budget_s": soft_budget_s}, f)
        log = open(os.path.join(scratch, "log%02d.txt" % w), "w")
        p = subprocess.Popen([sys.executable, "-m", "vf.worker", sp, op], env=e, stdout=log, stderr=subprocess.STDOUT, cwd=wtmp)
        procs.append((p, op, log, w))
    results = []
    t_end = time.monotonic() + hard_timeout_s
    for p, op, log, w in procs:
        try:
            p.wait(timeout=max(1.0, t_end - time.monotonic()))
        except subprocess.TimeoutExpired:
            p.kill()
            p.wait()
        log.close()
        if os.path.exists(op):
            with open(op) as f:
                results.append(json.load(f))
        else:
            tail = ""
            try:
                with open(os.path.join(scratch, "log%02d.txt" % w)) as f:
                    tail = f.read()[-2000:]
            except Exception:
                pass
            results.append({"ok": False, "dead": True, "returncode": p.returncode, "log": tail, "cases": []})
    return results


def main(argv=None):
    ap = argparse.ArgumentParser()
    ap.add_argument("prop")
    ap.add_argument("--tier", default=os.environ.get("VERIF_TIER", "quick"), choices=["quick", "thorough"])
    ap.add_argument("--replay")
    ap.add_argument("--workers", type=int, default=int(os.environ.get("VERIF_WORKERS", "0")) or None)
    ap.add_argument("--max-cases", type=int, default=None, help="debug: cap the number of cases")
    ap.add_argument("--dump", default=None, help="debug: write all violation records to this JSON file")
    args = ap.parse_args(argv)
    pid = args.prop.upper()
    seed = int(os.environ.get("VERIF_SEED", "0"))
    tier = args.tier
    t0 = time.monotonic()
    sys.path.insert(0, core.ROOT)
    mod = importlib.import_module("vf.props." + pid.lower())

    if args.replay:
        with open(args.replay) as f:
            rp = json.load(f)
        cases = [(rp["case"], rp["spec"])]
        seed = int(rp.get("seed", seed))
        tier = rp.get("tier", tier)
    else:
        specs = mod.plan(tier, seed)
        cases = list(enumerate(specs))
        if args.max_cases:
            cases = cases[: args.max_cases]
    if not cases:
        print("INCONCLUSIVE property=%s reason=empty-plan" % pid)
        return core.EXIT_INCONCLUSIVE

    budget = getattr(mod, "BUDGET", {}).get(tier, {})
    soft = float(os.environ.get("VERIF_SOFT_BUDGET_S", budget.get("soft_s", 150 if tier == "quick" else 1500)))
    hard = float(os.environ.get("VERIF_HARD_TIMEOUT_S", budget.get("hard_s", max(900.0, soft * 6))))
    ncpu = os.cpu_count() or 4
    nworkers = args.workers or min(budget.get("workers", 14), max(1, ncpu - 2))
    scratch = tempfile.mkdtemp(prefix="vf-%s-" % pid.lower())
    try:
        results = run_shards(pid, tier, seed, cases, nworkers, soft, hard, scratch)
    finally:
        keep = os.environ.get("VERIF_KEEP_SCRATCH")
        if not keep:
            shutil.rmtree(scratch, ignore_errors=True)
        else:
            print("scratch kept at", scratch)

    # ---- merge ---------------------------------------------------------------------------
    counters = collections.Counter()
    residuals = {}
    reach = set()
    hooks_missing = set()
    harness_errors, dead = [], []
    all_cases = []
    skipped = 0
    extras = []
    for r in results:
        if r.get("dead") or not r.get("ok"):
            dead.append({k: r.get(k) for k in ("returncode", "log", "fatal")})
        counters.update(r.get("counters", {}))
        for k, v in r.get("residuals", {}).items():
            cur = residuals.setdefault(k, {"worst": 0.0, "bound": v["bound"], "n": 0})
            cur["worst"] = max(cur["worst"], v["worst"])
            cur["bound"] = max(cur["bound"], v["bound"])
            cur["n"] += v["n"]
        reach.update(r.get("reach", []))
        hooks_missing.update(r.get("hooks_missing", []))
        harness_errors.extend(r.get("harness_errors", []))
        all_cases.extend(r.get("cases", []))
        skipped += r.get("skipped_budget", 0)
        if r.get("extra"):
            extras.append(r["extra"])
    all_cases.sort(key=lambda c: c["idx"])
    specs_by_idx = dict(cases)

    viols = [v for c in all_cases for v in c["viol"]]
    kf = core.load_known_findings(pid)
    known_entries = [e for e in kf if e.get("status") == "known"]
    known_hits = collections.Counter()
    unlisted = []
    for v in viols:
        hit = None
        for i, e in enumerate(known_entries):
            if core.finding_matches(e, v):
                hit = i
                break
        if hit is None:
            unlisted.append(v)
        else:
            known_hits[hit] += 1

    if args.dump:
        with open(args.dump, "w") as f:
            json.dump({"violations": viols, "harness_errors": harness_errors, "dead": dead}, f, indent=1)
    sigs = set(c["sig"] for c in all_cases if c["nontrivial"] and c["sig"] is not None)
    evaluations = len(all_cases)
    monitor_evals = sum(v for k, v in counters.items() if k.startswith("eval:"))
    samples = []
    for c in all_cases:
        if c.get("spec") is not None and len(samples) < 4:
            samples.append({"case": c["idx"], "spec": c["spec"], "observed": c["obs"], "nontrivial": c["nontrivial"]})
    coverage = {
        "evaluations": evaluations,
        "distinct_nontrivial": len(sigs),
        "rule": getattr(mod, "RULE", ""),
        "samples": samples,
        "exhaustive": bool(getattr(mod, "EXHAUSTIVE", {}).get(tier, False)) and skipped == 0,
        "planned_cases": len(cases),
        "skipped_for_time_budget": skipped,
        "monitor_evaluations": monitor_evals,
        "monitor_counters": dict(sorted(counters.items())),
        "worst_residuals": {k: {"worst": v["worst"], "bound": v["bound"], "n": v["n"]} for k, v in sorted(residuals.items())},
        "reached_functions": sorted(reach),
        "hooks_missing": sorted(hooks_missing),
        "known_findings_reobserved": {known_entries[i].get("what", str(i)): n for i, n in known_hits.items()},
        "workers": len(results),
        "repo": core.repo_identity(),
    }
    if hasattr(mod, "summarize"):
        try:
            coverage.update(mod.summarize(all_cases, counters, extras) or {})
        except Exception as e:  # noqa: BLE001
            coverage["summarize_error"] = repr(e)

    wall = time.monotonic() - t0
    if not args.replay and not args.max_cases and not os.environ.get("VERIF_NO_EVIDENCE"):
        core.write_evidence(pid, tier, seed, getattr(mod, "LEVEL", "exploration"), coverage, getattr(mod, "ASSUMPTIONS", []), wall, len(unlisted))

    # ---- verdict -------------------------------------------------------------------------
    for i, e in enumerate(known_entries):
        n = known_hits.get(i, 0)
        print("KNOWN-FINDING: property=%s %s (%s)" % (pid, e.get("what", ""), "re-observed %d times" % n if n else "not re-observed this run"))
    print("%s %s seed=%d: cases=%d distinct_nontrivial=%d monitor_evaluations=%d violations=%d known=%d skipped=%d wall=%.1fs" % (pid, tier, seed, evaluations, len(sigs), monitor_evals, len(unlisted), sum(known_hits.values()), skipped, wall))
    if unlisted:
        bymech = collections.Counter((v.get("mechanism"), v.get("exc_type") or v.get("dtype") or "") for v in unlisted)
        print("violations by (mechanism, key): " + "; ".join("%s/%s=%d" % (m, k, n) for (m, k), n in bymech.most_common(40)))
        seen = set()
        for v in unlisted:
            key = (v.get("mechanism"), v.get("exc_type") or v.get("dtype") or "")
            if key in seen:
                continue
            seen.add(key)
            if len(seen) > 12:
                break
            path = core.write_replay(pid, tier, seed, v, specs_by_idx.get(v.get("case")))
            print("VIOLATION property=%s replay=%s" % (pid, path))
            print("  mechanism=%s detail=%s" % (v.get("mechanism"), v.get("detail", "")[:400]))
        return core.EXIT_VIOLATION
    reasons = []
    if dead:
        reasons.append("worker-died:%s" % json.dumps(dead)[:1500])
    if harness_errors:
        reasons.append("harness-error:%s" % json.dumps(harness_errors[:2])[:3000])
    min_eval = getattr(mod, "MIN_EVALUATIONS", {}).get(tier, 1)
    if evaluations < min_eval:
        reasons.append("too-few-cases:%d<%d" % (evaluations, min_eval))
    if monitor_evals == 0:
        reasons.append("no-monitor-evaluated")
    for name in getattr(mod, "REQUIRED_COUNTERS", []):
        if counters.get(name, 0) == 0:
            reasons.append("deciding-monitor-never-reached:%s" % name)
    if len(sigs) < 2:
        reasons.append("fewer-than-2-distinct-nontrivial-cases")
    if reasons and not args.replay:
        print("INCONCLUSIVE property=%s reason=%s" % (pid, " | ".join(reasons)))
        return core.EXIT_INCONCLUSIVE
    if args.replay:
        print("replay: no violation reproduced")
    return core.EXIT_HELD


if __name__ == "__main__":
    sys.exit(main())
