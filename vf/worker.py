"""Worker process: runs a shard of cases of one property and writes a JSON result file.

usage: python -m vf.worker <shard.json> <out.json>
"""
from __future__ import annotations

import importlib
import json
import os
import sys
import time
import traceback


def main(shard_path, out_path):
    with open(shard_path) as f:
        shard = json.load(f)
    pid, tier, seed = shard["property"], shard["tier"], shard["seed"]
    os.environ.setdefault("MPLBACKEND", "Agg")
    tmp = shard["tmp"]
    os.makedirs(tmp, exist_ok=True)
    os.chdir(tmp)  # SummaryWriter & co. write relative paths: keep them in the private dir
    import tempfile

    tempfile.tempdir = tmp

    from vf import core, reach

    out = {"ok": False, "cases": [], "counters": {}, "residuals": {}, "reach": [], "hooks_missing": [], "harness_errors": [], "skipped_budget": 0, "t_import": 0.0}
    t0 = time.monotonic()
    try:
        try:
            import torch

            torch.set_num_threads(1)
        except Exception:
            pass
        mod = importlib.import_module("vf.props." + pid.lower())
        ctx = core.Ctx(pid, tier, seed, tmp)
        anchor = getattr(mod, "ANCHOR_FILES", [])
        rm = reach.Reach(core.REPO_SRC, anchor)
        rm.start()
        if hasattr(mod, "setup"):
            mod.setup(ctx)
        import quantem  # noqa: F401  (verify that the code under test is the requested tree)

        qf = os.path.realpath(quantem.__file__)
        if not qf.startswith(core.REPO_SRC + os.sep):
            raise core.HarnessError("quantem imported from %s, expected under %s" % (qf, core.REPO_SRC))
        out["t_import"] = round(time.monotonic() - t0, 2)
        deadline = t0 + float(shard.get("soft_budget_s", 1e9))
        for idx, spec in shard["cases"]:
            if time.monotonic() > deadline and not spec.get("_must_run"):
                out["skipped_budget"] += 1
                continue
            c = ctx.begin(idx, spec)
            tc = time.monotonic()
            try:
                mod.run_case(spec, idx, ctx)
            except core.HarnessError as e:
                out["harness_errors"].append({"case": idx, "error": repr(e), "tb": traceback.format_exc()[-3000:]})
            except Exception as e:  # noqa: BLE001
                through, loc = core.exception_origin(e)
                if through:
                    ctx.viol("exception", "%s: %s" % (type(e).__name__, str(e)[:400]), exc_type=type(e).__name__, where=loc, tb=traceback.format_exc()[-2500:])
                else:
                    out["harness_errors"].append({"case": idx, "error": repr(e), "tb": traceback.format_exc()[-3000:]})
            c["t"] = round(time.monotonic() - tc, 3)
            keep_spec = bool(c["viol"]) or len(out["cases"]) < 3
            out["cases"].append({"idx": idx, "viol": c["viol"], "nontrivial": c["nontrivial"], "sig": c["sig"], "obs": c["obs"], "t": c["t"], "spec": spec if keep_spec else None})
        if hasattr(mod, "teardown"):
            mod.teardown(ctx)
        rm.stop()
        out["counters"] = dict(ctx.counters)
        out["residuals"] = ctx.residuals
        out["hooks_missing"] = ctx.hooks_missing
        out["reach"] = rm.result()
        out["extra"] = core.jsonable(ctx.state.get("evidence_extra", {}), -50)
        out["ok"] = True
    except Exception as e:  # noqa: BLE001
        out["fatal"] = {"error": repr(e), "tb": traceback.format_exc()[-4000:]}
    out["wall_s"] = round(time.monotonic() - t0, 2)
    with open(out_path + ".tmp", "w") as f:
        json.dump(out, f)
    os.replace(out_path + ".tmp", out_path)


if __name__ == "__main__":
    main(sys.argv[1], sys.argv[2])
    sys.stdout.flush()
    os._exit(0)
