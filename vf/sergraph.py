"""Object-graph generators for the serializer cluster (C01 / C14 / C08).

The classes of generated objects live at module level here because the loader re-imports them by
(module, qualname).  This module imports quantem, so it is only imported inside workers.

* ``build_kind(name, rng)``  one value of a named *kind* (the exhaustive kind matrix of C01),
* ``place(value, placement)`` wraps it (attribute / list / tuple / dict / set / nested object ...),
* ``random_graph(rng, ...)``  recursive seeded generator mixing all kinds, depth <= 4, width <= 8.

Domain restrictions (all stated as assumptions of C01):
  names / dict keys: non-empty strings without '/', not one of the serializer's reserved metadata
  names and not a pair of names that the duck-typed dispatch of ``_serialize_value`` mistakes for a
  scheduler / logger / NumPy scalar; all-numeric sequences hold integers within int64; arrays in native byte order with dtypes zarr stores.
"""
from __future__ import annotations

from pathlib import Path

import numpy as np
import torch

from quantem.core.io.serialize import AutoSerialize


from vf.serkinds import (  # noqa: F401  (re-exported for the property modules)
    ARRAY_DTYPES,
    ARRAY_SHAPES,
    KINDS,
    NAME_POOL,
    NASTY_NAMES,
    PLACEMENTS,
    TinyNet,
    build_kind,
    make_array,
    make_array_shape,
    make_leaf,
    make_tensor,
    placement_ok,
)

# ------------------------------------------------------------------------------------------------
# importable classes


class Node(AutoSerialize):
    """generic nested object; attributes are set by the generator."""


class Leaf(AutoSerialize):
    """a second class so that class identity is observable."""


class SubLeaf(Leaf):
    """subclass of Leaf: skip=[Leaf] must remove it too (isinstance semantics at save time)."""


class Other(AutoSerialize):
    """third class (used as 'object of another class' by C08 and as skip type by C14)."""


class WithInit(AutoSerialize):
    """class whose __init__ has required arguments and side effects: the loader must not call it."""

    def __init__(self, a, b):
        self.a = a
        self.b = b
        self.made_by_init = True


CLASSES = {"Node": Node, "Leaf": Leaf, "SubLeaf": SubLeaf, "Other": Other}

def place(v, placement, rng):
    """returns the root object holding v at the given placement (attribute name 'x')."""
    root = Node()
    root.tag = "root"
    root.n = 7
    if placement == "attr":
        root.x = v
    elif placement == "list1":
        root.x = [v]
    elif placement == "listmix":
        root.x = ["pad", v, None]
    elif placement == "tuple1":
        root.x = (v,)
    elif placement == "tuplemix":
        root.x = ("pad", v)
    elif placement == "dict":
        root.x = {"k": v, "other": 1}
    elif placement == "set1":
        root.x = {v}
    elif placement == "setmix":
        root.x = {v, "pad"}
    elif placement == "nested_attr":
        root.child = Leaf()
        root.child.x = v
        root.child.m = 2
    elif placement == "list_in_dict":
        root.x = {"k": [v], "t": (v, "pad")}
    elif placement == "obj_in_list":
        inner = Leaf()
        inner.x = v
        root.x = [inner, "pad"]
    else:
        raise KeyError(placement)
    return root


# ------------------------------------------------------------------------------------------------
# random graphs

_SCALAR_KINDS = [k for k in KINDS if k.split(":")[0] in ("none", "bool", "int", "float", "str", "path")]
_NP_KINDS = [k for k in KINDS if k.startswith("np:")]
_ARR_KINDS = [k for k in KINDS if k.startswith("arr:")]
_TENSOR_KINDS = [k for k in KINDS if k.startswith("tensor:")]
_HEAVY_KINDS = [k for k in KINDS if k.split(":")[0] in ("module", "optimizer", "scheduler")]
_MISC_KINDS = [k for k in KINDS if k.split(":")[0] in ("rng", "logger") and k != "logger:summarywriter"]
_NUMERIC_KINDS = [k for k in KINDS if "n" in KINDS[k][1]]
_HASHABLE_LEAVES = [k for k in KINDS if "h" in KINDS[k][1] and k.split(":")[0] in ("none", "bool", "int", "float", "str", "path", "np")]


def _is_real(v):
    if isinstance(v, np.generic):
        return v.dtype.kind in "biuf"
    return isinstance(v, (bool, int, float))


def numeric_domain_ok(values):
    """all-numeric sequence inside the property's domain: every integer within int64."""
    ints = [int(x) for x in values if _is_real(x) and isinstance(x, (int, np.integer)) and not isinstance(x, (bool, np.bool_))]
    return all(-(2**63) <= v <= 2**63 - 1 for v in ints)


def _names(rng, n, pool=NAME_POOL):
    idx = rng.permutation(len(pool))[:n]
    return [pool[int(i)] for i in idx]


def gen_numeric_seq(rng):
    n = int(rng.integers(1, 8))
    style = int(rng.integers(4))
    if style == 0:  # ints incl. extremes
        vals = [int(v) for v in rng.integers(-(2**63), 2**63 - 1, size=n, endpoint=True)]
    elif style == 1:  # floats incl. specials
        vals = [float(v) for v in rng.normal(size=n)]
        for j in range(n):
            if rng.random() < 0.25:
                vals[j] = [float("nan"), float("inf"), -0.0, float("-inf")][int(rng.integers(4))]
    elif style == 2:  # mixed bool / int (any magnitude within int64) / float / numpy scalars
        vals = []
        for _ in range(n):
            c = int(rng.integers(5))
            vals.append([True, int(rng.integers(-(2**63), 2**63 - 1, endpoint=True)) >> int(rng.integers(0, 60)), float(rng.normal()), np.int16(int(rng.integers(-99, 99))), np.float32(float(rng.integers(1, 99)) + 0.5)][c])
    else:
        vals = [bool(v) for v in rng.integers(0, 2, size=n)]
    return vals


def gen_value(rng, depth, maxdepth, stats, in_container=False):
    """one value; containers / objects recurse until maxdepth."""
    can_nest = depth < maxdepth
    cats = ["scalar", "np", "arr", "tensor", "numseq", "misc", "heavy"]
    w = [5, 2, 4, 2, 2, 0.5, 0.25]
    if can_nest:
        cats += ["list", "tuple", "dict", "set", "obj"]
        w += [2, 1.5, 2, 1.5, 2]
    w = np.array(w, float)
    c = cats[int(rng.choice(len(cats), p=w / w.sum()))]
    if c == "scalar":
        return build_kind(_SCALAR_KINDS[int(rng.integers(len(_SCALAR_KINDS)))], rng)
    if c == "np":
        return build_kind(_NP_KINDS[int(rng.integers(len(_NP_KINDS)))], rng)
    if c == "arr":
        dt = ARRAY_DTYPES[int(rng.integers(len(ARRAY_DTYPES)))]
        sh = ARRAY_SHAPES[int(rng.integers(len(ARRAY_SHAPES)))]
        return make_array(rng, dt, sh)
    if c == "tensor":
        return build_kind(_TENSOR_KINDS[int(rng.integers(len(_TENSOR_KINDS)))], rng)
    if c == "numseq":
        v = gen_numeric_seq(rng)
        return tuple(v) if rng.random() < 0.4 else v
    if c == "misc":
        # rng generators inside containers are exercised by the kind matrix only (see C01 findings)
        return build_kind("logger:python" if in_container else _MISC_KINDS[int(rng.integers(len(_MISC_KINDS)))], rng)
    if c == "heavy":
        if stats.get("heavy", 0) >= 1 or in_container:
            return None
        stats["heavy"] = stats.get("heavy", 0) + 1
        return build_kind(_HEAVY_KINDS[int(rng.integers(len(_HEAVY_KINDS)))], rng)
    width = int(rng.integers(0, 5 if depth else 8))
    if c in ("list", "tuple"):
        items = [gen_value(rng, depth + 1, maxdepth, stats, True) for _ in range(width)]
        if items and all(_is_real(x) for x in items):
            items.append("s")  # keep the all-numeric domain restrictions in gen_numeric_seq only
        return items if c == "list" else tuple(items)
    if c == "dict":
        return {k: gen_value(rng, depth + 1, maxdepth, stats, True) for k in _names(rng, width)}
    if c == "set":
        out = set()
        for _ in range(width):
            r = rng.random()
            if r < 0.75:
                out.add(build_kind(_HASHABLE_LEAVES[int(rng.integers(len(_HASHABLE_LEAVES)))], rng))
            elif r < 0.9:
                out.add(tuple(gen_numeric_seq(rng)[:3]) if rng.random() < 0.5 else ("t", int(rng.integers(9)), None))
            else:
                out.add(make_leaf(rng))
        if out and all(_is_real(x) for x in out) and not numeric_domain_ok(out):
            out.add("s")  # an all-numeric set is stored through the all-numeric sequence path: keep its stated domain
        return out
    return gen_object(rng, depth + 1, maxdepth, stats)


def gen_object(rng, depth=0, maxdepth=4, stats=None, cls=None, min_attrs=0):
    stats = {} if stats is None else stats
    if cls is None:
        cls = [Node, Leaf, Other][int(rng.integers(3))]
    o = cls()
    width = int(rng.integers(max(min_attrs, 0), 9 if depth == 0 else 5))
    for name in _names(rng, width):
        setattr(o, name, gen_value(rng, depth, maxdepth, stats))
    return o


def random_graph(rng, maxdepth=4):
    return gen_object(rng, 0, maxdepth, {}, cls=Node, min_attrs=3)
