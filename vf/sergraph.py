"""Object-graph generators for the serializer cluster (C01 / C14 / C08).

The classes of generated objects live at module level here because the loader re-imports them by
(module, qualname).  This module imports quantem, so it is only imported inside workers.

* ``build_kind(name, rng)``  one value of a named *kind* (the exhaustive kind matrix of C01),
* ``place(value, placement)`` wraps it (attribute / list / tuple / dict / set / nested object ...),
* ``random_graph(rng, ...)``  recursive seeded generator mixing all kinds, depth <= 4, width <= 8.

Domain restrictions (all stated as assumptions of C01):
  names / dict keys: non-empty strings without '/', not one of the serializer's reserved metadata
  names and not a pair of names that the duck-typed dispatch of ``_serialize_value`` mistakes for a
  scheduler / logger / NumPy scalar; all-numeric sequences hold integers within int64; arrays in native byte order with dtypes zarr stores.
"""
from __future__ import annotations

from pathlib import Path

import numpy as np
import torch

from quantem.core.io.serialize import AutoSerialize


from vf.serkinds import (  # noqa: F401  (re-exported for the property modules)
    ARRAY_DTYPES,
    ARRAY_SHAPES,
    KINDS,
    NAME_POOL,
    NASTY_NAMES,
    PLACEMENTS,
    TinyNet,
    build_kind,
    make_array,
    make_array_shape,
    make_leaf,
    make_tensor,
    placement_ok,
)

# ------------------------------------------------------------------------------------------------
# importable classes


class Node(AutoSerialize):
    """generic nested object; attributes are set by the generator."""


class Leaf(AutoSerialize):
    """a second class so that class identity is observable."""


class SubLeaf(Leaf):
    """subclass of Leaf: skip=[Leaf] must remove it too (isinstance semantics at save time)."""


class HybridModule(AutoSerialize, torch.nn.Module):
    """both an AutoSerialize object and an nn.Module, like the ptychography object / probe models (and the
    repo's own test_hybrid_module_roundtrip).  Plain attributes are set by the generator."""

    def __init__(self):
        torch.nn.Module.__init__(self)
        self.weight = torch.nn.Parameter(torch.arange(3, dtype=torch.float32))


def _fill_root_net(self, rng):
    self.encoder = torch.nn.Linear(4, 3)
    self.head = torch.nn.Sequential(torch.nn.Linear(3, 2), torch.nn.Tanh(), torch.nn.Linear(2, 1))
    self.scale = torch.nn.Parameter(torch.tensor(rng.normal(size=3).tolist(), dtype=torch.float32))
    self.frozen = torch.nn.Parameter(torch.ones(2), requires_grad=False)
    self.register_buffer("running_mean", torch.tensor(rng.normal(size=3).tolist(), dtype=torch.float32))
    self.register_buffer("scratch", torch.zeros(2) + float(rng.integers(1, 9)), persistent=False)
    self.note = "trained %d epochs" % int(rng.integers(1, 99))
    self.history = np.linspace(0.0, 1.0, 7) * float(rng.integers(1, 9))
    self.meta = {"encoder": "a dict key, not an attribute", "n": int(rng.integers(99))}
    self.stamp = np.complex64(complex(float(rng.integers(1, 9)), -1.5))
    self.plain_t = torch.tensor(rng.normal(size=(2, 2)).tolist(), dtype=torch.float64)
    self.child = make_leaf(rng)
    self.child.note = "same name one level down"
    self.child.sub = make_leaf(rng, Other)
    self.child.sub.history = [1, 2, 3]


class RootNetModuleFirst(torch.nn.Module, AutoSerialize):
    """a *root* object that is nn.Module and AutoSerialize (MRO: Module first): sub-modules, parameters and buffers are
    attributes registered by nn.Module, plain attributes live in __dict__."""

    def __init__(self, rng):
        super().__init__()
        _fill_root_net(self, rng)


class RootNetSerializeFirst(AutoSerialize, torch.nn.Module):
    """same, MRO: AutoSerialize first (the order the library's own models use)."""

    def __init__(self, rng):
        torch.nn.Module.__init__(self)
        _fill_root_net(self, rng)


ROOT_NET_MEMBERS = {"encoder": "submodule", "head": "submodule", "scale": "parameter", "frozen": "parameter", "running_mean": "buffer", "scratch": "buffer",
                    "note": "plain", "history": "plain", "meta": "plain", "stamp": "plain", "plain_t": "plain", "child": "plain"}


class Other(AutoSerialize):
    """third class (used as 'object of another class' by C08 and as skip type by C14)."""


class WithInit(AutoSerialize):
    """class whose __init__ has required arguments and side effects: the loader must not call it."""

    def __init__(self, a, b):
        self.a = a
        self.b = b
        self.made_by_init = True


# ---- sibling ways of declaring the attributes of an AutoSerialize class (the serializer reads attrs fields explicitly) ----
try:
    import attrs as _attrs
except Exception:  # pragma: no cover
    _attrs = None

if _attrs is not None:

    @_attrs.define
    class AttrsInner(AutoSerialize):
        n: int = 1
        arr: object = None
        tag: str = "inner"

    @_attrs.define
    class PlainAttrs:
        """attrs-defined but *not* AutoSerialize: travels through the dill fallback as one value."""

        x: int = 3
        y: str = "plain"

    @_attrs.define
    class AttrsOuter(AutoSerialize):
        k: int = 5
        inner: object = None
        items: list = _attrs.field(factory=list)
        table: dict = _attrs.field(factory=dict)
        pair: tuple = ()
        plain: object = None
        when: object = None

    @_attrs.define(slots=False)
    class AttrsPostInit(AutoSerialize):
        a: int = 1
        child: object = None

        def __attrs_post_init__(self):
            self.derived = self.a * 2


import dataclasses as _dc


@_dc.dataclass
class DataNode(AutoSerialize):
    a: int = 1
    arr: object = None
    child: object = None
    items: list = _dc.field(default_factory=list)


def make_attrs_object(rng, which):
    if which == "dataclass":
        return DataNode(a=int(rng.integers(99)), arr=make_array_shape(rng, "int16", (3,)), child=DataNode(a=2, child=make_leaf(rng)), items=[DataNode(a=3), "s", (1, 2)])
    if _attrs is None:
        return make_leaf(rng)
    inner = AttrsInner(n=int(rng.integers(99)), arr=make_array_shape(rng, "float32", (3,)), tag="t")
    if which == "inner":
        return inner
    if which == "postinit":
        return AttrsPostInit(a=int(rng.integers(1, 9)), child=AttrsInner(n=9))
    return AttrsOuter(
        k=int(rng.integers(99)), inner=inner,
        items=[AttrsInner(n=3, arr=make_array_shape(rng, "int8", (2,))), "s", 1, [AttrsInner(n=31)]],
        table={"a": AttrsInner(n=4), "b": [1, 2], "deep": {"x": (AttrsInner(n=41), "y")}},
        pair=(AttrsInner(n=5), 2), plain=PlainAttrs(int(rng.integers(99)), "q"), when=np.datetime64("2022-02-02"),
    )


class Unpicklable:
    """not an AutoSerialize object and not picklable: the dill fallback of save() must fail on it."""

    def __reduce__(self):
        raise RuntimeError("Unpicklable: refusing to be pickled")


CLASSES = {"Node": Node, "Leaf": Leaf, "SubLeaf": SubLeaf, "Other": Other, "HybridModule": HybridModule}

def place(v, placement, rng):
    """returns the root object holding v at the given placement (attribute name 'x')."""
    root = Node()
    root.tag = "root"
    root.n = 7
    if placement == "attr":
        root.x = v
    elif placement == "list1":
        root.x = [v]
    elif placement == "listmix":
        root.x = ["pad", v, None]
    elif placement == "tuple1":
        root.x = (v,)
    elif placement == "tuplemix":
        root.x = ("pad", v)
    elif placement == "dict":
        root.x = {"k": v, "other": 1}
    elif placement == "set1":
        root.x = {v}
    elif placement == "setmix":
        root.x = {v, "pad"}
    elif placement == "nested_attr":
        root.child = Leaf()
        root.child.x = v
        root.child.m = 2
    elif placement == "list_in_dict":
        root.x = {"k": [v], "t": (v, "pad")}
    elif placement == "obj_in_list":
        inner = Leaf()
        inner.x = v
        root.x = [inner, "pad"]
    else:
        raise KeyError(placement)
    return root


# ------------------------------------------------------------------------------------------------
# random graphs

_SCALAR_KINDS = [k for k in KINDS if k.split(":")[0] in ("none", "bool", "int", "float", "str", "path")]
_NP_KINDS = [k for k in KINDS if k.startswith("np:")]
_ARR_KINDS = [k for k in KINDS if k.startswith("arr:")]
_TENSOR_KINDS = [k for k in KINDS if k.startswith("tensor:")]
_HEAVY_KINDS = [k for k in KINDS if k.split(":")[0] in ("module", "optimizer", "scheduler")]
_MISC_KINDS = [k for k in KINDS if k.split(":")[0] in ("rng", "logger") and k != "logger:summarywriter"]
_NUMERIC_KINDS = [k for k in KINDS if "n" in KINDS[k][1]]
_HASHABLE_LEAVES = [k for k in KINDS if "h" in KINDS[k][1] and k.split(":")[0] in ("none", "bool", "int", "float", "str", "path", "np")]


def _is_real(v):
    if isinstance(v, np.generic):
        return v.dtype.kind in "biuf"
    return isinstance(v, (bool, int, float))


def numeric_domain_ok(values):
    """all-numeric sequence inside the property's domain: every integer within int64."""
    ints = [int(x) for x in values if _is_real(x) and isinstance(x, (int, np.integer)) and not isinstance(x, (bool, np.bool_))]
    return all(-(2**63) <= v <= 2**63 - 1 for v in ints)


def _names(rng, n, pool=NAME_POOL):
    idx = rng.permutation(len(pool))[:n]
    return [pool[int(i)] for i in idx]


def gen_numeric_seq(rng):
    n = int(rng.integers(1, 8))
    style = int(rng.integers(4))
    if style == 0:  # ints incl. extremes
        vals = [int(v) for v in rng.integers(-(2**63), 2**63 - 1, size=n, endpoint=True)]
    elif style == 1:  # floats incl. specials
        vals = [float(v) for v in rng.normal(size=n)]
        for j in range(n):
            if rng.random() < 0.25:
                vals[j] = [float("nan"), float("inf"), -0.0, float("-inf")][int(rng.integers(4))]
    elif style == 2:  # mixed bool / int (any magnitude within int64) / float / numpy scalars
        vals = []
        for _ in range(n):
            c = int(rng.integers(5))
            vals.append([True, int(rng.integers(-(2**63), 2**63 - 1, endpoint=True)) >> int(rng.integers(0, 60)), float(rng.normal()), np.int16(int(rng.integers(-99, 99))), np.float32(float(rng.integers(1, 99)) + 0.5)][c])
    else:
        vals = [bool(v) for v in rng.integers(0, 2, size=n)]
    return vals


def _wide_leaf(rng, i):
    c = int(rng.integers(6))
    if c == 0:
        return i
    if c == 1:
        return "s%d" % i
    if c == 2:
        return None
    if c == 3:
        return float(i) + 0.5
    if c == 4:
        return ["n%d" % i, i]
    return Path("p/%d" % i)


def gen_numeric_table(rng, depth=2):
    """rectangular (sometimes ragged) all-numeric table whose rows are lists and tuples in any mix; depth 3 = table of tables."""
    nrows = int(rng.integers(1, 6))
    if depth > 2:
        rows = [gen_numeric_table(rng, depth - 1) for _ in range(int(rng.integers(1, 4)))]
        return rows if rng.random() < 0.5 else tuple(rows)
    ncols = int(rng.integers(0, 5))
    ragged = rng.random() < 0.15
    style = int(rng.integers(3))
    rows = []
    for _ in range(nrows):
        n = int(rng.integers(0, 5)) if ragged else ncols
        if style == 0:
            vals = [int(v) for v in rng.integers(-999, 999, size=n)]
        elif style == 1:
            vals = [float(v) for v in rng.normal(size=n)]
        else:
            vals = [[True, int(rng.integers(-9, 9)), float(rng.normal()), np.int16(int(rng.integers(-99, 99))), np.float32(float(rng.integers(1, 99)) + 0.5)][int(rng.integers(5))] for _ in range(n)]
        rows.append(tuple(vals) if rng.random() < 0.5 else vals)
    return rows if rng.random() < 0.6 else tuple(rows)


def gen_value(rng, depth, maxdepth, stats, in_container=False):
    """one value; containers / objects recurse until maxdepth."""
    can_nest = depth < maxdepth
    cats = ["scalar", "np", "arr", "tensor", "numseq", "misc", "heavy", "numtable"]
    w = [5, 2, 4, 2, 2, 0.5, 0.25, 0.8]
    if can_nest:
        cats += ["list", "tuple", "dict", "set", "obj"]
        w += [2, 1.5, 2, 1.5, 2]
    w = np.array(w, float)
    c = cats[int(rng.choice(len(cats), p=w / w.sum()))]
    if c == "scalar":
        return build_kind(_SCALAR_KINDS[int(rng.integers(len(_SCALAR_KINDS)))], rng)
    if c == "np":
        return build_kind(_NP_KINDS[int(rng.integers(len(_NP_KINDS)))], rng)
    if c == "arr":
        dt = ARRAY_DTYPES[int(rng.integers(len(ARRAY_DTYPES)))]
        sh = ARRAY_SHAPES[int(rng.integers(len(ARRAY_SHAPES)))]
        return make_array(rng, dt, sh)
    if c == "tensor":
        return build_kind(_TENSOR_KINDS[int(rng.integers(len(_TENSOR_KINDS)))], rng)
    if c == "numseq":
        v = gen_numeric_seq(rng)
        return tuple(v) if rng.random() < 0.4 else v
    if c == "numtable":
        return gen_numeric_table(rng, 2 if rng.random() < 0.85 else 3)
    if c == "misc":
        return build_kind(_MISC_KINDS[int(rng.integers(len(_MISC_KINDS)))], rng)
    if c == "heavy":
        if stats.get("heavy", 0) >= 1 or in_container:
            return None
        stats["heavy"] = stats.get("heavy", 0) + 1
        return build_kind(_HEAVY_KINDS[int(rng.integers(len(_HEAVY_KINDS)))], rng)
    width = int(rng.integers(0, 5 if depth else 8))
    wide = c in ("list", "tuple", "dict", "set") and rng.random() < 0.08 and stats.get("wide", 0) < 2
    if wide:
        # widths crossing 10 (and now and then 100): cheap leaves only, so the case stays fast
        stats["wide"] = stats.get("wide", 0) + 1
        width = int(rng.integers(101, 120)) if rng.random() < 0.1 else int(rng.integers(11, 30))
    if c in ("list", "tuple"):
        if wide:
            items = [_wide_leaf(rng, i) for i in range(width)]
        else:
            items = [gen_value(rng, depth + 1, maxdepth, stats, True) for _ in range(width)]
        if items and all(_is_real(x) for x in items):
            items.append("s")  # keep the all-numeric domain restrictions in gen_numeric_seq only
        return items if c == "list" else tuple(items)
    if c == "dict":
        if wide:
            return {"%s%d" % (NAME_POOL[i % len(NAME_POOL)], i): _wide_leaf(rng, i) for i in range(width)}
        return {k: gen_value(rng, depth + 1, maxdepth, stats, True) for k in _names(rng, width)}
    if c == "set":
        out = set()
        if wide:
            out = {"w%d" % i if i % 3 else (i, "t") for i in range(width)}
            width = 0
        for _ in range(width):
            r = rng.random()
            if r < 0.75:
                out.add(build_kind(_HASHABLE_LEAVES[int(rng.integers(len(_HASHABLE_LEAVES)))], rng))
            elif r < 0.9:
                out.add(tuple(gen_numeric_seq(rng)[:3]) if rng.random() < 0.5 else ("t", int(rng.integers(9)), None))
            else:
                out.add(make_leaf(rng))
        if out and all(_is_real(x) for x in out) and not numeric_domain_ok(out):
            out.add("s")  # an all-numeric set is stored through the all-numeric sequence path: keep its stated domain
        return out
    return gen_object(rng, depth + 1, maxdepth, stats)


def gen_object(rng, depth=0, maxdepth=4, stats=None, cls=None, min_attrs=0):
    stats = {} if stats is None else stats
    if cls is None:
        cls = [Node, Leaf, Other][int(rng.integers(3))]
    o = cls()
    width = int(rng.integers(max(min_attrs, 0), 9 if depth == 0 else 5))
    for name in _names(rng, width):
        setattr(o, name, gen_value(rng, depth, maxdepth, stats))
    return o


def random_graph(rng, maxdepth=4):
    return gen_object(rng, 0, maxdepth, {}, cls=Node, min_attrs=3)


# ------------------------------------------------------------------------------------------------
# fixed graph family for the fault-injection property (C08); members avoid the kinds whose round trip
# C01 found defective, so that the same graphs save cleanly on the unrepaired tree as well

FAULT_GRAPHS = ["flat", "nested", "torch", "containers_of_objects", "many_small", "arrays"]


FAULT_GRAPHS_EXTRA = ["shared_refs", "layouts", "wide60", "deep20"]  # indices 100, 101, ...


def fault_graph(index, seed=0):
    """graph number `index`: the six named families first, seeded random graphs afterwards; 100+ = the widening families."""
    rng = np.random.default_rng([int(seed), 8, 77, int(index)])
    if index >= 100:
        from vf import serkinds

        name = FAULT_GRAPHS_EXTRA[index - 100]
        if name == "shared_refs":
            return serkinds.make_shared(rng)
        g = Node()
        if name == "layouts":
            for j, w in enumerate(("transposed", "stride2", "readonly", "broadcast", "view_of_torch", "swapaxes3d")):
                setattr(g, "arr%d" % j, serkinds.make_layout_array(rng, w))
            for j, w in enumerate(("expanded", "permuted", "stride2", "from_numpy", "expanded_grad")):
                setattr(g, "t%d" % j, serkinds.make_layout_tensor(rng, w))
            g.lst = [serkinds.make_layout_array(rng, "reversed"), serkinds.make_layout_tensor(rng, "t")]
        elif name == "wide60":
            for i in range(60):
                setattr(g, "a%03d" % i, [i, float(i) + 0.5, "s%d" % i, None, make_array_shape(rng, "int8", (2,))][i % 5])
            g.items = ["i%d" % i if i % 2 else i for i in range(25)]
        else:  # deep20
            o = Leaf()
            o.n = 0
            for i in range(20):
                q = Leaf() if i % 2 else Other()
                q.child = o
                q.n = i + 1
                q.items = [i, ("x", [i])]
                o = q
            g.chain = o
            g.tail = "end"
        return g
    if index >= len(FAULT_GRAPHS):
        return _safe_random_graph(rng)
    name = FAULT_GRAPHS[index]
    g = Node()
    if name == "flat":
        g.i = 5
        g.s = "text"
        g.arr = make_array_shape(rng, "float64", (3, 4))
        g.nums = [1, 2, 3]
        g.mix = ["a", make_array_shape(rng, "int16", (3,)), None]
        g.none = None
        g.path = Path("some/where")
    elif name == "nested":
        g.v = 1
        g.child = make_leaf(rng)
        g.child.sub = make_leaf(rng, Other)
        g.child.sub.deep = make_leaf(rng)
        g.child.sub.deep.tail = "end"
        g.after = (1, "b")
    elif name == "torch":
        g.t = make_tensor(rng, "float32").requires_grad_(True)
        g.mod = build_kind("module:linear", rng)
        g.opt = build_kind("optimizer:sgd", rng)
        g.n = 3
        g.half = make_tensor(rng, "float16", "0d")
    elif name == "containers_of_objects":
        g.objs = [make_leaf(rng), make_leaf(rng, Other)]
        g.byname = {"first": make_leaf(rng), "second": {"inner": make_leaf(rng, Other), "k": 1}}
        g.pair = (make_leaf(rng), "x")
        g.tail = 2.5
    elif name == "many_small":
        for j, nm in enumerate(["a", "b", "c", "d", "e", "f", "g", "h", "i", "j", "k", "l"]):
            setattr(g, nm, [j, float(j) + 0.5, "s%d" % j, bool(j % 2), None][j % 5])
        g.e1, g.e2, g.e3 = [], {}, ()
        g.np1 = np.int32(7)
        g.np2 = np.float32(2.5)
    elif name == "arrays":
        g.a0 = make_array_shape(rng, "int64", (2, 3))
        g.a1 = make_array_shape(rng, "uint8", (0,))
        g.a2 = make_array_shape(rng, "complex64", (2, 2))
        g.a3 = make_array_shape(rng, "U", (3,))
        g.a4 = make_array_shape(rng, "M8[ns]", (4,))
        g.lst = [make_array_shape(rng, "float32", (2,)), make_array_shape(rng, "bool", (2, 2))]
        g.d = {"x": make_array_shape(rng, "int8", (5,)), "y": [1.5, 2.5]}
    return g


_SAFE_SCALARS = ["none", "bool:true", "int:small", "int:neg", "float:plain", "float:nan", "str:ascii", "str:unicode", "path:rel", "np:int32", "np:float32", "np:bool_"]
_SAFE_DTYPES = ["bool", "int16", "int64", "uint8", "float32", "float64", "complex64", "U", "M8[ns]"]


def _safe_value(rng, depth, maxdepth):
    c = int(rng.integers(10 if depth < maxdepth else 6))
    if c <= 1:
        return build_kind(_SAFE_SCALARS[int(rng.integers(len(_SAFE_SCALARS)))], rng)
    if c == 2:
        return make_array(rng, _SAFE_DTYPES[int(rng.integers(len(_SAFE_DTYPES)))], ["e1", "1d", "2d", "3d", "nc"][int(rng.integers(5))])
    if c == 3:
        return make_tensor(rng, ["float32", "int64", "bool"][int(rng.integers(3))], ["0d", "2d", "empty"][int(rng.integers(3))])
    if c == 4:
        return [int(v) for v in rng.integers(-9, 9, size=int(rng.integers(1, 5)))]
    if c == 5:
        return ("t", int(rng.integers(9)), None)
    if c == 6:
        return [_safe_value(rng, depth + 1, maxdepth) for _ in range(int(rng.integers(0, 4)))] + ["s"]
    if c == 7:
        return {k: _safe_value(rng, depth + 1, maxdepth) for k in _names(rng, int(rng.integers(0, 4)))}
    o = [Node, Leaf, Other][int(rng.integers(3))]()
    for nm in _names(rng, int(rng.integers(1, 5))):
        setattr(o, nm, _safe_value(rng, depth + 1, maxdepth))
    return o


def _safe_random_graph(rng):
    g = Node()
    for nm in _names(rng, int(rng.integers(3, 8))):
        setattr(g, nm, _safe_value(rng, 0, 3))
    return g


def bad_member(kind):
    """a member the serializer cannot store (natural save failure)."""
    if kind == "object_array":
        return np.array([None, "a", 1.5], dtype=object)
    if kind == "generator":
        return (x for x in range(3))
    if kind == "unpicklable":
        return Unpicklable()
    raise KeyError(kind)


def graph_with_bad_member(kind, position, seed=0):
    """the 'flat' / 'nested' graph with an un-storable member first / middle / last / nested / inside a list."""
    rng = np.random.default_rng([int(seed), 8, 99])
    bad = bad_member(kind)
    g = Node()
    good = [("i", 5), ("arr", make_array_shape(rng, "float64", (3, 4))), ("s", "text"), ("nums", [1, 2, 3]), ("t", make_tensor(rng, "float32"))]
    if position == "first":
        g.bad = bad
        for k, v in good:
            setattr(g, k, v)
    elif position == "middle":
        for k, v in good[:2]:
            setattr(g, k, v)
        g.bad = bad
        for k, v in good[2:]:
            setattr(g, k, v)
    elif position == "last":
        for k, v in good:
            setattr(g, k, v)
        g.bad = bad
    elif position == "nested":
        for k, v in good[:3]:
            setattr(g, k, v)
        g.child = make_leaf(rng)
        g.child.sub = make_leaf(rng, Other)
        g.child.sub.bad = bad
        g.child.after = 1
        for k, v in good[3:]:
            setattr(g, k, v)
    elif position == "in_list":
        for k, v in good[:2]:
            setattr(g, k, v)
        g.items = ["a", make_array_shape(rng, "int8", (2,)), bad, "z"]
        for k, v in good[2:]:
            setattr(g, k, v)
    else:
        raise KeyError(position)
    return g
