"""Seeded generators for Dataset workloads shared by C03 and C06 (numpy only, no quantem import)."""
from __future__ import annotations

import numpy as np

INT_DTYPES = ["int8", "uint8", "int16", "uint16", "int32", "int64"]
FLOAT_DTYPES = ["float64", "float64", "float64", "float32"]
COMPLEX_DTYPES = ["complex128", "complex128", "complex64"]
KIND_DTYPES = {"int": INT_DTYPES, "float": FLOAT_DTYPES, "complex": COMPLEX_DTYPES}


def precision(dtype) -> str:
    """'32' when the library's arithmetic runs in single precision for this input dtype, else '64'."""
    dt = np.dtype(dtype)
    return "32" if dt in (np.dtype("float32"), np.dtype("complex64")) else "64"


def pick_dtype(rng, kind):
    lst = KIND_DTYPES[kind]
    return lst[int(rng.integers(len(lst)))]


def rand_shape(rng, ndim, max_len=13, max_total=4096, p_len1=0.12):
    """Axis lengths 1..max_len (odd and even, length-1 axes with probability p_len1), total size bounded."""
    cap = {1: 24, 2: 13, 3: 9, 4: 7, 5: 5}.get(ndim, 4)
    cap = min(cap, max_len)
    while True:
        shp = []
        for _ in range(ndim):
            if rng.random() < p_len1:
                shp.append(1)
            else:
                shp.append(int(rng.integers(2, cap + 1)))
        if int(np.prod(shp)) <= max_total and (max(shp) > 1 or ndim == 1):
            if max(shp) == 1:
                shp[0] = int(rng.integers(2, cap + 1))
            return tuple(shp)


def rand_data(rng, shape, dtype, small=False):
    """Non-constant data of the given dtype.  Integer magnitudes are bounded so that exact block sums
    fit into int64; `small` keeps |values| <= 7 (used where linear combinations must stay in range)."""
    dt = np.dtype(dtype)
    n = int(np.prod(shape))
    if dt.kind in "iu":
        info = np.iinfo(dt)
        if small:
            lo, hi = (0 if dt.kind == "u" else -7), 7
        else:
            lo = max(int(info.min), -(2**40))
            hi = min(int(info.max), 2**40)
        a = rng.integers(lo, hi + 1, size=n, dtype=np.int64).astype(dt)
    elif dt.kind == "f":
        a = (rng.normal(size=n) * 10.0 ** rng.uniform(-2, 3) + rng.normal() * 10.0 ** rng.uniform(-2, 2)).astype(dt)
    else:
        sc = 10.0 ** rng.uniform(-2, 3)
        a = ((rng.normal(size=n) + 1j * rng.normal(size=n)) * sc).astype(dt)
    if n > 1 and len(np.unique(a)) < 2:
        a[0] = a[0] + dt.type(1)
    return a.reshape(shape)


UNIT_NAMES = ["nm", "A", "mrad", "A^-1", "pixels", "index", "s", "eV"]


def rand_calibration(rng, ndim, form=None):
    """(origin, sampling, units) in one of several accepted forms; values are real and sampling > 0."""
    form = form or ["float_array", "float_list", "int_list", "mixed_tuple", "scalar"][int(rng.integers(5))]
    o = rng.uniform(-50, 50, size=ndim).round(3)
    s = (10.0 ** rng.uniform(-2, 1.5, size=ndim)).round(4)
    units = [UNIT_NAMES[int(rng.integers(len(UNIT_NAMES)))] for _ in range(ndim)]
    if form == "float_array":
        return o, s, units
    if form == "float_list":
        return [float(x) for x in o], [float(x) for x in s], tuple(units)
    if form == "int_list":
        return [int(x) for x in rng.integers(-20, 20, size=ndim)], [int(x) for x in rng.integers(1, 6, size=ndim)], units
    if form == "mixed_tuple":
        return tuple(float(x) for x in o), tuple(int(x) for x in rng.integers(1, 6, size=ndim)), units
    return float(o[0]), float(s[0]), units[0]  # scalars broadcast to every axis


def parity_pattern(shape):
    return "".join("1" if n == 1 else ("o" if n % 2 else "e") for n in shape)
