"""Seeded generators for Dataset workloads shared by C03 and C06 (numpy only, no quantem import)."""
from __future__ import annotations

import numpy as np

INT_DTYPES = ["int8", "uint8", "int16", "uint16", "int32", "int64"]
FLOAT_DTYPES = ["float64", "float64", "float64", "float32"]
COMPLEX_DTYPES = ["complex128", "complex128", "complex64"]
KIND_DTYPES = {"int": INT_DTYPES, "float": FLOAT_DTYPES, "complex": COMPLEX_DTYPES}


def precision(dtype) -> str:
    """'32' when the library's arithmetic runs in single precision for this input dtype, else '64'."""
    dt = np.dtype(dtype)
    return "32" if dt in (np.dtype("float32"), np.dtype("complex64")) else "64"


def pick_dtype(rng, kind):
    lst = KIND_DTYPES[kind]
    return lst[int(rng.integers(len(lst)))]


def rand_shape(rng, ndim, max_len=13, max_total=4096, p_len1=0.12):
    """Axis lengths 1..max_len (odd and even, length-1 axes with probability p_len1), total size bounded."""
    cap = {1: 24, 2: 13, 3: 9, 4: 7, 5: 5}.get(ndim, 4)
    cap = min(cap, max_len)
    while True:
        shp = []
        for _ in range(ndim):
            if rng.random() < p_len1:
                shp.append(1)
            else:
                shp.append(int(rng.integers(2, cap + 1)))
        if int(np.prod(shp)) <= max_total and (max(shp) > 1 or ndim == 1):
            if max(shp) == 1:
                shp[0] = int(rng.integers(2, cap + 1))
            return tuple(shp)


def rand_data(rng, shape, dtype, small=False, families=True):
    """Non-constant data of the given dtype.  Integer magnitudes are bounded so that exact block sums
    fit into int64; `small` keeps |values| <= 7 (used where linear combinations must stay in range)."""
    dt = np.dtype(dtype)
    n = int(np.prod(shape))
    if dt.kind in "iu":
        info = np.iinfo(dt)
        if small:
            lo, hi = (0 if dt.kind == "u" else -7), 7
        else:
            lo = max(int(info.min), -(2**40))
            hi = min(int(info.max), 2**40)
        a = rng.integers(lo, hi + 1, size=n, dtype=np.int64).astype(dt)
    elif dt.kind == "f":
        a = (rng.normal(size=n) * 10.0 ** rng.uniform(-2, 3) + rng.normal() * 10.0 ** rng.uniform(-2, 2)).astype(dt)
    else:
        sc = 10.0 ** rng.uniform(-2, 3)
        a = ((rng.normal(size=n) + 1j * rng.normal(size=n)) * sc).astype(dt)
    if n > 1 and len(np.unique(a)) < 2:
        a[0] = a[0] + dt.type(1)
    if dt.kind in "fc" and families:
        a, _ = scale_family(rng, a)
    return a.reshape(shape)


UNIT_NAMES = ["nm", "A", "mrad", "A^-1", "pixels", "index", "s", "eV"]


def rand_calibration(rng, ndim, form=None):
    """(origin, sampling, units) in one of several accepted forms; values are real and sampling > 0."""
    form = form or ["float_array", "float_list", "int_list", "mixed_tuple", "scalar"][int(rng.integers(5))]
    o = rng.uniform(-50, 50, size=ndim).round(3)
    s = (10.0 ** rng.uniform(-2, 1.5, size=ndim)).round(4)
    units = [UNIT_NAMES[int(rng.integers(len(UNIT_NAMES)))] for _ in range(ndim)]
    if form == "float_array":
        return o, s, units
    if form == "float_list":
        return [float(x) for x in o], [float(x) for x in s], tuple(units)
    if form == "int_list":
        return [int(x) for x in rng.integers(-20, 20, size=ndim)], [int(x) for x in rng.integers(1, 6, size=ndim)], units
    if form == "mixed_tuple":
        return tuple(float(x) for x in o), tuple(int(x) for x in rng.integers(1, 6, size=ndim)), units
    return float(o[0]), float(s[0]), units[0]  # scalars broadcast to every axis


def parity_pattern(shape):
    return "".join("1" if n == 1 else ("o" if n % 2 else "e") for n in shape)


# ------------------------------------------------------------------------------------------------
# widening helpers: memory layouts, scale families, process-global state, neutral calls

LAYOUTS = ["c", "c", "c", "fortran", "permuted", "strided", "negative_stride", "interior_view", "readonly", "readonly_fortran"]


def layout(rng, a, form=None):
    """the same values in another memory layout / ownership; returns (array, form)"""
    form = form or LAYOUTS[int(rng.integers(len(LAYOUTS)))]
    if form == "c" or a.ndim == 0:
        return np.ascontiguousarray(a).copy(), "c"
    if form == "fortran":
        return np.asfortranarray(a).copy(order="F"), form
    if form == "permuted":
        perm = [int(x) for x in rng.permutation(a.ndim)]
        inv = np.argsort(perm)
        return np.ascontiguousarray(a.transpose(perm)).transpose(inv), form
    if form == "strided":
        big = np.zeros(tuple(2 * n for n in a.shape), dtype=a.dtype)
        sl = tuple(slice(None, None, 2) for _ in a.shape)
        big[sl] = a
        return big[sl], form
    if form == "negative_stride":
        return a[::-1].copy()[::-1], form
    if form == "interior_view":
        big = np.zeros(tuple(n + 3 for n in a.shape), dtype=a.dtype)
        sl = tuple(slice(1, n + 1) for n in a.shape)
        big[sl] = a
        return big[sl], form
    out = np.asfortranarray(a).copy(order="F") if form == "readonly_fortran" else a.copy()
    out.flags.writeable = False
    return out, form


def scale_family(rng, a):
    """float / complex data in one of the scale families; returns (array of the same dtype, family name)"""
    dt = a.dtype
    if dt.kind not in "fc":
        return a, "plain"
    u = rng.random()
    if u < 0.7:
        return a, "plain"
    single = dt in (np.dtype("float32"), np.dtype("complex64"))
    m = float(np.max(np.abs(a))) or 1.0
    if u < 0.8:
        return (a / dt.type(m) * dt.type(1e8)).astype(dt), "amplitude_1e+8"
    if u < 0.9:
        return (a / dt.type(m) * dt.type(1e-8)).astype(dt), "amplitude_1e-8"
    ped = 10.0 ** rng.uniform(3, 6) if single else 10.0 ** rng.uniform(9, 12)
    out = (a.astype(np.complex128 if dt.kind == "c" else np.float64) / m + ped).astype(dt)
    if out.size > 1 and len(np.unique(out)) < 2:
        out.flat[0] = out.flat[0] * dt.type(1.001)
    return out, "pedestal"


GSTATES = ["none", "none", "none", "none", "numpy_errstate_raise", "torch_default_float64_no_grad", "numpy_printoptions", "quantem_config_float64"]


class state_ctx:
    """process-global state a user may have set, applied around one library call and restored afterwards"""

    def __init__(self, name):
        self.name = name or "none"
        self.undo = []

    def __enter__(self):
        n = self.name
        if n == "numpy_errstate_raise":
            old = np.seterr(over="raise", divide="raise", invalid="raise")
            self.undo.append(lambda: np.seterr(**old))
        elif n == "torch_default_float64_no_grad":
            import torch

            old_dt, old_g = torch.get_default_dtype(), torch.is_grad_enabled()
            torch.set_default_dtype(torch.float64)
            torch.set_grad_enabled(False)
            self.undo.append(lambda: (torch.set_default_dtype(old_dt), torch.set_grad_enabled(old_g)))
        elif n == "numpy_printoptions":
            old = np.get_printoptions()
            np.set_printoptions(precision=1, threshold=3, edgeitems=1, suppress=True)
            self.undo.append(lambda: np.set_printoptions(**old))
        elif n == "quantem_config_float64":
            from quantem.core import config

            old = {k: config.get(k) for k in ("dtype_real", "dtype_complex", "precision")}
            config.set({"dtype_real": "float64", "dtype_complex": "complex128", "precision": "float64"})
            self.undo.append(lambda: config.set(old))
        return self

    def __exit__(self, *exc):
        while self.undo:
            self.undo.pop()()
        return False


def install_state_wrappers(Dataset, ctx, names=("copy", "pad", "crop", "bin", "fourier_resample", "__getitem__")):
    """every call of the named public methods runs under ctx.state['gstate'] (outermost wrapper; restores on exceptions too)"""
    import functools

    for name in names:
        orig = Dataset.__dict__.get(name)
        if orig is None or isinstance(orig, (classmethod, staticmethod)):
            ctx.hooks_missing.append("Dataset.%s (state wrapper)" % name)
            continue

        def make(orig=orig):
            @functools.wraps(orig)
            def wrapper(*a, **k):
                st = ctx.state.get("gstate", "none")
                if st == "none":
                    return orig(*a, **k)
                ctx.counters["gstate_call:" + st] += 1
                with state_ctx(st):
                    return orig(*a, **k)

            return wrapper

        setattr(Dataset, name, make())


NEUTRAL_CALLS = ["repr", "str", "copy_discarded", "reads", "reductions", "index_discarded", "calibration_read_write_back"]


def neutral_call(rng, ds, which=None):
    """a call that must not change the dataset (neutral on the unchanged tree); returns its name"""
    which = which or NEUTRAL_CALLS[int(rng.integers(len(NEUTRAL_CALLS)))]
    if which == "repr":
        repr(ds)
    elif which == "str":
        str(ds)
    elif which == "copy_discarded":
        ds.copy()
    elif which == "reads":
        _ = (ds.shape, ds.ndim, ds.dtype, ds.device, ds.name, ds.signal_units, ds.metadata, ds.file_path, ds.origin, ds.sampling, ds.units)
    elif which == "reductions":
        if ds.array.size:
            ds.mean()
            ds.max()
            ds.min(axes=0)
    elif which == "index_discarded":
        ds[...]
    else:
        ds.origin = ds.origin
        ds.sampling = ds.sampling
        ds.units = ds.units
    return which
