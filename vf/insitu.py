"""Hostile in-situ workloads shared by C10 and C16 (built on vf.scenes; does not modify it).

`hostile_library` simulates a scene with the independent simulator, then hands the library a *hostile* initial model through
the public entry points (`ObjectPixelated.from_array`, `probe_model.probe = ...`): raw object values far outside the admissible
set and strongly correlated probe modes.  `run_hostile` runs the real `Ptychography.reconstruct()` with absurd learning rates so
the optimiser keeps driving the raw parameters away from the admissible set while the wrappers attached by the property module
watch every constraint / operator call.
"""
from __future__ import annotations

import dataclasses

import numpy as np


def hostile_values(rng, shape, complex_valued, lo=-6.0, hi=6.0):
    """NaN-free raw parameters, magnitudes 10**lo..10**hi, any phase / sign."""
    mode = int(rng.integers(4))
    if mode == 0:  # per-pixel log-uniform magnitudes
        mag = 10.0 ** rng.uniform(lo, hi, size=shape)
    elif mode == 1:  # one global scale
        mag = 10.0 ** rng.uniform(lo, hi) * np.abs(rng.normal(size=shape))
    elif mode == 2:  # around the admissible boundary
        mag = np.abs(1.0 + 0.5 * rng.normal(size=shape))
    else:  # mostly moderate with a few huge / tiny / exactly zero entries
        mag = np.abs(rng.normal(size=shape)) * 3.0
        sel = rng.random(shape)
        mag[sel < 0.05] = 10.0 ** hi
        mag[(sel > 0.05) & (sel < 0.1)] = 10.0 ** lo
        mag[(sel > 0.1) & (sel < 0.15)] = 0.0
    if complex_valued:
        return mag * np.exp(2j * np.pi * rng.random(shape))
    return mag * np.where(rng.random(shape) < 0.5, -1.0, 1.0)


def correlated_modes(rng, M, shape, corr, ratios_decades=4.0, dtype=np.complex128):
    """M linearly independent modes whose pairwise normalised overlap is `corr` (common component), random intensities.

    Built from M+1 orthonormal vectors q0..qM: v_i = sqrt(corr) e^{i a_i} q0 + sqrt(1-corr) q_{i+1}; |<v_i,v_j>| = corr exactly and
    the normalised Gram matrix has smallest eigenvalue 1-corr.
    """
    h, w = shape
    n = h * w
    assert n >= M + 1
    base = rng.normal(size=(n, M + 1)) + 1j * rng.normal(size=(n, M + 1))
    q, _ = np.linalg.qr(base)
    q = q.T
    if M == 1:
        v = q[1:2]
    else:
        v = np.stack([np.sqrt(corr) * np.exp(2j * np.pi * rng.random()) * q[0] + np.sqrt(1.0 - corr) * q[i + 1] for i in range(M)])
    inten = 10.0 ** rng.uniform(-ratios_decades, ratios_decades, size=M)
    if rng.random() < 0.3 and M > 1:
        inten[1] = inten[0]  # a tie in the intensities
    v = v.reshape(M, h, w) * np.sqrt(inten)[:, None, None]
    return v.astype(dtype)


def gram_stats(modes):
    """(max pairwise normalised overlap, smallest eigenvalue of the normalised Gram matrix) in float64; (nan, nan) if not finite."""
    m = np.asarray(modes).astype(np.complex128).reshape(modes.shape[0], -1)
    if not np.isfinite(m.view(np.float64)).all():
        return float("nan"), float("nan")
    n = np.sqrt((np.abs(m) ** 2).sum(1))
    if not np.all(n > 0) or not np.isfinite(n).all():
        return float("nan"), float("nan")
    u = m / n[:, None]
    G = u.conj() @ u.T
    if not np.isfinite(G.view(np.float64)).all():
        return float("nan"), float("nan")
    off = np.abs(G - np.diag(np.diag(G)))
    lam = float(np.linalg.eigvalsh((G + G.conj().T) / 2).min())
    return float(off.max()) if modes.shape[0] > 1 else 0.0, lam


def hostile_library(rng, *, obj_type=None, num_slices=None, num_modes=None, roi=None, gpts=None, corr=0.8, obj_scale=3.0, hostile_obj=True, hostile_probe=True, seed=0, **build_kw):
    """(truth scene, hostile scene, Ptychography, mean pattern sum of the simulated data) — data simulated from a physical truth; the library's initial model is hostile."""
    from vf import scenes

    sc = scenes.make_scene(rng, obj_type=obj_type, num_slices=num_slices, num_modes=num_modes, roi=roi, gpts=gpts)
    I = scenes.simulate_scene(sc)
    rep = {}
    if hostile_obj:
        if sc.obj_type == "potential":
            rep["obj"] = rng.normal(size=sc.obj.shape) * obj_scale
        else:
            rep["obj"] = (rng.normal(size=sc.obj.shape) + 1j * rng.normal(size=sc.obj.shape)) * obj_scale
    if hostile_probe and sc.num_probes > 1:
        tot = float((np.abs(sc.probes) ** 2).sum())
        cm = correlated_modes(rng, sc.num_probes, sc.roi, corr, ratios_decades=1.0)
        rep["probes"] = cm * np.sqrt(tot / (np.abs(cm) ** 2).sum())
    sc_h = dataclasses.replace(sc, **rep) if rep else sc
    pt = scenes.build_library(sc_h, I, seed=seed, **build_kw)
    return sc, sc_h, pt, float(I.sum((2, 3)).mean())


def run_hostile(pt, *, num_iters, lr_obj, lr_probe, batch_size, opt="adam", autograd=True, constraints=None, loss_type="l2_amplitude"):
    op = {"object": {"type": opt, "lr": float(lr_obj)}, "probe": {"type": opt, "lr": float(lr_probe)}}
    pt.reconstruct(num_iters=int(num_iters), reset=False, optimizer_params=op, batch_size=int(batch_size), autograd=autograd,
                   constraints=constraints or {}, loss_type=loss_type)
    return pt
