"""Source-free failpoints (DESIGN section 2, used by C08).

LineFailpoints
    ``sys.monitoring`` LINE events, enabled *locally* on every code object whose file lies under a
    directory (default ``<repo>/src/quantem/core/io``).  While armed with ``k`` the callback counts
    executed line events of those files and raises ``InjectedFault`` out of the k-th one, i.e. the
    exception appears between two statements of the serializer exactly as if the next operation had
    failed.  Armed with ``k=None`` it only counts (dry run -> K).  Keyed by *file*, not by function
    name, so refactoring the serializer does not detach it.  Tool id: ``sys.monitoring.DEBUGGER_ID``
    (vf/reach.py owns id 4).

CallFaults
    counting wrappers around I/O primitives the serializer relies on (``ZipFile.__init__/write/close``,
    zarr ``Group.create_array/require_group``, ``Attributes.__setitem__``, ``Array.__setitem__``,
    ``os.makedirs``, ``tempfile.mkdtemp``, and - only when called from serializer code -
    ``shutil.rmtree`` / ``os.remove``).  Armed with ``(label, j)`` the j-th call of that primitive
    raises ``OSError(EIO)`` *instead of* doing its work; unarmed they only count (dry run -> J).

Both can raise a BaseException that is not an Exception instead (InjectedAbort, KeyboardInterrupt,
SystemExit): an interrupted save must not leave a loadable partial object either.

Neither changes behaviour while disarmed.
"""
from __future__ import annotations

import errno
import gc
import os
import sys
import types


class InjectedFault(Exception):
    """raised by a failpoint inside the code under test."""


class InjectedAbort(BaseException):
    """a fault that is *not* an Exception (like KeyboardInterrupt / SystemExit): `except Exception` does not see it."""


EXC_CLASSES = {"exception": InjectedFault, "abort": InjectedAbort, "keyboard": KeyboardInterrupt, "exit": SystemExit}


def _code_objects_under(prefix):
    """every live code object (functions, methods, nested functions, comprehensions) of files under prefix."""
    prefix = os.path.realpath(prefix) + os.sep
    real = {}
    seen, out = set(), []

    def under(fn):
        r = real.get(fn)
        if r is None:
            r = real[fn] = os.path.realpath(fn).startswith(prefix) if fn and not fn.startswith("<") else False
        return r

    def add(co):
        if id(co) in seen:
            return
        seen.add(id(co))
        if under(co.co_filename):
            out.append(co)
            for c in co.co_consts:
                if isinstance(c, types.CodeType):
                    add(c)

    for obj in gc.get_objects():
        if isinstance(obj, types.FunctionType):
            add(obj.__code__)
    return out


class LineFailpoints:
    def __init__(self, directory, tool_id=None):
        self.directory = os.path.realpath(directory)
        self.tool = sys.monitoring.DEBUGGER_ID if tool_id is None else tool_id
        self.active = False
        self.k = None
        self.count = 0
        self.fired = None  # (file, qualname, line, k)
        self.exc_cls = InjectedFault
        self.codes = []
        self.installed = False

    # -- life cycle -----------------------------------------------------------------------------
    def install(self):
        mon = sys.monitoring
        self.codes = _code_objects_under(self.directory)
        if not self.codes:
            raise RuntimeError("no code objects found under %s (import the package first)" % self.directory)
        mon.use_tool_id(self.tool, "vf-failpoint")
        mon.register_callback(self.tool, mon.events.LINE, self._on_line)
        for co in self.codes:
            mon.set_local_events(self.tool, co, mon.events.LINE)
        self.installed = True
        return self

    def uninstall(self):
        if not self.installed:
            return
        mon = sys.monitoring
        for co in self.codes:
            try:
                mon.set_local_events(self.tool, co, 0)
            except Exception:  # noqa: BLE001
                pass
        mon.register_callback(self.tool, mon.events.LINE, None)
        mon.free_tool_id(self.tool)
        self.installed = False

    def functions(self):
        return sorted(set("%s:%s" % (os.path.basename(c.co_filename), c.co_qualname) for c in self.codes))

    # -- arming ---------------------------------------------------------------------------------
    def arm(self, k=None, exc="exception"):
        """k=None: count only.  k>=1: raise EXC_CLASSES[exc] (default InjectedFault) out of the k-th line event."""
        self.exc_cls = EXC_CLASSES[exc]
        self.k = k
        self.count = 0
        self.fired = None
        self.active = True

    def disarm(self):
        self.active = False
        return self.count

    def _on_line(self, code, line):
        if not self.active:
            return None
        self.count += 1
        if self.k is not None and self.count == self.k:
            self.active = False
            self.fired = (os.path.basename(code.co_filename), code.co_qualname, int(line), self.k)
            raise self.exc_cls("injected at line event %d (%s:%s line %d)" % (self.k, self.fired[0], self.fired[1], line))
        return None


# ------------------------------------------------------------------------------------------------


def _called_from(directory, depth=2):
    f = sys._getframe(depth)
    # skip our own wrapper frames
    while f is not None and f.f_code.co_filename == __file__:
        f = f.f_back
    return f is not None and os.path.realpath(f.f_code.co_filename).startswith(directory + os.sep)


class CallFaults:
    """OSError at the j-th call of a wrapped I/O primitive."""

    def __init__(self, directory):
        self.directory = os.path.realpath(directory)
        self.active = False
        self.label = None
        self.j = None
        self.counts = {}
        self.fired = None
        self.exc_cls = None
        self._restore = []
        self.missing = []

    def _targets(self):
        import shutil
        import tempfile
        import zipfile

        out = [
            (zipfile.ZipFile, "__init__", "ZipFile.__init__", False),
            (zipfile.ZipFile, "write", "ZipFile.write", False),
            (zipfile.ZipFile, "close", "ZipFile.close", False),
            (os, "makedirs", "os.makedirs", False),
            (tempfile, "mkdtemp", "tempfile.mkdtemp", False),
            (shutil, "rmtree", "shutil.rmtree", True),
            (os, "remove", "os.remove", True),
        ]
        try:
            from zarr.core.group import Group

            out += [(Group, "create_array", "Group.create_array", False), (Group, "require_group", "Group.require_group", False)]
        except Exception:  # noqa: BLE001
            self.missing.append("zarr.core.group.Group")
        try:
            from zarr.core.attributes import Attributes

            out.append((Attributes, "__setitem__", "Attributes.__setitem__", False))
        except Exception:  # noqa: BLE001
            self.missing.append("zarr.core.attributes.Attributes")
        try:
            from zarr.core.array import Array

            out.append((Array, "__setitem__", "Array.__setitem__", False))
        except Exception:  # noqa: BLE001
            self.missing.append("zarr.core.array.Array")
        return out

    def install(self):
        for owner, name, label, only_from_serializer in self._targets():
            if not hasattr(owner, name):
                self.missing.append(label)
                continue
            orig = owner.__dict__[name] if isinstance(owner, type) and name in owner.__dict__ else getattr(owner, name)
            self._restore.append((owner, name, orig))
            setattr(owner, name, self._wrap(orig, label, only_from_serializer))
        return self

    def uninstall(self):
        while self._restore:
            owner, name, orig = self._restore.pop()
            setattr(owner, name, orig)

    def _wrap(self, orig, label, only_from_serializer):
        cf = self

        def wrapper(*a, **k):
            if cf.active and (not only_from_serializer or _called_from(cf.directory)):
                n = cf.counts.get(label, 0) + 1
                cf.counts[label] = n
                if cf.label == label and n == cf.j:
                    cf.active = False
                    cf.fired = (label, n)
                    if cf.exc_cls is None:
                        raise OSError(errno.EIO, "injected I/O fault at call %d of %s" % (n, label))
                    raise cf.exc_cls("injected fault at call %d of %s" % (n, label))
            return orig(*a, **k)

        wrapper.__name__ = getattr(orig, "__name__", label)
        wrapper.__vf_orig__ = orig
        return wrapper

    def arm(self, label=None, j=None, exc=None):
        """exc=None: OSError(EIO); otherwise a key of EXC_CLASSES (e.g. 'keyboard' -> KeyboardInterrupt)."""
        self.exc_cls = None if exc in (None, "oserror") else EXC_CLASSES[exc]
        self.label, self.j = label, j
        self.counts = {}
        self.fired = None
        self.active = True

    def disarm(self):
        self.active = False
        return dict(self.counts)
