"""C13 — image registration returns the applied shift with a consistent sign convention.

Oracle: exact ground truth by construction.  `im` is a band-limited random image (or an arbitrary
image for integer shifts), `ref = T_s(im)` its exact circular translate (phase ramp / np.roll), so the
shift that "translates the second image onto the first" is s by construction.  Every public
estimator (numpy `cross_correlation_shift` incl. return_shifted_image / fft_input / fft_output /
max_shift, torch `cross_correlation_shift_torch` / `align_images_fourier_torch`) and the call sites
that expose an estimate (tomography `cross_correlation_align_stack`, direct-ptychography
`_compute_reference_shifts` / `_compute_pairwise_shifts`) are run on such pairs and judged against s
modulo the image size.
"""
from __future__ import annotations

import itertools
import math
import os

import numpy as np

from vf import imgtruth as T

PROPERTY = "C13"
LEVEL = "exploration"

# ======================================================================================================================
# SWITCH  C13_2_APPLIED — flip to True in the same commit that applies fixes/C13-2-max-shift-mask-biases-refinement.diff
# to /repo.  False: shifts next to the max_shift radius are judged with the relaxed bounds the unrepaired code achieves
# (zero-filled excluded lags bias the parabolic fit by up to 0.49 px at up=1).  True: they are judged with the usual
# bounds (integer shifts exact at working precision, sub-pixel 1/up, up=1 0.5 px).  VERIF_C13_2_APPLIED=0/1 overrides.
C13_2_APPLIED = True
if os.environ.get("VERIF_C13_2_APPLIED") in ("0", "1"):
    C13_2_APPLIED = os.environ["VERIF_C13_2_APPLIED"] == "1"
# SWITCH  C13_3_APPLIED — flip to True in the same commit that applies fixes/C13-3-single-precision-background.diff to /repo.
# Single-precision images on a background (mean >> contrast).  False (unrepaired code): the torch estimators are off by
# 0.03..0.4 px for up >= 4 already at mean = 30..300 x contrast (genuine defect, cases not judged), the numpy estimator is
# judged for up >= 2 at mean = 100..110 x contrast with an integer-shift bound of 0.01 px (its measured floor there is 6e-4 px over 4000 pairs).
# True: both backends, mean = 100..1000 x contrast, every factor, the usual float32 bounds.  VERIF_C13_3_APPLIED=0/1 overrides.
C13_3_APPLIED = True
if os.environ.get("VERIF_C13_3_APPLIED") in ("0", "1"):
    C13_3_APPLIED = os.environ["VERIF_C13_3_APPLIED"] == "1"
# SWITCH  C13_4_APPLIED — flip to True in the same commit that applies fixes/C13-4-oblique-peak-refinement.diff to /repo.
# Anisotropic / obliquely elongated content (tilted correlation peak).  False (unrepaired code): the estimators refine with two 1-D
# parabolas through the centre sample, which do not peak at the 2-D maximum of a tilted ridge; the torch half-pixel estimate is then off
# by up to 1.2 px, its +-0.75 px upsampled patch misses the peak and the result is off by up to 0.46 px at every factor >= 3 (2..30 % of
# random pairs at anisotropy >= 3, 20..70 deg), the numpy estimator exceeds 1/up marginally (<= 1.4 x) at anisotropy >= 4.  The cases are
# generated either way; False: sub-pixel shifts of this class are judged against a gross-error bound of 1.5 px at every factor (integer shifts stay exact), True: the usual 1/up.
# VERIF_C13_4_APPLIED=0/1 overrides.
C13_4_APPLIED = True
if os.environ.get("VERIF_C13_4_APPLIED") in ("0", "1"):
    C13_4_APPLIED = os.environ["VERIF_C13_4_APPLIED"] == "1"
# ======================================================================================================================
ANCHOR_FILES = [
    "quantem/core/utils/imaging_utils.py",
    "quantem/tomography/utils.py",
    "quantem/diffractive_imaging/direct_ptycho_utils.py",
]
RULE = (
    "seeded matrix backend{numpy,torch} x upsample_factor{1,2,3,4,8,16,32,64} x shift class{zero,int,int_edge(+-1: peak on the "
    "array border),int_far(beyond N/2),sub,sub_far,half} x shape class{even/odd, square/non-square, 12..48} with dtype and image "
    "family (band-limited complex-normal / band-limited Gaussian-envelope random-phase / arbitrary noise image rolled by an "
    "integer) rotated over the repetitions; every numpy case also exercises return_shifted_image, fft_input, fft_output and "
    "max_shift (radius >= |s|+2.5 px, and a radius within 0..1 px of the admitted shift), and upsample_factor / max_shift passed as every accepted scalar type "
    "(Python int/float, np.int32/int64/float64 scalars, elements of integer arrays, 0-d arrays, 0-d tensors) which must reproduce the Python-int result; buffer-reuse histories for both backends (the same "
    "array/tensor objects refilled between 7..10 calls through copy_, .data writes, NumPy memory aliased by torch.from_numpy, or views of a larger buffer: reference only, moving only, both, reference := moving, swapped roles, "
    "interleaved calls on other tensors of the same / another shape; every call judged against its own truth); float32 images on a background of 100..1000 x the contrast; anisotropic / obliquely elongated band-limited content (streaky random-phase texture or 2..5 elongated blobs, "
    "feature sigma 1..2.2 px x anisotropy 1.5..5, long axis at +-20..70 deg to the rows, shapes 44..80) x both backends x every factor x shift class{int,int_far,sub,sub_far,half}, all estimator oracles; plus call-site cases (tomography stack alignment, direct-ptychography reference/pairwise shifts, "
    "align_vbf_stack_multiscale in reference / pairwise mode x 1..3 bin levels x running average x initial_shifts none / zero / non-zero with a pre-shifted stack). "
    "non-trivial = applied shift != 0; distinct = (kind, backend, factor, shift class, shape class, dtype, family)"
)
ASSUMPTIONS = [
    "anisotropic / obliquely elongated content has a unique correlation peak (the auto-correlation of the features, a tilted Gaussian ridge) and is inside the domain; "
    "upsampled estimates (numpy up >= 2, torch up >= 3) are judged with the usual 1/up and integer shifts with the usual working-precision bound; the property leaves "
    "'the parabolic-refinement accuracy when not upsampling' unspecified and two 1-D parabolas cannot locate a tilted peak, so sub-pixel shifts on the paths that do not "
    "upsample (numpy up = 1, torch up <= 2) are judged against a gross-error bound of 1.5 px there (measured <= 1.03 px numpy / 1.21 px torch on the unrepaired code, "
    "0.58 / 0.81 px with fixes/C13-4); the near-radius max_shift calls of these cases admit 2 px more (the integer maximum of a tilted ridge lies up to 1.3 px from the true shift)",
    "single-precision images on a background (mean >> contrast) are part of the domain ('image contents with a unique correlation peak'); until fixes/C13-3 is applied "
    "(switch C13_3_APPLIED) the torch estimators are known to fail there (not judged) and the numpy estimator is judged for up >= 2 at mean = 100..110 x contrast with an "
    "integer-shift bound of 0.01 px and swap antisymmetry within the accuracy bound; with the fix both backends are judged at mean = 100..1000 x contrast with the usual float32 bounds",
    "align_vbf_stack_multiscale (call site): displacements are constant inside every bin of the coarsest level; one level is judged with the estimator's bound, L levels with L x the sub-pixel "
    "bound for every shift class (each level registers against the mean of the previously aligned stack; measured <= 0.05 px for integer shifts, <= 0.75 of the bound for sub-pixel shifts); "
    "pairwise mode is judged up to the common translation it leaves free; a non-zero initial_shifts is handed over together with the stack it was already applied to (the documented contract)",
    "ground truth is exact: spectra lie strictly below Nyquist (relative bandwidth 0.5..0.9) so the phase-ramp translate is the true circular translate; integer shifts of arbitrary images use np.roll",
    "shifts are compared modulo the image size (a circular translation by s and by s+N is the same translation)",
    "tolerances: integer/zero shifts 1e-8 px (numpy float64), 1e-3 px (numpy float32 and torch float64: the torch port computes in float32 internally), "
    "min(1/up, max(2e-3, 1e-3*up)) px for torch float32 (its float32 DFT kernels give a measured error of ~1e-5*up px); "
    "sub-pixel shifts 1/up px for up>1 and 0.5 px for up=1 (parabolic refinement); the torch port rounds to half pixels for up<=2 by design",
    "torch sub-pixel cases with up<=2 use the Gaussian-envelope family with bandwidth <= 0.7 only (parabolic error <= 0.1 px + 0.25 px half-pixel rounding stays well below the 0.5 px claim)",
    "swap antisymmetry is judged at working precision for numpy (exact mirror symmetry of the algorithm) except for exact half-integer shifts "
    "(the two tied coarse peaks are broken by argmax order) and within the accuracy bound for torch (its upsampled patch is not symmetric for even factors)",
    "max_shift is generated >= |s| + 2.5 px so the true peak and its parabolic neighbours are inside the search disc (usual bounds), and additionally with the radius "
    "0.02..1 px beyond the farthest of the four integer lags around the true shift: there the library's zero-filled excluded lags bias the coarse parabolic estimate "
    "(measured up to 0.49 px at up=1, integer shifts included), so those cases are judged 'finite and within 1/up' for up>1 (measured <= 0.09 px at up=2 ... 0.003 px at up=64) "
    "and 'finite and within 1.5 px' for up=1",
    "aligned image vs reference: rigorous Parseval bound ||T_r im - T_s im||_2 <= pi*bw*(|d_r|+|d_c|) ||im||_2 with d = r - s",
]
BUDGET = {"quick": {"soft_s": 300}, "thorough": {"soft_s": 1200}}
MIN_EVALUATIONS = {"quick": 800, "thorough": 20000}
REQUIRED_COUNTERS = [
    "eval:shift_error_sub_up1",
    "eval:shift_error_sub_up2",
    "eval:shift_error_sub_up8",
    "eval:shift_error_sub_up64",
    "eval:shift_error_int_f64",
    "eval:shift_error_int_f32",
    "eval:identical_nonzero_int_f64",
    "eval:identical_nonzero_int_f32",
    "eval:swap_not_negated_int_f64",
    "eval:aligned_not_translation_by_returned_shift_int_f64",
    "eval:aligned_not_reference_sub_up8",
    "eval:fft_variant_disagrees_int_f64",
    "eval:shift_error_near_search_radius_sub_up8",
    "eval:history_shift_error_int_f32",
    "eval:shift_error_int_f32ped",
    "eval:scalar_form_changes_result_int_f64",
    "eval:scalar_form_changes_result_int_f32",
    "eval:history_shift_error_sub_up8",
]
# the call-site sub-monitors (tomography / direct-ptychography helpers, partly private names) are additional observability:
# if a helper disappears it is listed under hooks_missing in the evidence and the verdict rests on the estimators themselves

UPS = [1, 2, 3, 4, 5, 7, 8, 16, 32, 64]
SHAPES = ["even_sq", "odd_sq", "even_odd", "odd_even", "tall_even", "wide_odd"]
SCLASSES = ["zero", "int", "int_edge", "int_far", "sub", "sub_far", "half"]
BACKENDS = ["numpy", "torch"]
INT_CLASSES = ("zero", "int", "int_edge", "int_far")


def plan(tier, seed):
    specs = []
    # cheap history / call-site cases first, so a time-budget cut on a loaded machine only trims the big estimator matrix
    hreps = 2 if tier == "quick" else 60
    k = 0
    for rep in range(hreps):
        for be, up, sc in itertools.product(BACKENDS, UPS, ["int", "sub"]):
            k += 1
            fam = "env" if (be == "torch" and up <= 2 and sc == "sub") else ["gauss", "env"][(k + rep) % 2]
            dt = (["float64", "float32"] if be == "numpy" else ["float32", "float64"])[(k // 2 + rep) % 2]
            al = ["copy_", "numpy_alias", "data_copy", "data_setitem", "view_of_big"][(k + 2 * rep) % 5] if be == "torch" else ["plain", "view_of_big"][(k // 2 + rep) % 2]
            specs.append({"kind": "history", "backend": be, "up": up, "sclass": sc, "shape": SHAPES[(k + rep) % len(SHAPES)], "dtype": dt, "family": fam, "alias": al})
    preps = 1 if tier == "quick" else 40
    k = 0
    for rep in range(preps):  # single-precision images on a large background (mean = 100..1000 x contrast)
        for be, up, sc in itertools.product(BACKENDS, UPS, ["int", "sub", "int_far", "sub_far"]):
            k += 1
            specs.append({"kind": "est", "backend": be, "up": up, "sclass": sc, "shape": SHAPES[(k + rep) % len(SHAPES)], "dtype": "float32", "family": "env" if (be == "torch" and up <= 2) else ["gauss", "env"][(k + rep) % 2], "pedestal": True})
    areps = 2 if tier == "quick" else 40
    k = 0
    for rep in range(areps):  # anisotropic / obliquely elongated content: the correlation peak is a tilted ridge
        for be, up, sc in itertools.product(BACKENDS, UPS, ["int", "sub", "sub_far", "int_far", "half"]):
            k += 1
            dt = (["float64", "float32"] if be == "numpy" else ["float32", "float64"])[(k // 2 + rep) % 2]
            specs.append({"kind": "est", "backend": be, "up": up, "sclass": sc, "shape": SHAPES[(k + rep) % len(SHAPES)], "dtype": dt, "family": ["oblique_texture", "oblique_blobs"][(k + rep) % 2], "aniso": True})
    mreps = 36 if tier == "quick" else 720
    for r in range(mreps):  # direct-ptychography multi-scale stack alignment with the optional arguments its real caller passes
        specs.append({"kind": "multiscale", "mode": ["reference", "pairwise"][r % 2], "init": ["guess", "none", "guess", "zero"][(r // 2) % 4], "levels": [[1], [2, 1], [3, 1], [3, 2, 1]][(r // 3) % 4], "sclass": ["int", "sub"][(r // 5) % 2], "up": [4, 8, 1, 16, 2][(r // 7) % 5], "dtype": ["float32", "float64"][(r // 4) % 2], "running_average": (r // 11) % 3 == 0})
    ncs = 36 if tier == "quick" else 720
    for r in range(ncs):
        specs.append({"kind": "tomo", "sclass": ["int", "sub"][r % 2], "shape": SHAPES[(r // 2) % len(SHAPES)]})
        specs.append({"kind": "dptycho", "sclass": ["int", "sub", "int_far"][r % 3], "shape": SHAPES[(r // 2) % len(SHAPES)], "up": [1, 2, 4, 8, 3, 16][(r // 3) % 6], "dtype": ["float32", "float64"][(r // 6) % 2]})
    reps = 2 if tier == "quick" else 80
    k = 0
    for rep in range(reps):
        for be, up, sc, shp in itertools.product(BACKENDS, UPS, SCLASSES, SHAPES):
            k += 1
            if sc in INT_CLASSES:
                fam = ["gauss", "env", "roll"][(k + rep) % 3]
            else:
                fam = ["gauss", "env"][(k + rep) % 2]
                if be == "torch" and up <= 2:
                    fam = "env"
            if be == "numpy":
                if fam == "roll":
                    dt = ["float64", "uint8", "float32", "uint16", "int32"][(k // 3 + rep) % 5]
                else:
                    dt = ["float64", "float64", "float32"][(k // 2 + rep) % 3]
            else:
                dt = ["float32", "float64"][(k // 2 + rep) % 2]
            specs.append({"kind": "est", "backend": be, "up": up, "sclass": sc, "shape": shp, "dtype": dt, "family": fam})
    return specs


def setup(ctx):
    import torch

    from quantem.core.utils import imaging_utils as iu

    ctx.state["iu"] = iu
    ctx.state["torch"] = torch
    try:
        from quantem.tomography import utils as tomo

        ctx.state["tomo"] = tomo
        if not hasattr(tomo, "cross_correlation_align_stack"):
            ctx.hooks_missing.append("quantem.tomography.utils.cross_correlation_align_stack")
    except Exception as e:  # noqa: BLE001
        ctx.hooks_missing.append("quantem.tomography.utils (%s)" % type(e).__name__)
    try:
        from quantem.diffractive_imaging import direct_ptycho_utils as dpu

        ctx.state["dpu"] = dpu
        for name in ("_compute_reference_shifts", "_compute_pairwise_shifts", "_fourier_shift_stack"):
            if not hasattr(dpu, name):
                ctx.hooks_missing.append("quantem.diffractive_imaging.direct_ptycho_utils." + name)
    except Exception as e:  # noqa: BLE001
        ctx.hooks_missing.append("quantem.diffractive_imaging.direct_ptycho_utils (%s)" % type(e).__name__)


# ------------------------------------------------------------------------------------------------
# generators


def gen_shape(rng, cls):
    def even(lo=12, hi=48):
        return int(rng.integers(lo // 2, hi // 2 + 1)) * 2

    def odd(lo=13, hi=47):
        return int(rng.integers(lo // 2, hi // 2 + 1)) * 2 + 1

    if cls == "even_sq":
        n = even()
        return n, n
    if cls == "odd_sq":
        n = odd()
        return n, n
    if cls == "even_odd":
        return even(), odd()
    if cls == "odd_even":
        return odd(), even()
    if cls == "tall_even":
        n = even(12, 30)
        return n + 2 * int(rng.integers(3, 10)), n
    if cls == "wide_odd":
        n = odd(13, 29)
        return n, n + 2 * int(rng.integers(3, 10))
    raise ValueError(cls)


def gen_shift(rng, cls, shape):
    """Applied shift (rows, cols).  |s_r| != |s_c| and opposite signs where the class allows, so axis swaps and sign flips show."""
    M, N = shape
    sg = 1.0 if rng.random() < 0.5 else -1.0
    if cls == "zero":
        return np.zeros(2)
    if cls == "int":
        a = int(rng.integers(1, M // 2 - 1))
        b = int(rng.integers(1, N // 2 - 1))
        if a == b:
            b = b + 1 if b + 1 < N // 2 - 1 else b - 1
        return np.array([sg * a, -sg * b], dtype=np.float64)
    if cls == "int_edge":
        # the coarse peak sits on the first/last index of one axis (exercises the index wrap of the 3-point stencil)
        e = -1.0 if rng.random() < 0.7 else 1.0
        o = float(rng.integers(-(min(M, N) // 2 - 2), min(M, N) // 2 - 1))
        if abs(o) == 1.0:
            o = 3.0
        return np.array([e, o]) if rng.random() < 0.5 else np.array([o, e])
    if cls == "int_far":
        a = int(rng.integers(M // 2 + 2, M))
        b = int(rng.integers(N // 2 + 2, N))
        if M - a == N - b:
            a = a - 1
        return np.array([sg * a, -sg * b], dtype=np.float64)
    if cls == "sub":
        a = float(rng.uniform(0.6, M / 2 - 1.0))
        b = float(rng.uniform(0.6, N / 2 - 1.0))
        if abs(a - b) < 0.75:
            b = b + 1.5 if b + 1.5 < N / 2 - 1.0 else b - 1.5
        return np.array([sg * a, -sg * b])
    if cls == "sub_far":
        a = float(rng.uniform(M / 2 + 1.0, M - 0.6))
        b = float(rng.uniform(N / 2 + 1.0, N - 0.6))
        if abs((M - a) - (N - b)) < 0.75:
            a -= 1.5
        return np.array([sg * a, -sg * b])
    if cls == "half":
        a = float(rng.integers(0, M // 2 - 1)) + 0.5
        b = float(rng.integers(0, N // 2 - 1)) + 0.5
        if a == b:
            b += 1.0
        return np.array([sg * a, -sg * b])
    raise ValueError(cls)


def gen_pair(rng, shape, s, family, dtype, bw_max=0.9, pedestal=False):
    """(im, ref, bw): ref is the exact circular translate of im by s, both in float64 (or the integer dtype for 'roll')."""
    dt = np.dtype(dtype)
    if family == "roll":
        if dt.kind in "iu":
            hi = min(int(np.iinfo(dt).max), 4000)
            im = rng.integers(0, hi + 1, size=shape).astype(dt)
        else:
            im = rng.random(shape) * float(rng.choice([1.0, 50.0])) + float(rng.choice([0.0, 0.5]))
        si = np.round(s).astype(int)
        assert np.all(si == s)
        return im, np.roll(im, (int(si[0]), int(si[1])), axis=(0, 1)), 1.0
    bw = float(rng.uniform(0.5, bw_max))
    if bw_max >= 0.9 and rng.random() < 0.3:
        bw = float(rng.uniform(0.85, 0.9))  # wide band (~0.45 cycles/px): the parabolic estimate alone is off by up to ~0.1 px, so 1/up bites for up >= 16
    dc = float(rng.choice([0.0, 1.0, 3.0]))
    if pedestal:  # background in units of the contrast (the image has unit standard deviation)
        dc = float(10.0 ** rng.uniform(2.0, 3.0)) if C13_3_APPLIED else float(rng.uniform(100.0, 110.0))
    im = T.band_limited_image(rng, shape, bw, family, dc)
    return im, T.translate(im, s), bw


def half_pixel_rounding(backend, up, kind):
    """The torch port rounds the coarse estimate to half pixels and stops there for up <= 2: its error is the parabolic
    error + up to 0.25 px.  Sub-pixel cases on that path use smooth peaks (Gaussian envelope, bandwidth <= 0.7: correlation
    peak sigma >= 1.3 px, parabolic error <= 0.1 px) so that the 0.5 px claim is not approached by construction."""
    return backend == "torch" and up <= 2 and kind == "sub"


def skind(sclass):
    return "int" if sclass in INT_CLASSES else "sub"


def tol_shift(backend, dtype, up, kind):
    """Bound on |estimate - truth| per axis, pixels."""
    if kind == "sub":
        return 0.5 if up <= 1 else 1.0 / up
    if backend == "numpy":
        return 1e-8 if np.dtype(dtype).itemsize >= 8 or np.dtype(dtype).kind in "iu" else 1e-3
    if dtype == "float64":
        return 1e-3
    return min(1.0 / up, max(2e-3, 1e-3 * up))


def tol_image(dtype):
    """Relative L2 bound for images that should be equal up to rounding."""
    d = np.dtype(dtype)
    return 1e-3 if (d.kind == "f" and d.itemsize == 4) else 1e-9


def prec_of(backend, dtype):
    d = np.dtype(dtype)
    return "f64" if (backend == "numpy" and (d.kind in "iu" or d.itemsize >= 8)) else "f32"


def mech(base, kind, prec, up):
    """Mechanism name = check + tolerance class, so evidence reports the worst residual per class."""
    return "%s_sub_up%d" % (base, up) if kind == "sub" else "%s_int_%s" % (base, prec)


def rel_l2(a, b):
    a = np.asarray(a, dtype=np.float64)
    b = np.asarray(b, dtype=np.float64)
    return float(np.linalg.norm(a - b) / max(np.linalg.norm(b - b.mean()), 1e-300))


# ------------------------------------------------------------------------------------------------
# estimator cases


class J:
    """Judging context of one case: fixed classifier fields + tolerance-class aware ctx.close."""

    def __init__(self, ctx, backend, dtype, up, kind, pedestal=False, aniso=False, **extra):
        self.ctx, self.kind, self.up = ctx, kind, up
        self.prec = prec_of(backend, dtype)
        self.common = dict(backend=backend, dtype=dtype, up=up, skind=kind, upsampled=bool(up > (1 if backend == "numpy" else 2)), **extra)
        self.tol = tol_shift(backend, dtype, up, kind)  # accuracy claim for this shift class
        self.tol0 = tol_shift(backend, dtype, up, "int")  # "exactly" at working precision
        if aniso:
            self.common["content_class"] = "anisotropic"
            self.common["estimator"] = backend
            if kind == "sub" and not self.common["upsampled"]:
                self.tol = 1.5  # no upsampling: 1-D parabolas on a tilted peak, accuracy not specified by the property -> gross errors only
            elif kind == "sub" and not C13_4_APPLIED:
                self.tol = 1.5  # unrepaired code: known to miss 1/up on tilted peaks (fixes/C13-4) -> gross errors only until the fix is applied
                ctx.count("relaxed:anisotropic_subpixel_before_fix_C13-4")
        if pedestal:
            self.prec = "f32ped"
            self.common["pedestal"] = True
            if not C13_3_APPLIED:  # unrepaired numpy path: rounding of the zero-frequency term, measured floor 6e-4 px at mean = 100..110 x contrast
                self.tol0 = max(self.tol0, 0.01)
                if kind == "int":
                    self.tol = self.tol0

    def close(self, base, value, bound, detail, io, k="int"):
        return self.ctx.close(value, bound, mech(base, k, self.prec, self.up), detail, check=base, io=io, **self.common)

    def check(self, base, cond, detail, io):
        return self.ctx.check(cond, base, detail, check=base, io=io, **self.common)

    def shift(self, r, s, shape, io, base="shift_error", tol=None, k=None):
        r = np.asarray(r, dtype=np.float64).ravel()
        if not self.check("shift_not_finite_pair", r.shape == (2,) and bool(np.all(np.isfinite(r))), lambda: "returned %r (applied %s, %s)" % (r, np.asarray(s).tolist(), io), io):
            return None
        d = T.wrap(r - s, shape)
        tol = self.tol if tol is None else tol
        k = self.kind if k is None else k

        def detail():
            hint = ""
            if np.max(np.abs(T.wrap(r + s, shape))) <= tol:
                hint = " [equals -s: sign flipped]"
            elif np.max(np.abs(T.wrap(r[::-1] - s, shape))) <= tol:
                hint = " [axes swapped]"
            return "shape=%s applied s=%s returned r=%s wrap(r-s)=%s%s" % (tuple(shape), np.asarray(s).tolist(), r.tolist(), d.tolist(), hint)

        self.close(base, float(np.max(np.abs(d))), tol, detail, io, k=k)
        return d


def _absmax(v):
    v = np.asarray(v, dtype=np.float64)
    return float(np.max(np.abs(v))) if np.all(np.isfinite(v)) else float("nan")


def _run_numpy(spec, idx, ctx, rng, shape, s, im, ref, bw):
    iu = ctx.state["iu"]
    ccs = iu.cross_correlation_shift
    up, dtype, kind = spec["up"], spec["dtype"], skind(spec["sclass"])
    j = J(ctx, "numpy", dtype, up, kind, pedestal=bool(spec.get("pedestal")), aniso=bool(spec.get("aniso")), family=spec["family"])
    itol = 1e-2 if spec.get("pedestal") else tol_image(dtype)  # relative to the contrast: float32 rounding of the background itself is 1e-7 x 1e3
    a = ref.astype(dtype)
    b = im.astype(dtype)
    a_keep, b_keep = a.copy(), b.copy()

    r = np.asarray(ccs(a, b, upsample_factor=up), dtype=np.float64)
    d = j.shift(r, s, shape, "real")
    r0 = np.asarray(ccs(b, b, upsample_factor=up), dtype=np.float64)
    j.close("identical_nonzero", _absmax(r0), j.tol0, lambda: "identical images shape=%s -> %s" % (shape, r0.tolist()), "real")
    rs = np.asarray(ccs(b, a, upsample_factor=up), dtype=np.float64)
    if spec.get("pedestal") and not C13_3_APPLIED and kind == "sub":
        # unrepaired code on a background: the two estimates carry independent float32 rounding noise (measured 8e-3 px each)
        j.close("swap_not_negated", _absmax(T.wrap(r + rs, shape)), 2 * j.tol, lambda: "shape=%s s=%s r(ref,im)=%s r(im,ref)=%s" % (shape, s.tolist(), r.tolist(), rs.tolist()), "real", k=kind)
    elif spec["sclass"] != "half":
        j.close("swap_not_negated", _absmax(T.wrap(r + rs, shape)), j.tol0, lambda: "shape=%s s=%s r(ref,im)=%s r(im,ref)=%s" % (shape, s.tolist(), r.tolist(), rs.tolist()), "real")
    else:
        ctx.count("swap_not_judged_half_integer")

    # aligned image, every input/output variant: each must (a) be `im` translated by the shift returned with it and
    # (b) match the reference to the extent that shift is accurate; each returned shift is judged against the truth
    b64 = b.astype(np.float64)
    a64 = a.astype(np.float64)
    Fa, Fb = np.fft.fft2(a), np.fft.fft2(b)
    r3 = np.asarray(ccs(Fa, Fb, upsample_factor=up, fft_input=True), dtype=np.float64)
    j.shift(r3, s, shape, "fft_input")
    if kind == "int":  # "exactly" applies to both variants, so they agree at working precision
        j.close("fft_variant_disagrees", _absmax(T.wrap(r3 - r, shape)), 2 * j.tol0, lambda: "real-space r=%s fft_input r=%s" % (r.tolist(), r3.tolist()), "fft_input")
    variants = [
        ("real", (a, b), {}),
        ("fft_input+fft_output", (Fa, Fb), {"fft_input": True, "fft_output": True}),
        ("fft_output", (a, b), {"fft_output": True}),
        ("fft_input", (Fa, Fb), {"fft_input": True}),
    ]
    for io, args, kw in variants:
        rv, al = ccs(*args, upsample_factor=up, return_shifted_image=True, **kw)
        rv = np.asarray(rv, dtype=np.float64)
        dv = j.shift(rv, s, shape, io + "+image")
        al = np.asarray(al)
        if kw.get("fft_output"):
            if not j.check("aligned_bad_type", al.shape == tuple(shape), lambda: "fft_output image shape=%s" % (al.shape,), io):
                continue
            al = np.real(np.fft.ifft2(al))
        elif not j.check("aligned_bad_type", al.shape == tuple(shape) and not np.iscomplexobj(al), lambda: "aligned image shape=%s dtype=%s" % (al.shape, al.dtype), io):
            continue
        if dv is None:
            continue
        j.close("aligned_not_translation_by_returned_shift", rel_l2(al, T.translate(b64, rv)), itol, lambda: "shape=%s returned r=%s (%s): aligned image is not im translated by +r" % (shape, rv.tolist(), io), io)
        if np.max(np.abs(dv)) <= j.tol:
            bound = math.pi * bw * float(np.sum(np.abs(dv))) + itol  # Parseval; relative to the contrast norm (the mean does not move)
            j.close("aligned_not_reference", rel_l2(al, a64), bound, lambda: "shape=%s s=%s r=%s (%s)" % (shape, s.tolist(), rv.tolist(), io), io, k=kind)

    # max_shift: search disc containing the true shift
    sw = T.wrap(s, shape)
    ms = float(np.hypot(sw[0], sw[1]) + rng.uniform(2.5, 8.0)) if rng.random() < 0.8 else float(rng.choice([1e3, 1e6]))
    r6 = np.asarray(ccs(a, b, upsample_factor=up, max_shift=ms), dtype=np.float64)
    j.shift(r6, s, shape, "max_shift")
    r7 = np.asarray(ccs(b, b, upsample_factor=up, max_shift=float(rng.uniform(2.5, 8.0))), dtype=np.float64)
    j.close("identical_nonzero", _absmax(r7), j.tol0, lambda: "identical images shape=%s max_shift -> %s" % (shape, r7.tolist()), "max_shift")

    # max_shift whose radius passes within 0..1 px of the (admitted) true shift: the four integer lags around the true
    # shift are inside the disc, parabolic neighbours of the coarse peak may be excluded.  The library zero-fills excluded
    # lags, which biases the *coarse* parabolic estimate by < 0.5 px (measured 0.49 px at up=1, also for integer shifts);
    # the DFT-upsampled refinement (radius 1.5 px, unmasked correlation) absorbs it: measured <= 0.09 (up 2) ... 0.003 (up 64).
    # Judged: finite result, 1/up for up > 1 (all shift classes), gross-error bound 1.5 px for up = 1.
    corners = [float(np.hypot(p, q)) for p in {np.floor(sw[0]), np.ceil(sw[0])} for q in {np.floor(sw[1]), np.ceil(sw[1])}]
    ms_e = max(corners) + float(rng.uniform(0.02, 1.0)) + (2.0 if spec.get("aniso") else 0.0)
    if C13_2_APPLIED:  # repaired code: an admitted shift is estimated exactly as without max_shift -> usual bounds
        tol_e, k_e = j.tol, kind
    else:
        tol_e, k_e = (1.5 if up <= 1 else 1.0 / up), "sub"
    r8 = np.asarray(ccs(a, b, upsample_factor=up, max_shift=ms_e), dtype=np.float64)
    j.shift(r8, s, shape, "max_shift_edge", base="shift_error_near_search_radius", tol=tol_e, k=k_e)
    r9, al9 = ccs(Fa, Fb, upsample_factor=up, max_shift=ms_e, fft_input=True, return_shifted_image=True)
    r9 = np.asarray(r9, dtype=np.float64)
    d9 = j.shift(r9, s, shape, "max_shift_edge+fft_input+image", base="shift_error_near_search_radius", tol=tol_e, k=k_e)
    al9 = np.asarray(al9)
    if d9 is not None and j.check("aligned_bad_type", al9.shape == tuple(shape) and not np.iscomplexobj(al9) and bool(np.all(np.isfinite(al9))), lambda: "aligned image (max_shift near the shift) shape=%s dtype=%s finite=%s" % (al9.shape, al9.dtype, bool(np.all(np.isfinite(al9)))), "max_shift_edge"):
        j.close("aligned_not_translation_by_returned_shift", rel_l2(al9, T.translate(b64, r9)), itol, lambda: "shape=%s returned r=%s (max_shift=%.3f): aligned image is not im translated by +r" % (shape, r9.tolist(), ms_e), "max_shift_edge")
    r10 = np.asarray(ccs(b, b, upsample_factor=up, max_shift=float(rng.uniform(0.3, 1.4))), dtype=np.float64)  # only the zero lag (and at most its 4 neighbours) admitted
    j.close("identical_nonzero", _absmax(r10), j.tol0, lambda: "identical images shape=%s, max_shift ~ 1 -> %s" % (shape, r10.tolist()), "max_shift_edge")

    # the same factor / radius passed as every accepted scalar type must give the result obtained with the Python number
    # (on the unchanged code all of these are bit-identical; np.float32 / 8-bit integer scalars are not generated: the
    # library's own arithmetic in those types rounds / overflows)
    for form, val in (("np.int64", np.int64(up)), ("np.int32", np.int32(up)), ("0-d int array", np.array(up)), ("float", float(up)), ("np.float64", np.float64(up)), ("np.intp element", (2 ** np.arange(0, 7))[int(np.log2(up))] if up & (up - 1) == 0 else np.arange(up, up + 1)[0])):
        rf = np.asarray(ccs(a, b, upsample_factor=val), dtype=np.float64)
        j.shift(rf, s, shape, "upsample_factor as " + form)
        j.close("scalar_form_changes_result", _absmax(T.wrap(rf - r, shape)), j.tol0, lambda: "upsample_factor=%r (%s) -> %s, Python int %d -> %s" % (val, form, rf.tolist(), up, r.tolist()), "upsample_factor as " + form)
    msi = int(np.ceil(ms)) if ms < 1e5 else 1000
    rm = np.asarray(ccs(a, b, upsample_factor=up, max_shift=msi), dtype=np.float64)
    j.shift(rm, s, shape, "max_shift as int")
    for form, val in (("np.int64", np.int64(msi)), ("float", float(msi)), ("np.float64", np.float64(msi)), ("np.float32", np.float32(msi)), ("0-d array", np.array(msi))):
        rf = np.asarray(ccs(a, b, upsample_factor=up, max_shift=val), dtype=np.float64)
        j.close("scalar_form_changes_result", _absmax(T.wrap(rf - rm, shape)), j.tol0, lambda: "max_shift=%r (%s) -> %s, Python int %d -> %s" % (val, form, rf.tolist(), msi, rm.tolist()), "max_shift as " + form)

    if not (np.array_equal(a, a_keep) and np.array_equal(b, b_keep)):
        ctx.count("observed:estimator_modified_its_inputs")  # not part of the property: recorded, not judged
    return r, d


def _run_torch(spec, idx, ctx, rng, shape, s, im, ref, bw):
    iu = ctx.state["iu"]
    torch = ctx.state["torch"]
    up, dtype, kind = spec["up"], spec["dtype"], skind(spec["sclass"])
    j = J(ctx, "torch", dtype, up, kind, pedestal=bool(spec.get("pedestal")), aniso=bool(spec.get("aniso")), family=spec["family"])
    tdt = getattr(torch, dtype)
    A = torch.tensor(np.asarray(ref, dtype=np.float64), dtype=tdt)
    B = torch.tensor(np.asarray(im, dtype=np.float64), dtype=tdt)
    ccst = iu.cross_correlation_shift_torch

    def npy(x):
        return np.asarray(x.detach().cpu().numpy() if hasattr(x, "detach") else x, dtype=np.float64)

    t = npy(ccst(A, B, upsample_factor=up))
    d = j.shift(t, s, shape, "real")
    t0 = npy(ccst(B, B, upsample_factor=up))
    j.close("identical_nonzero", _absmax(t0), j.tol0, lambda: "identical images shape=%s -> %s" % (shape, t0.tolist()), "real")
    ts = npy(ccst(B, A, upsample_factor=up))
    j.close("swap_not_negated", _absmax(T.wrap(t + ts, shape)), 2 * j.tol, lambda: "shape=%s s=%s r(ref,im)=%s r(im,ref)=%s" % (shape, s.tolist(), t.tolist(), ts.tolist()), "real", k=kind)
    # Fourier-space entry point
    G1, G2 = torch.fft.fft2(A), torch.fft.fft2(B)
    x = npy(iu.align_images_fourier_torch(G1, G2, up))
    for form, val in (("np.int64", np.int64(up)), ("np.int32", np.int32(up)), ("float", float(up)), ("np.float64", np.float64(up)), ("0-d tensor", torch.tensor(up))):
        tf = npy(ccst(A, B, upsample_factor=val))
        j.shift(tf, s, shape, "upsample_factor as " + form)
        j.close("scalar_form_changes_result", _absmax(T.wrap(tf - t, shape)), j.tol0, lambda: "upsample_factor=%r (%s) -> %s, Python int %d -> %s" % (val, form, tf.tolist(), up, t.tolist()), "upsample_factor as " + form)
    j.shift(x, s, shape, "fft_input")
    if kind == "int":
        j.close("fft_variant_disagrees", _absmax(T.wrap(x - t, shape)), 2 * j.tol0, lambda: "cross_correlation_shift_torch=%s align_images_fourier_torch=%s" % (t.tolist(), x.tolist()), "fft_input")
    return t, d


def _run_est(spec, idx, ctx):
    rng = ctx.rng(idx)
    if spec.get("pedestal") and not C13_3_APPLIED and (spec["backend"] == "torch" or spec["up"] < 2):
        ctx.count("not_judged:single_precision_background_before_fix_C13-3")
        ctx.nontrivial(("est-pedestal-skipped",), False)
        return
    shape = gen_shape(rng, spec["shape"])
    if spec.get("aniso"):
        shape = (shape[0] + 32, shape[1] + 32)  # 44..80: room for features of up to 11 px
    s = gen_shift(rng, spec["sclass"], shape)
    bw_max = 0.7 if half_pixel_rounding(spec["backend"], spec["up"], skind(spec["sclass"])) else 0.9
    if spec.get("aniso"):
        an = float(rng.uniform(1.5, 5.0))
        if rng.random() < 0.4:
            an = float(rng.uniform(3.5, 5.0))
        ang = float(rng.uniform(20.0, 70.0)) * (1.0 if rng.random() < 0.5 else -1.0)
        if rng.random() < 0.4:  # shallow / steep ridges: the integer maximum lies farthest from the true shift
            ang = float(rng.choice([-1.0, 1.0])) * float(rng.choice([rng.uniform(20.0, 30.0), rng.uniform(60.0, 70.0)]))
        sig = min(float(rng.uniform(1.0, 2.2)), min(shape) / (7.5 * an))
        bw = float(rng.uniform(0.6, 0.9))
        im = T.oblique_image(rng, shape, bw, sig, an, ang, "texture" if spec["family"] == "oblique_texture" else "blobs", float(rng.choice([0.0, 1.0, 3.0])), nblobs=int(rng.integers(2, 6)))
        ref = T.translate(im, s)
        run = _run_numpy if spec["backend"] == "numpy" else _run_torch
        r, d = run(spec, idx, ctx, rng, shape, s, im, ref, bw)
        ctx.nontrivial(("est-aniso", spec["backend"], spec["up"], spec["sclass"], spec["shape"], spec["dtype"], spec["family"]), bool(np.any(s != 0)))
        ctx.observe(shape=list(shape), applied=s.tolist(), returned=np.asarray(r).tolist(), error=None if d is None else d.tolist(), bandwidth=bw, content_class="anisotropic", anisotropy=an, angle_deg=ang, sigma_short=sig)
        return
    im, ref, bw = gen_pair(rng, shape, s, spec["family"], spec["dtype"] if spec["backend"] == "numpy" else "float64", bw_max, pedestal=bool(spec.get("pedestal")))
    if spec["backend"] == "numpy":
        r, d = _run_numpy(spec, idx, ctx, rng, shape, s, im, ref, bw)
    else:
        r, d = _run_torch(spec, idx, ctx, rng, shape, s, im, ref, bw)
    ctx.nontrivial(("est", spec["backend"], spec["up"], spec["sclass"], spec["shape"], spec["dtype"], spec["family"], bool(spec.get("pedestal"))), bool(np.any(s != 0)))
    ctx.observe(shape=list(shape), applied=s.tolist(), returned=np.asarray(r).tolist(), error=None if d is None else d.tolist(), bandwidth=bw)


# ------------------------------------------------------------------------------------------------
# call sites


def _run_tomo(spec, idx, ctx):
    """tomography.utils.cross_correlation_align_stack(ref, stack): sequential alignment with the numpy estimator (up=1)."""
    tomo = ctx.state.get("tomo")
    if tomo is None or not hasattr(tomo, "cross_correlation_align_stack"):
        ctx.count("callsite_missing:tomo")
        return
    rng = ctx.rng(idx)
    shape = gen_shape(rng, spec["shape"])
    # blobs (sigma <= 1.5 px) stay >= 14 px away from every edge: compact support to ~1e-12, so the library's
    # non-periodic scipy.ndimage.shift and the circular ground truth agree
    # and >= 7.5 px from each other (isotropic, untilted correlation peak: the up=1 parabolic refinement is then accurate to ~0.05 px)
    shape = (shape[0] + 28, shape[1] + 28)
    ref = T.blob_image(rng, shape, nblobs=int(rng.integers(2, 6)), margin=0.36, sigma=(0.9, 1.5), min_sep=7.5)
    n = int(rng.integers(2, 4))
    kind = spec["sclass"]
    shifts = []
    stack = []
    for k in range(n):
        lim = 4.0
        sk = np.array([rng.uniform(-lim, lim), rng.uniform(-lim, lim)])
        if kind == "int":
            sk = np.round(sk)
            img = np.roll(ref, (-int(sk[0]), -int(sk[1])), axis=(0, 1))  # ref = T_{s_k}(img)
        else:
            img = T.translate(ref, -sk)
        shifts.append(sk)
        stack.append(img)
    stack = np.stack(stack)
    new_images, pred = tomo.cross_correlation_align_stack(ref, stack)
    j = J(ctx, "numpy", "float64", 1, kind, site="tomography.cross_correlation_align_stack")
    j.tol = 1e-6 if kind == "int" else 0.5  # the images pass through a cubic-spline shift between estimates
    j.check("callsite_bad_result", len(pred) == n and len(new_images) == n, "len(pred)=%d len(images)=%d n=%d" % (len(pred), len(new_images), n), "callsite")
    worst = 0.0
    carry = np.zeros(2)  # the library registers image k against the *previously aligned* image = T_{pred[k-1]}(stack[k-1]) = T_{pred[k-1]-s[k-1]}(ref)
    for k in range(min(n, len(pred))):
        d = j.shift(pred[k], shifts[k] + carry, shape, "callsite", base="callsite_shift_error")
        pk = np.asarray(pred[k], dtype=np.float64).ravel()
        carry = pk - shifts[k] if pk.shape == (2,) and np.all(np.isfinite(pk)) else np.zeros(2)
        if d is not None:
            worst = max(worst, float(np.max(np.abs(d))))
        if kind == "int" and d is not None and np.max(np.abs(d)) <= j.tol:
            # translating the second image by the returned shift reproduces the first (scipy.ndimage.shift moves content by +shift)
            j.close("callsite_aligned_not_reference", float(np.max(np.abs(np.asarray(new_images[k]) - ref)) / np.max(np.abs(ref))), 1e-5, lambda: "image %d shifted by %s differs from the reference" % (k, np.asarray(pred[k]).tolist()), "callsite")
    ctx.nontrivial(("tomo", kind, spec["shape"]), any(np.any(s != 0) for s in shifts))
    ctx.observe(shape=list(shape), applied=[s.tolist() for s in shifts], returned=[np.asarray(p).tolist() for p in pred], worst_error=worst)


def _run_dptycho(spec, idx, ctx):
    """direct_ptycho_utils._compute_reference_shifts / _compute_pairwise_shifts on a stack of exact translates."""
    dpu = ctx.state.get("dpu")
    torch = ctx.state["torch"]
    if dpu is None or not hasattr(dpu, "_compute_reference_shifts") or not hasattr(dpu, "_compute_pairwise_shifts"):
        ctx.count("callsite_missing:dptycho")
        return
    rng = ctx.rng(idx)
    shape = gen_shape(rng, spec["shape"])
    up, dtype, sclass = spec["up"], spec["dtype"], spec["sclass"]
    kind = skind(sclass)
    bw = float(rng.uniform(0.5, 0.7 if half_pixel_rounding("torch", up, kind) else 0.9))
    base = T.band_limited_image(rng, shape, bw, "env", float(rng.choice([0.0, 2.0])))
    n = int(rng.integers(3, 6))
    a = [gen_shift(rng, sclass, shape) for _ in range(n)]
    a[0] = np.zeros(2)
    stack = np.stack([T.translate(base, ak) for ak in a])  # stack[k] = T_{a_k}(base)
    tdt = getattr(torch, dtype)
    S = torch.tensor(stack, dtype=tdt)
    Rf = torch.tensor(base, dtype=tdt)
    j = J(ctx, "torch", dtype, up, kind, site="direct_ptycho_utils._compute_reference_shifts")
    sh = dpu._compute_reference_shifts(S, Rf, upsample_factor=up)
    shn = sh.detach().cpu().numpy().astype(np.float64)
    worst = 0.0
    for k in range(n):
        d = j.shift(shn[k], -a[k], shape, "callsite", base="callsite_shift_error")  # base = T_{-a_k}(stack[k])
        if d is not None:
            worst = max(worst, float(np.max(np.abs(d))))
    if hasattr(dpu, "_fourier_shift_stack") and np.all(np.isfinite(shn)):
        al = dpu._fourier_shift_stack(S, sh.to(S.dtype)).detach().cpu().numpy().astype(np.float64)
        for k in range(n):
            d = T.wrap(shn[k] + a[k], shape)
            if np.max(np.abs(d)) <= j.tol:
                bound = math.pi * bw * float(np.sum(np.abs(d))) + 5e-3  # float32 stack: measured 5e-5
                j.close("callsite_aligned_not_reference", rel_l2(al[k], base), bound, lambda: "stack[%d] shifted by the returned %s differs from the reference" % (k, shn[k].tolist()), "callsite", k=kind)
    pairs = torch.tensor([[i, jj] for i in range(n) for jj in range(n) if i != jj][: 2 * n], dtype=torch.long)
    j2 = J(ctx, "torch", dtype, up, kind, site="direct_ptycho_utils._compute_pairwise_shifts")
    rel = dpu._compute_pairwise_shifts(S, pairs, upsample_factor=up)
    j2.check("callsite_bad_result", len(rel) == len(pairs), "pairs=%d results=%d" % (len(pairs), len(rel)), "callsite")
    for i, jj, sij in rel:
        v = sij.detach().cpu().numpy().astype(np.float64) if hasattr(sij, "detach") else np.asarray(sij, dtype=np.float64)
        j2.shift(v, a[i] - a[jj], shape, "callsite", base="callsite_shift_error")  # stack[i] = T_{a_i-a_j}(stack[j])
    ctx.nontrivial(("dptycho", sclass, spec["shape"], up, dtype), True)
    ctx.observe(shape=list(shape), applied=[x.tolist() for x in a], returned=shn.tolist(), worst_error=worst, bandwidth=bw)


# ------------------------------------------------------------------------------------------------
# buffer-reuse histories: the same array / tensor objects (same storage) are refilled in place between calls


def _run_history(spec, idx, ctx):
    """Several estimator calls in one process on preallocated buffers whose *contents* change in place between calls
    (reference only, moving image only, both, reference := moving image), interleaved with calls on other tensors of the
    same and of a different shape.  Every call is judged against its own ground truth: the result of a call may depend
    on the images passed to it only, not on what the same storage (or an earlier call) held before."""
    iu = ctx.state["iu"]
    torch = ctx.state["torch"]
    rng = ctx.rng(idx)
    backend, up, dtype, kind = spec["backend"], spec["up"], spec["dtype"], spec["sclass"]
    shape = gen_shape(rng, spec["shape"])
    shape2 = gen_shape(rng, SHAPES[(SHAPES.index(spec["shape"]) + 1 + int(rng.integers(len(SHAPES) - 1))) % len(SHAPES)])
    if shape2 == shape:
        shape2 = (shape[0] + 2, shape[1] + 3)
    j = J(ctx, backend, dtype, up, kind, family=spec["family"], history=True, alias=spec.get("alias", ""))
    bw_max = 0.7 if half_pixel_rounding(backend, up, kind) else 0.9
    sclass = {"int": ["int", "int_edge", "int_far"], "sub": ["sub", "sub_far"]}[kind]

    def new_shift(shp=shape):
        return gen_shift(rng, sclass[int(rng.integers(len(sclass)))], shp)

    def new_image(shp=shape):
        return T.band_limited_image(rng, shp, float(rng.uniform(0.5, bw_max)), spec["family"], float(rng.choice([0.0, 1.0, 3.0])))

    # how the buffers are (re)filled: the estimator may only depend on the *current contents* of its arguments, whichever
    # way they were written (torch in-place op, write through .data, write through NumPy memory aliased by torch.from_numpy,
    # buffers that are views of a larger allocation).  Writes through aliased memory do not bump tensor._version.
    alias = spec.get("alias", "copy_" if backend == "torch" else "plain")
    if backend == "torch":
        tdt = getattr(torch, dtype)
        npdt = np.dtype(dtype)
        backing = {}
        if alias == "numpy_alias":
            ref_np, mov_np = np.zeros(shape, dtype=npdt), np.zeros(shape, dtype=npdt)
            ref_buf, mov_buf = torch.from_numpy(ref_np), torch.from_numpy(mov_np)
            backing = {id(ref_buf): ref_np, id(mov_buf): mov_np}
        elif alias == "view_of_big":
            big_np = np.zeros((3,) + tuple(shape), dtype=npdt)
            big_t = torch.from_numpy(big_np)
            ref_buf, mov_buf = big_t[0], big_t[2]  # torch views, kept as the same Python objects for the whole history
            backing = {id(ref_buf): big_np[0], id(mov_buf): big_np[2]}
        else:
            ref_buf, mov_buf = torch.zeros(shape, dtype=tdt), torch.zeros(shape, dtype=tdt)

        def fill(buf, arr):
            src = torch.from_numpy(np.ascontiguousarray(arr)).to(buf.dtype)
            if id(buf) in backing:
                backing[id(buf)][...] = arr  # NumPy write into the aliased memory
            elif alias == "data_copy":
                buf.data.copy_(src)
            elif alias == "data_setitem":
                buf.data[...] = src
            else:
                buf.copy_(src)

        def fresh(arr):
            return torch.tensor(np.asarray(arr, dtype=np.float64), dtype=tdt)

        def est(x, y):
            return iu.cross_correlation_shift_torch(x, y, upsample_factor=up).detach().cpu().numpy().astype(np.float64)

        ident = (ref_buf.data_ptr(), mov_buf.data_ptr(), id(ref_buf), id(mov_buf))
    else:
        if alias == "view_of_big":
            big_np = np.zeros((shape[0] + 5, 2 * shape[1] + 3), dtype=dtype)
            ref_buf, mov_buf = big_np[2 : 2 + shape[0], 1 : 1 + shape[1]], big_np[3 : 3 + shape[0], shape[1] + 2 : 2 * shape[1] + 2]  # non-contiguous views
        else:
            ref_buf, mov_buf = np.zeros(shape, dtype=dtype), np.zeros(shape, dtype=dtype)

        def fill(buf, arr):
            buf[...] = arr

        def fresh(arr):
            return np.array(arr, dtype=dtype)

        def est(x, y):
            return np.asarray(iu.cross_correlation_shift(x, y, upsample_factor=up), dtype=np.float64)

        ident = (ref_buf.ctypes.data, mov_buf.ctypes.data, id(ref_buf), id(mov_buf))

    cur_mov = new_image()
    cur_s = new_shift()
    cur_ref = T.translate(cur_mov, cur_s)
    fill(mov_buf, cur_mov)
    fill(ref_buf, cur_ref)
    j.shift(est(ref_buf, mov_buf), cur_s, shape, "history:first", base="history_shift_error")
    modes = ["ref_only", "mov_only", "both", "identical", "other_shape", "same_shape_fresh", "swapped_roles", "ref_only", "identical"]
    order = [modes[i] for i in rng.permutation(len(modes))][: int(rng.integers(6, len(modes) + 1))]
    done = []
    for mode in order:
        done.append(mode)
        if mode == "ref_only":  # new reference written into the same storage, moving image untouched
            cur_s = new_shift()
            cur_ref = T.translate(cur_mov, cur_s)
            fill(ref_buf, cur_ref)
        elif mode == "mov_only":  # new moving image written into the same storage, reference untouched
            cur_s = new_shift()
            cur_mov = T.translate(cur_ref, -cur_s)
            fill(mov_buf, cur_mov)
        elif mode == "both":
            cur_mov = new_image()
            cur_s = new_shift()
            cur_ref = T.translate(cur_mov, cur_s)
            fill(mov_buf, cur_mov)
            fill(ref_buf, cur_ref)
        elif mode == "identical":  # reference := moving image (in place): identical images must give zero
            cur_ref = cur_mov.copy()
            cur_s = np.zeros(2)
            fill(ref_buf, cur_mov)  # same source array, same cast: bit-identical to the moving buffer
            r0 = est(ref_buf, mov_buf)
            j.close("identical_nonzero", _absmax(r0), j.tol0, lambda: "history %s: reference buffer refilled in place with the moving image -> %s" % (done, r0.tolist()), "history:" + mode)
            continue
        elif mode in ("other_shape", "same_shape_fresh"):  # unrelated calls in between, then the unchanged buffers again
            shp = shape2 if mode == "other_shape" else shape
            for _ in range(int(rng.integers(1, 3))):
                im2 = new_image(shp)
                s2 = new_shift(shp)
                j.shift(est(fresh(T.translate(im2, s2)), fresh(im2)), s2, shp, "history:" + mode + ":interleaved", base="history_shift_error")
        elif mode == "swapped_roles":
            j.shift(est(mov_buf, ref_buf), -cur_s, shape, "history:" + mode, base="history_shift_error")
            continue
        j.shift(est(ref_buf, mov_buf), cur_s, shape, "history:" + mode, base="history_shift_error")
    now = (ref_buf.data_ptr(), mov_buf.data_ptr(), id(ref_buf), id(mov_buf)) if backend == "torch" else (ref_buf.ctypes.data, mov_buf.ctypes.data, id(ref_buf), id(mov_buf))
    if now != ident:
        raise __import__("vf.core", fromlist=["HarnessError"]).HarnessError("history buffers were reallocated: the workload did not reuse storage")
    ctx.nontrivial(("history", backend, up, kind, spec["shape"], dtype, spec["family"], alias), True)
    ctx.observe(shape=list(shape), other_shape=list(shape2), steps=done, last_applied=cur_s.tolist(), refill=alias)


def _run_multiscale(spec, idx, ctx):
    """direct_ptycho_utils.align_vbf_stack_multiscale as its real caller (fit_hyperparameters_cross_correlation) drives it:
    reference / pairwise mode, several bin levels, running average, and a non-zero `initial_shifts` handed over together
    with the stack those shifts were already applied to.  stack[k] = T_{a_k}(base) with a_k constant inside every bin of
    the coarsest level (summing a bin then sums identical translates); returned total shifts must be -a_k (up to the
    common offset that pairwise mode leaves free) and the returned aligned stack must be the (commonly shifted) base."""
    dpu = ctx.state.get("dpu")
    torch = ctx.state["torch"]
    if dpu is None or not hasattr(dpu, "align_vbf_stack_multiscale") or not hasattr(dpu, "_bin_mask_and_stack_centered"):
        ctx.count("callsite_missing:multiscale")
        return
    rng = ctx.rng(idx)
    up, dtype, kind, mode, levels = spec["up"], spec["dtype"], spec["sclass"], spec["mode"], tuple(spec["levels"])
    M, N = int(rng.integers(16, 41)), int(rng.integers(16, 41))
    Q = int(rng.choice([6, 8, 9]))
    ki = np.fft.fftfreq(Q, 1.0 / Q)
    mask = torch.tensor((ki[:, None] ** 2 + ki[None, :] ** 2) <= float(rng.choice([1.0, 1.5, 2.0])) ** 2)
    ii, jj = torch.where(mask)
    n = int(ii.numel())
    bw = float(rng.uniform(0.5, 0.7 if up <= 2 else 0.9))
    base = T.band_limited_image(rng, (M, N), bw, "env", float(rng.choice([0.0, 2.0])))
    mapping = dpu._bin_mask_and_stack_centered(mask, ii, jj, torch.zeros(n, 2, 2), levels[0])[4].cpu().numpy()
    per = rng.uniform(-3.0, 3.0, size=(int(mapping.max()) + 1, 2))
    per = np.round(per) if kind == "int" else per
    a = per[mapping]
    stack = np.stack([T.translate(base, ak) for ak in a])
    g = np.zeros_like(a)
    ini = None
    if spec["init"] == "guess":  # an imperfect initial guess of the aligning shifts, already applied to the stack that is handed over
        g = -a + (np.round(rng.uniform(-1.5, 1.5, size=a.shape)) if kind == "int" else rng.uniform(-1.5, 1.5, size=a.shape))
        stack = np.stack([T.translate(stack[k], g[k]) for k in range(n)])
        ini = torch.tensor(g, dtype=torch.float32)
    elif spec["init"] == "zero":
        ini = torch.zeros(n, 2)
    tdt = getattr(torch, dtype)
    S = torch.tensor(stack, dtype=tdt)
    ref = torch.tensor(base, dtype=tdt) if mode == "reference" else None
    ini_keep = None if ini is None else ini.clone()
    gs, al = dpu.align_vbf_stack_multiscale(S, mask, ii, jj, levels, upsample_factor=up, reference=ref, initial_shifts=ini, running_average=bool(spec["running_average"]), verbose=False)
    gs = gs.detach().cpu().numpy().astype(np.float64)
    al = al.detach().cpu().numpy().astype(np.float64)
    L = len(levels)
    j = J(ctx, "torch", dtype, up, kind, site="direct_ptycho_utils.align_vbf_stack_multiscale", mode=mode, init=spec["init"], levels=L)
    # one level: the estimator's own bound; several levels: every level registers against the mean of the previously aligned stack,
    # so the bounds add up and integer shifts are no longer reproduced exactly (measured <= 0.05 px) -> L x the sub-pixel bound
    sub_tol = (0.5 if up <= 1 else 1.0 / up)
    tol = j.tol if L == 1 else L * sub_tol
    kcls = kind if L == 1 else "sub"
    ok = j.check("callsite_bad_result", gs.shape == (n, 2) and al.shape == stack.shape and bool(np.all(np.isfinite(gs))) and bool(np.all(np.isfinite(al))), lambda: "shifts %s aligned %s" % (gs.shape, al.shape), "callsite")
    if ok:
        d = T.wrap(gs + a, (M, N))  # total applied shift + own displacement = where the image ended up relative to base
        c = np.zeros(2) if mode == "reference" else d.mean(axis=0)  # pairwise mode fixes the stack only up to a common translation
        d = d - c
        worst = float(np.max(np.abs(d)))
        j.close("callsite_shift_error", worst, tol, lambda: "mode=%s levels=%s init=%s up=%d: total shifts %s, expected -a = %s (+ common %s)" % (mode, levels, spec["init"], up, gs.tolist()[:4], (-a).tolist()[:4], c.tolist()), "callsite", k=kcls)
        if worst <= tol:
            tgt = T.translate(base, c)
            for k in range(n):
                bound = math.pi * bw * float(np.sum(np.abs(d[k]))) + 5e-3
                j.close("callsite_aligned_not_reference", rel_l2(al[k], tgt), bound, lambda: "mode=%s levels=%s init=%s: aligned image %d is not the reference translated by the residual %s (initial guess %s)" % (mode, levels, spec["init"], k, d[k].tolist(), g[k].tolist()), "callsite", k=kcls)
        if ini_keep is not None and not torch.equal(ini, ini_keep):
            ctx.count("observed:initial_shifts_modified_in_place")
    ctx.nontrivial(("multiscale", mode, spec["init"], L, kind, up, dtype), True)
    ctx.observe(shape=[M, N], n=n, levels=list(levels), mode=mode, init=spec["init"], returned=gs.tolist()[:3], applied=a.tolist()[:3])


def run_case(spec, idx, ctx):
    with np.errstate(all="ignore"):
        if spec["kind"] == "est":
            _run_est(spec, idx, ctx)
        elif spec["kind"] == "multiscale":
            _run_multiscale(spec, idx, ctx)
        elif spec["kind"] == "history":
            _run_history(spec, idx, ctx)
        elif spec["kind"] == "tomo":
            _run_tomo(spec, idx, ctx)
        else:
            _run_dptycho(spec, idx, ctx)


def summarize(all_cases, counters, extras):
    return {
        "tolerances_px": {
            "sub_pixel": "1/up (up>1), 0.5 (up=1)",
            "integer_numpy_float64": 1e-8,
            "integer_numpy_float32": 1e-3,
            "integer_torch_float64": 1e-3,
            "integer_torch_float32": "min(1/up, max(2e-3, 1e-3*up))",
        },
        "measured_noise_floor_px": {
            "numpy_float64_integer": 1e-12,
            "numpy_float32_integer": 4e-6,
            "torch_float64_integer": 4e-6,
            "torch_float32_integer": "1e-5*up (6e-4 at up=64)",
            "sub_pixel_worst_by_factor_numpy_1500_pairs": {"1": 0.18, "2": 0.056, "3": 0.048, "4": 0.03, "8": 0.017, "16": 0.0073, "32": 0.0044, "64": 0.002},
            "sub_pixel_worst_by_factor_all_backends_3_thorough_runs": {"1": 0.37, "2": 0.36, "3": 0.12, "4": 0.047, "8": 0.025, "16": 0.012, "32": 0.008, "64": 0.0043},
            "note": "factors 1 and 2 are dominated by the torch port's half-pixel rounding (parabolic error + <= 0.25 px)",
        },
    }
