"""C09 — mini-batch scheduling: exact partition, batch invariance, seeded determinism.

Monitors
--------
(a) offline checker over the recorded yield log of the real ``SimpleBatcher`` driven directly over the
    parameter grid (n x batch x ratio x mode x shuffle x seed kind, explicit index arrays) and over the
    ranges produced by ``generate_batches`` / ``subdivide_batches``;
(b) in situ: wrappers on ``SimpleBatcher.__init__/__iter__/__len__/iter_val``, the dataset model's
    ``forward``, ``error_estimate`` and ``step_optimizers`` record, inside real
    ``Ptychography.reconstruct`` runs, which pattern indices the forward model actually consumed per
    epoch (with/without grad) — conservation: consumed multiset = train set, validation consumed under
    ``no_grad`` = validation set, one optimizer step per training batch, reported loss = mean of the
    per-batch losses;
(c) metamorphic: with lr = 0 SGD (state frozen) the mean over the batches of the per-batch loss and of the
    per-batch ``.grad`` equals the full-batch loss / gradient whenever the batch size divides the number
    of training patterns — through ``reconstruct`` and through the explicit forward chain;
(d) determinism: two builds from the same seed, and one build before / after ``reset=True``, give
    bitwise-equal ``iter_losses`` (single-threaded torch).
"""
from __future__ import annotations

import contextlib
import io

import numpy as np

PROPERTY = "C09"
LEVEL = "exploration"
ANCHOR_FILES = [
    "quantem/diffractive_imaging/ptycho_utils.py", "quantem/diffractive_imaging/ptychography.py", "quantem/diffractive_imaging/ptychography_base.py",
    "quantem/core/utils/rng.py", "quantem/core/utils/utils.py",
]
RULE = (
    "kinds: batcher (one case = every batch size 1..n+5 and None x 10 validation ratios x grid/random x shuffle on/off x seed kind for one n; exhaustive over "
    "(n, batch) for n <= 40 quick / 60 thorough; every third configuration additionally as a history on one instance: an epoch / validation pass abandoned after j "
    "batches by break, a caught exception, zip with a shorter range, close(), a never-started, two interleaved or a kept-alive iterator, followed by ordinary complete epochs), batcher_random (large n, continuous ratios, explicit train/val index arrays, generator objects), cover "
    "(generate_batches/subdivide_batches for all (n, num_batches | max_batch)), insitu (real reconstruct runs with recording wrappers: random scene, batch size incl. "
    "1 / non-dividing / larger than the set, ratio, mode, optimizer, loss), invariance (lr=0 SGD, all loss types, divisors of the training-set size, public path + "
    "explicit chain), determinism (same-seed twins, reset=True rerun). non-trivial = a configuration with >= 2 batches and (a partial last batch or a non-empty "
    "validation set); distinct = (kind, n, batch class, ratio, mode)"
)
ASSUMPTIONS = [
    "pattern counts n >= 1, validation ratios in [0,1); in reconstruct runs the training set is non-empty (round(n*ratio) < n)",
    "invariance is judged for autograd=True (the analytic-gradient path normalises every batch by its own probe overlap by design) and only when the batch size divides the number of training patterns",
    "float32 forward model: loss invariance bound 1e-4 relative (measured floor 2.8e-7); gradient invariance in relative L2 norm, bound 1e-3 for l1/l2 losses (floor 1.5e-6) "
    "and 1e-2 for the Poisson loss (floor 5.3e-5: its gradient factor 1 - target/pred cancels near the solution); a wrong batch fraction gives >= 0.5, one lost pattern >= 1/n >= 2.7e-2",
    "the invariance comparison is never made at the exact solution (object and probe both true), where the gradient is pure rounding noise",
    "determinism is judged bitwise with single-threaded torch on CPU, integer seeds passed to every model",
    "same-seed twins may differ by public calls between two reconstruct() calls that do not belong to the optimisation - save (zip/dir, with/without raw data), a save that "
    "raises FileExistsError, to('cpu'), the device setter, reading the public state, reconstruct(device='cpu') - all measured schedule-neutral on the unchanged tree (numpy "
    "generator state and histories unchanged); clone()/from_ptychography() are excluded because clone's save/reload fallback draws its temp-file name from the object's generator",
    "soft-constraint weights are zero where the reported loss is compared with the mean of the per-batch data losses",
]
BUDGET = {"quick": {"soft_s": 300, "workers": 14}, "thorough": {"soft_s": 1200, "workers": 14}}
MIN_EVALUATIONS = {"quick": 60, "thorough": 300}
# deciding monitors at the level of the property's observe_at (public batcher API, loss histories); the in-situ wrappers on internal names are additional
# observability: when one of them cannot be attached the sub-monitor is skipped and listed under hooks_missing (DESIGN section 1, robustness)
REQUIRED_COUNTERS = [
    "eval:epoch_not_permutation_of_train", "eval:len_differs_from_yielded", "eval:train_val_overlap", "eval:train_val_not_cover", "eval:val_iter_mismatch",
    "eval:reported_loss_batch_dependent", "eval:same_seed_history_differs", "eval:reset_history_differs", "eval:neutral_call_changes_history", "eval:ranges_not_contiguous_cover",
]
EXHAUSTIVE = {"quick": False, "thorough": False}

RATIOS = [0.0, 1e-9, 0.1, 0.25, 0.33, 0.5, 0.51, 0.75, 0.9, 0.99]
LOSSES = ["l2_amplitude", "l1_amplitude", "l2_intensity", "l1_intensity", "poisson"]
GPTS_RICH = [(3, 4), (4, 4), (3, 6), (4, 5), (4, 6), (5, 6), (2, 6), (3, 5), (6, 6), (1, 12), (8, 1)]
LOSS_TOL = 1e-4  # measured floor 2.8e-7 (float32 sums)
GRAD_TOL = 1e-3  # l1 / l2 losses: measured floor 1.5e-6
GRAD_TOL_POISSON = 1e-2  # the Poisson gradient carries the factor (1 - target / pred), which cancels near the solution: measured floor 5.3e-5


def plan(tier, seed):
    specs = []
    nmax = 40 if tier == "quick" else 60
    for n in range(1, nmax + 1):
        specs.append({"kind": "batcher", "n": n})
    for i in range(24 if tier == "quick" else 400):
        specs.append({"kind": "batcher_random", "i": i})
    step = 10 if tier == "quick" else 8
    top = 80 if tier == "quick" else 200
    for lo in range(1, top + 1, step):
        specs.append({"kind": "cover", "n_lo": lo, "n_hi": min(top, lo + step - 1)})
    ni, nv, nd = (56, 42, 42) if tier == "quick" else (2700, 1500, 1500)
    heavy = []
    for i in range(max(ni, nv, nd)):  # expensive kinds first and interleaved: round-robin sharding then balances the workers
        if i < nv:
            heavy.append({"kind": "invariance", "i": i})
        if i < nd:
            heavy.append({"kind": "determinism", "i": i})
        if i < ni:
            heavy.append({"kind": "insitu", "i": i})
    cheap = sorted(specs, key=lambda c: (c["kind"] != "batcher", -c.get("n", c.get("n_hi", 30))))  # largest batcher grid first (also the 4th evidence sample)
    # first four = one of each main kind (evidence samples); then the cheap offline cases (seconds in total, they carry deciding monitors and must not be
    # the ones dropped when an overloaded machine hits the soft budget); then the remaining expensive cases, interleaved by kind
    return heavy[:3] + cheap[:1] + cheap[1:] + heavy[3:]


# ------------------------------------------------------------------------------------------------
# recording wrappers (b)


class _Log:
    def __init__(self):
        self.active = False
        self.grads = False
        self.events = []

    def start(self, grads=False):
        self.events = []
        self.active = True
        self.grads = grads

    def stop(self):
        self.active = False
        ev, self.events = self.events, []
        return ev


def setup(ctx):
    import warnings

    warnings.filterwarnings("ignore")
    import torch
    from quantem.core.utils import utils as qutils
    from quantem.diffractive_imaging import dataset_models, ptycho_utils, ptychography, ptychography_base, ptychography_opt

    from vf import scenes
    from vf.hook import wrap

    log = _Log()
    ctx.state.update(log=log, scenes=scenes, SB=ptycho_utils.SimpleBatcher, qutils=qutils, torch=torch, Ptychography=ptychography.Ptychography)
    SB = ptycho_utils.SimpleBatcher

    def arg(a, k, pos, name):
        return a[pos] if len(a) > pos else k.get(name)

    def init_post(tok, a, k, res):
        if log.active:
            bt = a[0]
            log.events.append(("init", bt, np.array(bt.train_indices).copy(), np.array(bt.val_indices).copy(), int(bt.batch_size)))

    def iter_pre(a, k):
        if log.active:
            log.events.append(("iter",))

    def iterval_pre(a, k):
        if log.active:
            log.events.append(("iter_val",))

    def len_post(tok, a, k, res):
        if log.active:
            log.events.append(("len", int(res)))

    def fwd_pre(a, k):
        if log.active:
            bi = arg(a, k, 1, "batch_indices")
            bi = bi.detach().cpu().numpy() if hasattr(bi, "detach") else np.asarray(bi)
            log.events.append(("fwd", np.array(bi).copy(), bool(torch.is_grad_enabled())))

    def err_post(tok, a, k, res):
        if log.active:
            bi = arg(a, k, 2, "batch_indices")
            bi = bi.detach().cpu().numpy() if hasattr(bi, "detach") else np.asarray(bi)
            pred = arg(a, k, 1, "pred_intensities")
            log.events.append(("err", np.array(bi).copy(), bool(torch.is_grad_enabled()), float(res[0].detach()), int(pred.shape[0])))

    def step_pre(a, k):
        if log.active:
            g = None
            if log.grads:
                g = {}
                for key, opt in a[0].optimizers.items():
                    g[key] = [None if p.grad is None else p.grad.detach().clone() for grp in opt.param_groups for p in grp["params"]]
            log.events.append(("step", g))

    from vf import reconhelp

    reconhelp.warm_and_freeze()  # before the wrappers are attached: the warm-up run is not monitored
    wrap(SB, "__init__", post=init_post, ctx=ctx)
    wrap(SB, "__iter__", pre=iter_pre, ctx=ctx)
    wrap(SB, "iter_val", pre=iterval_pre, ctx=ctx)
    wrap(SB, "__len__", post=len_post, ctx=ctx)
    wrap(dataset_models.PtychographyDatasetRaster, "forward", pre=fwd_pre, ctx=ctx)
    wrap(ptychography_base.PtychographyBase, "error_estimate", post=err_post, ctx=ctx)
    wrap(ptychography_opt.PtychographyOpt, "step_optimizers", pre=step_pre, ctx=ctx)


# ------------------------------------------------------------------------------------------------
# classifiers


def _ratio_class(r):
    return "zero" if r <= 0 else ("tiny" if r < 1e-3 else ("le_half" if r <= 0.5 else "gt_half"))


def _batch_class(b, ntrain):
    if b is None:
        return "none"
    if ntrain <= 0:
        return "empty_train"
    if b >= ntrain:
        return "ge_n"
    if b == 1:
        return "one"
    return "divides" if ntrain % b == 0 else "partial"


def _ms(x):
    return sorted(int(v) for v in np.asarray(x).ravel().tolist())


# ------------------------------------------------------------------------------------------------
# (a) offline checker over the yield log of a directly driven batcher


def _drive(bt, epochs=2):
    """record everything a consumer of the batcher can see"""
    log = {"train0": np.array(bt.train_indices).copy(), "val0": np.array(bt.val_indices).copy(), "epochs": [], "lens": [], "val": [], "val_lens": [], "has_val": []}
    for _ in range(epochs):
        log["lens"].append(len(bt))
        log["epochs"].append([np.array(b).copy() for b in bt])
        log["has_val"].append(bool(bt.has_validation))
        log["val_lens"].append(int(bt.val_len()))
        log["val"].append([np.array(b).copy() for b in bt.iter_val()])
    log["lens"].append(len(bt))
    log["train1"] = np.array(bt.train_indices).copy()
    log["val1"] = np.array(bt.val_indices).copy()
    return log


def _judge_batcher(ctx, n, log, f, expect_train=None, expect_val=None):
    """pure function of the recorded log; returns (n_batches, partial_last, n_val)"""
    tr, va = _ms(log["train0"]), _ms(log["val0"])
    ctx.check(not (set(tr) & set(va)), "train_val_overlap", lambda: "n=%d train=%s val=%s" % (n, tr[:12], va[:12]), **f)
    ctx.check(sorted(tr + va) == list(range(n)), "train_val_not_cover", lambda: "n=%d train+val=%s" % (n, sorted(tr + va)[:20]), **f)
    ctx.check(_ms(log["train1"]) == tr and _ms(log["val1"]) == va, "split_changed_during_lifetime", "train/val sets differ after iterating", **f)
    if expect_train is not None:
        ctx.check(tr == _ms(expect_train) and va == _ms(expect_val), "explicit_split_not_used", lambda: "given train=%s val=%s, batcher has train=%s val=%s" % (_ms(expect_train)[:10], _ms(expect_val)[:10], tr[:10], va[:10]), **f)
    nb = 0
    partial = False
    for e, batches in enumerate(log["epochs"]):
        got = _ms(np.concatenate(batches)) if batches else []
        if got != tr:
            missing = sorted(set(tr) - set(got))
            dup = sorted(set(x for x in got if got.count(x) > 1))
            foreign = sorted(set(got) - set(tr))
            ctx.check(False, "epoch_not_permutation_of_train", "n=%d epoch %d: missing=%s duplicated=%s foreign=%s (batch=%s)" % (n, e, missing[:8], dup[:8], foreign[:8], f.get("batch")),
                      lost=bool(missing), duplicated=bool(dup), foreign=bool(foreign), **f)
        else:
            ctx.check(True, "epoch_not_permutation_of_train")
        ctx.check(log["lens"][e] == len(batches) and log["lens"][e + 1] == len(batches), "len_differs_from_yielded", lambda: "n=%d len(batcher)=%s but %d batches were yielded (train=%d, batch=%s)" % (n, log["lens"][e], len(batches), len(tr), f.get("batch")), **f)
        nb = len(batches)
        sizes = [len(b) for b in batches]
        partial = len(set(sizes)) > 1
        vb = log["val"][e]
        gotv = _ms(np.concatenate(vb)) if vb else []
        ctx.check(gotv == va, "val_iter_mismatch", lambda: "n=%d iter_val yielded %s, validation set is %s" % (n, gotv[:12], va[:12]), **f)
        ctx.check(log["val_lens"][e] == len(vb), "val_len_differs_from_yielded", lambda: "val_len()=%s, iter_val yielded %d batches" % (log["val_lens"][e], len(vb)), **f)
        ctx.check(log["has_val"][e] == (len(va) > 0), "has_validation_wrong", "has_validation=%s with %d validation indices" % (log["has_val"][e], len(va)), **f)
    return nb, partial, len(va)


def _same_logs(a, b):
    if not (np.array_equal(a["train0"], b["train0"]) and np.array_equal(a["val0"], b["val0"])):
        return False
    for ea, eb in zip(a["epochs"], b["epochs"]):
        if len(ea) != len(eb) or any(not np.array_equal(x, y) for x, y in zip(ea, eb)):
            return False
    return True


ABANDON = ["break", "exception", "zip", "close", "never_started", "interleaved", "kept_alive", "val_break", "val_interleaved"]


class _Abort(Exception):
    pass


def _abandoned_history(ctx, n, bt, mode, j, f):
    """leave an epoch (or a validation pass) of `bt` unfinished after ~j batches the way a caller can (break, an exception raised in the loop body and
    caught, zip against a shorter range, an explicitly closed / never started / still alive iterator, two interleaved iterators), then run ordinary
    complete epochs on the same instance.  Every *complete* pass - the ordinary epochs afterwards and each interleaved / kept-alive iterator consumed to
    its end - is judged by the usual predicates; returns the log of the ordinary epochs."""
    tr, va = _ms(bt.train_indices), _ms(bt.val_indices)
    passes, vpasses = [], []  # complete passes made by iterators that overlapped in time
    if mode == "break":
        cnt = 0
        for _b in bt:
            cnt += 1
            if cnt >= j:
                break
    elif mode == "exception":
        cnt = 0
        try:
            for _b in bt:
                cnt += 1
                if cnt >= j:
                    raise _Abort()
        except _Abort:
            pass
    elif mode == "zip":
        list(zip(range(j), bt))  # j == len(bt): every batch is consumed but the iterator never sees its own end
    elif mode == "close":
        it = iter(bt)
        for _ in range(j):
            next(it, None)
        it.close()
    elif mode == "never_started":
        it = iter(bt)  # noqa: F841  (created, not advanced, dropped)
        del it
    elif mode == "interleaved":
        g1, g2 = iter(bt), iter(bt)
        a, c = [], []
        live = [(g1, a), (g2, c)]
        while live:
            for g, out in list(live):
                x = next(g, None)
                if x is None:
                    live.remove((g, out))
                else:
                    out.append(np.array(x).copy())
        passes = [a, c]
    elif mode == "kept_alive":
        g = iter(bt)
        first = [np.array(x).copy() for x in (next(g, None) for _ in range(j)) if x is not None]
        middle = [np.array(x).copy() for x in bt]  # a complete epoch while the older iterator is still alive
        rest = [np.array(x).copy() for x in g]
        passes = [middle, first + rest]
    elif mode == "val_break":
        cnt = 0
        for _b in bt.iter_val():
            cnt += 1
            if cnt >= j:
                break
    elif mode == "val_interleaved":
        v1, v2 = bt.iter_val(), bt.iter_val()
        a, c = [], []
        live = [(v1, a), (v2, c)]
        while live:
            for g, out in list(live):
                x = next(g, None)
                if x is None:
                    live.remove((g, out))
                else:
                    out.append(np.array(x).copy())
        vpasses = [a, c]
    for k, batches in enumerate(passes):
        got = _ms(np.concatenate(batches)) if batches else []
        ctx.check(got == tr, "epoch_not_permutation_of_train", lambda: "n=%d %s iterator %d consumed to its end yielded %s..., train set has %d patterns (batch=%s)" % (n, mode, k, got[:10], len(tr), f.get("batch")),
                  lost=bool(set(tr) - set(got)), duplicated=len(got) != len(set(got)), foreign=bool(set(got) - set(tr)), **f)
        ctx.check(len(batches) == len(bt), "len_differs_from_yielded", lambda: "n=%d %s iterator %d yielded %d batches, len(batcher)=%d" % (n, mode, k, len(batches), len(bt)), **f)
    for k, batches in enumerate(vpasses):
        got = _ms(np.concatenate(batches)) if batches else []
        ctx.check(got == va, "val_iter_mismatch", lambda: "n=%d %s validation iterator %d yielded %s, validation set is %s" % (n, mode, k, got[:10], va[:10]), **f)
        ctx.check(len(batches) == bt.val_len(), "val_len_differs_from_yielded", lambda: "val_len()=%d, iterator %d yielded %d" % (bt.val_len(), k, len(batches)), **f)
    ctx.count("batcher_abandoned_histories")
    ctx.count("batcher_abandoned_histories:" + mode)
    log = _drive(bt)
    _judge_batcher(ctx, n, log, f)
    return log


def _abandon_point(sel, nb):
    return [0, 1, max(1, nb // 2), max(1, nb - 1), nb, nb + 1][sel % 6]


def _mk_rng(kind, s):
    if kind == "int":
        return int(s)
    if kind == "generator":
        return np.random.default_rng(int(s))
    return None


def _run_batcher(spec, idx, ctx):
    SB = ctx.state["SB"]
    n = spec["n"]
    rng = ctx.rng(idx)
    configs = 0
    nontriv = set()
    for b in list(range(1, n + 6)) + [None]:
        for r in RATIOS:
            for mode in ("grid", "random"):
                for sh in (True, False):
                    kind = ("int", "generator", "none")[(configs + idx) % 3]
                    s = int(rng.integers(1 << 31))
                    bt = SB(n, b, shuffle=sh, rng=_mk_rng(kind, s), val_ratio=r, val_mode=mode)
                    log = _drive(bt)
                    f = {"source": "offline", "mode": mode, "shuffle": sh, "ratio_class": _ratio_class(r), "batch_class": _batch_class(b, len(log["train0"])), "seed_kind": kind, "batch": b, "ratio": r}
                    nb, partial, nval = _judge_batcher(ctx, n, log, f)
                    if kind != "none":
                        log2 = _drive(SB(n, b, shuffle=sh, rng=_mk_rng(kind, s), val_ratio=r, val_mode=mode))
                        ctx.check(_same_logs(log, log2), "same_seed_schedule_differs", lambda: "n=%d batch=%s ratio=%s mode=%s: two batchers from seed %d yield different schedules" % (n, b, r, mode, s), **f)
                    if (configs + idx) % 3 == 0:
                        amode = ABANDON[(configs // 3) % len(ABANDON)]
                        _abandoned_history(ctx, n, SB(n, b, shuffle=sh, rng=_mk_rng(kind, s), val_ratio=r, val_mode=mode), amode, _abandon_point(configs // 27 + configs // 3, nb), dict(f, history=amode))
                    configs += 1
                    if nb >= 2 and (partial or nval > 0):
                        nontriv.add((n, b, r, mode))
    ctx.count("batcher_configs", configs)
    ctx.count("batcher_configs_nontrivial", len(nontriv))
    ctx.nontrivial(("batcher", n), len(nontriv) > 0)
    ctx.observe(n=n, configs=configs, nontrivial_configs=len(nontriv))


def _run_batcher_random(spec, idx, ctx):
    SB = ctx.state["SB"]
    rng = ctx.rng(idx)
    configs = 0
    nontriv = set()
    big = 4000 if ctx.tier == "thorough" else 600
    for _ in range(40):
        n = int(rng.integers(1, big)) if rng.random() < 0.5 else int(rng.integers(1, 80))
        b = [None, 1, n, n + 1, int(rng.integers(1, n + 6)), int(rng.integers(1, max(2, n // 3 + 1)))][int(rng.integers(6))]
        r = float(rng.choice([0.0, float(rng.uniform(0, 0.999)), float(rng.uniform(0, 0.999)), float(rng.uniform(0, 0.05)), float(rng.uniform(0.95, 0.999)), 1.0 / max(2, int(rng.integers(2, 12)))]))
        mode = "grid" if rng.random() < 0.5 else "random"
        sh = bool(rng.random() < 0.7)
        kind = ("int", "generator", "none")[int(rng.integers(3))]
        s = int(rng.integers(1 << 31))
        explicit = rng.random() < 0.3
        kw = {}
        et = ev = None
        if explicit:
            perm = rng.permutation(n)
            nv = int(rng.integers(0, n))  # at least one training index
            ev, et = perm[:nv], perm[nv:]
            if rng.random() < 0.5:
                et = et.tolist()
                ev = ev.tolist()
            kw = {"train_indices": et, "val_indices": ev}
        bt = SB(n, b, shuffle=sh, rng=_mk_rng(kind, s), val_ratio=r, val_mode=mode, **kw)
        log = _drive(bt, epochs=3)
        f = {"source": "offline", "mode": "explicit" if explicit else mode, "shuffle": sh, "ratio_class": _ratio_class(r), "batch_class": _batch_class(b, len(log["train0"])), "seed_kind": kind, "batch": b, "ratio": r}
        nb, partial, nval = _judge_batcher(ctx, n, log, f, et, ev)
        if kind != "none":
            if explicit:
                kw = {"train_indices": et, "val_indices": ev}
            log2 = _drive(SB(n, b, shuffle=sh, rng=_mk_rng(kind, s), val_ratio=r, val_mode=mode, **kw), epochs=3)
            ctx.check(_same_logs(log, log2), "same_seed_schedule_differs", lambda: "n=%d batch=%s ratio=%s mode=%s" % (n, b, r, mode), **f)
        amode = ABANDON[int(rng.integers(len(ABANDON)))]
        if explicit:
            kw = {"train_indices": et, "val_indices": ev}
        _abandoned_history(ctx, n, SB(n, b, shuffle=sh, rng=_mk_rng(kind, s), val_ratio=r, val_mode=mode, **kw), amode, _abandon_point(int(rng.integers(6)), nb), dict(f, history=amode))
        if sh and kind != "none" and len(log["train0"]) >= 8:
            ctx.count("shuffled_epochs")
            if _ms(log["epochs"][0][0]) != _ms(log["epochs"][1][0]) or not np.array_equal(np.concatenate(log["epochs"][0]), np.concatenate(log["epochs"][1])):
                ctx.count("shuffled_epochs_with_different_order")
        configs += 1
        if nb >= 2 and (partial or nval > 0):
            nontriv.add((n, b, round(r, 6), "explicit" if explicit else mode))
    ctx.count("batcher_configs", configs)
    ctx.count("batcher_configs_nontrivial", len(nontriv))
    ctx.nontrivial(("batcher_random", spec["i"]), len(nontriv) > 0)
    ctx.observe(configs=configs, nontrivial_configs=len(nontriv))


def _run_cover(spec, idx, ctx):
    q = ctx.state["qutils"]
    rng = ctx.rng(idx)
    calls = 0
    nontriv = 0
    for n in range(spec["n_lo"], spec["n_hi"] + 1):
        for which in ("num_batches", "max_batch"):
            for v in range(1, n + (1 if which == "num_batches" else 6)):
                start = int(rng.integers(0, 50)) if (v + n) % 3 == 0 else 0
                f = {"source": "offline", "which": which, "start": "offset" if start else "zero"}
                ranges = list(q.generate_batches(n, start_index=start, **{which: v}))
                sizes = q.subdivide_batches(n, **{which: v})
                ok = len(ranges) > 0 and ranges[0][0] == start and ranges[-1][1] == start + n and all(a < b for a, b in ranges) and all(ranges[i][1] == ranges[i + 1][0] for i in range(len(ranges) - 1))
                ctx.check(ok, "ranges_not_contiguous_cover", lambda: "generate_batches(%d, %s=%d, start_index=%d) -> %s" % (n, which, v, start, ranges[:8]), **f)
                ctx.check(sum(sizes) == n and all(s > 0 for s in sizes) and [b - a for a, b in ranges] == list(sizes), "sizes_do_not_sum_to_n", lambda: "subdivide_batches(%d, %s=%d) -> %s" % (n, which, v, sizes[:10]), **f)
                if which == "num_batches":
                    ctx.check(len(ranges) == v, "len_differs_from_yielded", lambda: "generate_batches(%d, num_batches=%d) yielded %d ranges" % (n, v, len(ranges)), **f)
                calls += 1
                nontriv += len(ranges) >= 2 and len(set(sizes)) > 1
    ctx.count("cover_calls", calls)
    ctx.nontrivial(("cover", spec["n_lo"]), nontriv > 0)
    ctx.observe(n_lo=spec["n_lo"], n_hi=spec["n_hi"], calls=calls, uneven_multi_batch=int(nontriv))


# ------------------------------------------------------------------------------------------------
# (b) in situ judgement of one recorded reconstruct() call


def _recon(ctx, pt, grads=False, **kw):
    """one monitored reconstruct() call -> (events, history lengths before the call)"""
    log = ctx.state["log"]
    before = (0, 0) if kw.get("reset") else (len(pt.iter_losses), len(pt.val_iter_losses))
    log.start(grads=grads)
    try:
        with contextlib.redirect_stdout(io.StringIO()):
            pt.reconstruct(**kw)
    finally:
        ev = log.stop()
    return ev, before


def _parse(ev):
    inits = [e for e in ev if e[0] == "init"]
    epochs = []
    cur = None
    phase = None
    stray = 0
    for e in ev:
        if e[0] == "iter":
            cur = {"train_fwd": [], "train_err": [], "train_step": [], "len": None, "val_fwd": [], "val_err": [], "val_step": [], "val_started": False}
            epochs.append(cur)
            phase = "train"
        elif e[0] == "init":
            continue
        elif cur is None:
            stray += 1
        elif e[0] == "iter_val":
            phase = "val"
            cur["val_started"] = True
        elif e[0] in ("fwd", "err", "step"):
            cur["%s_%s" % (phase, e[0])].append(e)
        elif e[0] == "len" and cur["len"] is None:
            cur["len"] = e[1]
    return inits, epochs, stray


def _judge_run(ctx, pt, rec, J, num_iters, f, soft=False):
    """conservation monitor over the event log of one reconstruct() call; returns a summary dict"""
    ev, (losses_before, val_before) = rec
    inits, epochs, _stray = _parse(ev)
    hooks_ok = not ctx.hooks_missing
    if not hooks_ok or not inits:
        ctx.count("insitu_log_unavailable")
        return None
    _tag, bt, tr0, va0, bsz = inits[-1]
    tr, va = _ms(tr0), _ms(va0)
    f = dict(f, source="insitu", batch_class=_batch_class(bsz, len(tr)))
    ctx.check(not (set(tr) & set(va)), "train_val_overlap", lambda: "J=%d train=%s val=%s" % (J, tr[:12], va[:12]), **f)
    ctx.check(sorted(tr + va) == list(range(J)), "train_val_not_cover", lambda: "J=%d train+val=%s" % (J, sorted(tr + va)[:20]), **f)
    ctx.check(_ms(bt.train_indices) == tr and _ms(bt.val_indices) == va, "split_changed_during_lifetime", "train/val sets differ after the run", **f)
    ctx.check(len(epochs) == num_iters, "epoch_count_mismatch", "%d epochs observed for num_iters=%d" % (len(epochs), num_iters), **f)
    il = [float(x) for x in pt.iter_losses][losses_before:]
    vl = [float(x) for x in pt.val_iter_losses][val_before:]
    ctx.check(len(il) == num_iters, "history_length_mismatch", "iter_losses grew by %d for num_iters=%d" % (len(il), num_iters), **f)
    ctx.check(len(vl) == (num_iters if va else 0), "val_history_length_mismatch", "val_iter_losses grew by %d for num_iters=%d, %d validation patterns" % (len(vl), num_iters, len(va)), **f)
    for e, ep in enumerate(epochs):
        got = _ms(np.concatenate([x[1] for x in ep["train_fwd"]])) if ep["train_fwd"] else []
        if got != tr:
            missing = sorted(set(tr) - set(got))
            dup = sorted(set(x for x in got if got.count(x) > 1))
            foreign = sorted(set(got) - set(tr))
            ctx.check(False, "consumed_train_mismatch", "epoch %d: forward model consumed a multiset != train set: missing=%s duplicated=%s foreign=%s (J=%d batch=%d)" % (e, missing[:8], dup[:8], foreign[:8], J, bsz),
                      lost=bool(missing), duplicated=bool(dup), foreign=bool(foreign), **f)
        else:
            ctx.check(True, "consumed_train_mismatch")
        ctx.check(all(x[2] for x in ep["train_fwd"]), "training_forward_without_grad", "epoch %d" % e, **f)
        lock = len(ep["train_fwd"]) == len(ep["train_err"]) and all(np.array_equal(a[1], b[1]) and b[4] == len(a[1]) for a, b in zip(ep["train_fwd"], ep["train_err"]))
        ctx.check(lock, "loss_indices_differ_from_forward_indices", "epoch %d: error_estimate was not called with the indices / number of patterns that were forwarded" % e, **f)
        nfw = len(ep["train_fwd"])
        ctx.check(len(ep["train_step"]) == nfw, "optimizer_steps_differ_from_batches", "epoch %d: %d optimizer steps for %d training batches" % (e, len(ep["train_step"]), nfw), **f)
        ctx.check(ep["len"] == nfw, "len_differs_from_yielded", "epoch %d: len(batcher)=%s, %d training batches consumed (train=%d batch=%d)" % (e, ep["len"], nfw, len(tr), bsz), **f)
        gotv = _ms(np.concatenate([x[1] for x in ep["val_fwd"]])) if ep["val_fwd"] else []
        ctx.check(gotv == va, "consumed_val_mismatch", lambda: "epoch %d: validation pass consumed %s, validation set is %s" % (e, gotv[:12], va[:12]), **f)
        ctx.check(all(not x[2] for x in ep["val_fwd"]) and all(not x[2] for x in ep["val_err"]), "validation_with_grad", "epoch %d: validation forward ran with autograd enabled" % e, **f)
        ctx.check(len(ep["val_step"]) == 0, "optimizer_step_in_validation", "epoch %d: %d optimizer steps during the validation pass" % (e, len(ep["val_step"])), **f)
        vlock = len(ep["val_fwd"]) == len(ep["val_err"]) and all(np.array_equal(a[1], b[1]) for a, b in zip(ep["val_fwd"], ep["val_err"]))
        ctx.check(vlock, "loss_indices_differ_from_forward_indices", "epoch %d (validation)" % e, **f)
        if not soft and e < len(il) and ep["train_err"]:
            mean = sum(x[3] for x in ep["train_err"]) / len(ep["train_err"])
            ctx.close(abs(il[e] - mean) / max(abs(mean), 1e-30), 1e-9, "reported_loss_not_mean_of_batch_losses", lambda: "epoch %d: iter_losses=%r, mean of %d per-batch losses=%r" % (e, il[e], len(ep["train_err"]), mean), **f)
        if e < len(vl) and ep["val_err"]:
            mean = sum(x[3] for x in ep["val_err"]) / len(ep["val_err"])
            ctx.close(abs(vl[e] - mean) / max(abs(mean), 1e-30), 1e-9, "reported_val_loss_not_mean_of_batch_losses", lambda: "epoch %d: val loss=%r, mean of per-batch=%r" % (e, vl[e], mean), **f)
    ctx.count("insitu_epochs", len(epochs))
    nb = len(epochs[0]["train_fwd"]) if epochs else 0
    sizes = [len(x[1]) for x in epochs[0]["train_fwd"]] if epochs else []
    return {"train": tr, "val": va, "batch": bsz, "n_batches": nb, "partial": len(set(sizes)) > 1, "epochs": epochs}


def _draw_scene(ctx, rng, gpts=None, slices=None, modes=None, obj_type=None, roi_max=13):
    scenes = ctx.state["scenes"]
    kw = {"gpts": gpts if gpts is not None else (int(rng.integers(2, 7)), int(rng.integers(2, 7))), "roi": (int(rng.integers(8, roi_max)), int(rng.integers(8, roi_max))),
          "num_slices": slices if slices is not None else int(rng.choice([1, 1, 2])), "num_modes": modes if modes is not None else int(rng.choice([1, 1, 2, 3])),
          "pad_req": (int(rng.integers(0, 5)), int(rng.integers(0, 5)))}
    # a one-line scan has zero extent along that axis: the object canvas then consists of the padding alone
    kw["pad_req"] = tuple(max(p, 1) if g == 1 else p for p, g in zip(kw["pad_req"], kw["gpts"]))
    if obj_type:
        kw["obj_type"] = obj_type
    sc = scenes.make_scene(rng, **kw)
    return sc, scenes.simulate_scene(sc)


def _valid_ratio(rng, J, mode):
    for _ in range(50):
        r = float(rng.choice([0.0, 0.0, 0.1, 0.2, 0.25, 0.33, 0.5, 0.51, 0.75, 0.9, float(rng.uniform(0.02, 0.95))]))
        nval = int(round(J * r))
        if nval < J:  # at least one training pattern (see ASSUMPTIONS)
            return r
    return 0.0


def _opt(rng, lr0=False, dataset=False):
    t = ["sgd", "adam", "adamw"][int(rng.integers(3))]
    op = {"object": {"type": "sgd", "lr": 0.0} if lr0 else {"type": t, "lr": float(10 ** rng.uniform(-3, -1.5)) * (20 if t == "sgd" else 1)},
          "probe": {"type": "sgd", "lr": 0.0} if lr0 else {"type": t, "lr": float(10 ** rng.uniform(-4, -2.5))}}
    if dataset:
        op["dataset"] = {"type": "sgd", "lr": 0.0} if lr0 else {"type": "adam", "lr": 1e-3}
    return op


def _run_insitu(spec, idx, ctx):
    scenes = ctx.state["scenes"]
    rng = ctx.rng(idx)
    sc, I = _draw_scene(ctx, rng)
    J = int(np.prod(sc.gpts))
    mode = "grid" if rng.random() < 0.5 else "random"
    ratio = _valid_ratio(rng, J, mode)
    dataset = rng.random() < 0.25
    pt = scenes.build_library(sc, I, seed=int(rng.integers(1 << 30)), obj_init="uniform", install_truth=bool(rng.random() < 0.5), val_ratio=ratio, val_mode=mode, learn_descan=dataset)
    ntrain_guess = J - int(round(J * ratio))
    bsizes = [1, J + int(rng.integers(0, 4)), int(rng.integers(1, J + 1)), int(rng.integers(2, max(3, ntrain_guess)))]
    b = int(bsizes[spec["i"] % len(bsizes)])
    lt = LOSSES[int(rng.integers(len(LOSSES)))]
    iters = int(rng.integers(2, 4))
    f = {"mode": mode, "ratio_class": _ratio_class(ratio), "loss": lt}
    ev = _recon(ctx, pt, num_iters=iters, reset=True, optimizer_params=_opt(rng, dataset=dataset), batch_size=b, loss_type=lt)
    s = _judge_run(ctx, pt, ev, J, iters, f)
    # a second call on the same object: batch_size=None must keep the previous batch size, histories extend
    iters2 = int(rng.integers(1, 3))
    b2 = None if rng.random() < 0.5 else int(rng.integers(1, J + 2))
    ev2 = _recon(ctx, pt, num_iters=iters2, batch_size=b2, loss_type=lt)
    s2 = _judge_run(ctx, pt, ev2, J, iters2, f)
    if s is None:
        return
    if s2 is not None and b2 is None:
        ctx.check(s2["batch"] == s["batch"], "batch_size_none_changed_batch_size", "batch_size=None after batch_size=%d used %d" % (s["batch"], s2["batch"]), **f)
    ctx.nontrivial(("insitu", J, _batch_class(s["batch"], len(s["train"])), round(ratio, 3), mode), s["n_batches"] >= 2 and (s["partial"] or len(s["val"]) > 0))
    ctx.observe(scene=sc.describe(), J=J, batch=b, ratio=ratio, mode=mode, loss=lt, n_train=len(s["train"]), n_val=len(s["val"]), batches_per_epoch=s["n_batches"], iter_losses=[float(x) for x in pt.iter_losses])


# ------------------------------------------------------------------------------------------------
# (c) loss / gradient invariance


def _gnorm(ts):
    torch = __import__("torch")
    return float(torch.sqrt(sum((t.abs() ** 2).sum().double() for t in ts)))


def _mean_grads(steps):
    """steps: list of {'key': [tensors]} -> {'key': [mean tensors]}"""
    out = {}
    for key in steps[0]:
        out[key] = []
        for j in range(len(steps[0][key])):
            if steps[0][key][j] is None:
                out[key].append(None)
                continue
            acc = steps[0][key][j].clone().double() if not steps[0][key][j].is_complex() else steps[0][key][j].clone().to(__import__("torch").complex128)
            for s in steps[1:]:
                acc = acc + s[key][j]
            out[key].append(acc / len(steps))
    return out


def _grad_rel(a, b):
    """relative L2 distance of two gradient dicts entry -> list of tensors; returns {key: rel}"""
    out = {}
    for key in b:
        pa = [x for x in a[key] if x is not None]
        pb = [x for x in b[key] if x is not None]
        if len(pa) != len(pb) or not pb:
            out[key] = float("inf")
            continue
        num = _gnorm([x - y for x, y in zip(pa, pb)])
        den = _gnorm(pb)
        out[key] = num / den if den > 0 else (0.0 if num == 0 else float("inf"))
    return out


def _divisors(n):
    return [d for d in range(1, n + 1) if n % d == 0]


def _run_invariance(spec, idx, ctx):
    scenes = ctx.state["scenes"]
    rng = ctx.rng(idx)
    gpts = GPTS_RICH[int(rng.integers(len(GPTS_RICH)))]
    sc, I = _draw_scene(ctx, rng, gpts=gpts, roi_max=12)
    J = int(np.prod(sc.gpts))
    mode = "grid" if rng.random() < 0.5 else "random"
    ratio = float(rng.choice([0.0, 0.0, 0.25, 0.5, 0.2, 0.34]))
    if int(round(J * ratio)) >= J:
        ratio = 0.0
    dataset = rng.random() < 0.3
    seed = int(rng.integers(1 << 30))
    # never the exact solution (object and probe both true): the gradient there is rounding noise and a relative comparison is meaningless
    init, truth = [("uniform", False), ("uniform", True), (None, False)][int(rng.integers(3))]
    pt = scenes.build_library(sc, I, seed=seed, obj_init=init, install_truth=truth, val_ratio=ratio, val_mode=mode, learn_descan=dataset)
    if rng.random() < 0.4:  # soft constraints are part of every batch loss: the invariance must survive them
        cons = {"object": {"tv_weight_xy": 1e-2}, "probe": {"tv_weight": 1e-3}}
    else:
        cons = {}
    op = _opt(rng, lr0=True, dataset=dataset)
    keys = list(op)
    quick = ctx.tier == "quick"
    losses = LOSSES if not quick else [LOSSES[i] for i in sorted(set([int(rng.integers(4)), int(rng.integers(4)), 4]))]
    worst = {"loss": 0.0, "grad": 0.0, "chain_loss": 0.0, "chain_grad": 0.0}
    nb_seen = 0
    ntrain = None
    obj0, prb0 = pt.obj.copy(), pt.probe.copy()
    for lt in losses:
        f = {"mode": mode, "ratio_class": _ratio_class(ratio), "loss": lt, "soft": bool(cons)}

        def run(b):
            pt.rng = seed  # same split (random mode draws it from the run's rng) for every batch size
            ev = _recon(ctx, pt, grads=True, num_iters=1, optimizer_params={k: dict(v) for k, v in op.items()}, constraints=cons, batch_size=b, loss_type=lt)
            s = _judge_run(ctx, pt, ev, J, 1, f, soft=bool(cons))
            il = float(pt.iter_losses[-1])
            if s is None:  # recording wrappers unavailable (see hooks_missing): only the public loss history can be compared
                return None, [il], [], il
            ep = s["epochs"][0]
            Ls = [x[3] for x in ep["train_err"]]
            gs = [x[1] for x in ep["train_step"]]
            return s, Ls, gs, il

        s_full, L_full, g_full, il_full = run(J + 2)  # larger than the set: one batch holding the whole training set
        if s_full is None:
            # public-level fallback: the reported loss must not depend on a batch size that divides the pattern count (no validation split known)
            if ratio == 0.0:
                ntrain = J
                scale = max(abs(il_full), float(J)) if lt == "poisson" else max(abs(il_full), 1e-30)
                for b in [d for d in _divisors(J) if d < J][:3]:
                    _s, _L, _g, il = run(b)
                    nb_seen = max(nb_seen, J // b)
                    ctx.close(abs(il - il_full) / scale, LOSS_TOL, "reported_loss_batch_dependent", lambda: "%s: iter_losses with batch=%d: %.8g, full batch: %.8g" % (lt, b, il, il_full), track=lt, **dict(f, batch_class=_batch_class(b, J)))
            continue
        ntrain = len(s_full["train"])
        if ntrain < 1 or len(L_full) != 1:
            ctx.check(len(L_full) == 1, "oversized_batch_not_single", "batch_size=%d > %d training patterns produced %d batches" % (J + 2, ntrain, len(L_full)), **f)
            continue
        gF = g_full[0]
        divs = [d for d in _divisors(ntrain) if d < ntrain]
        if quick and len(divs) > 2:
            divs = sorted(set([divs[0], divs[int(rng.integers(1, len(divs)))]]))
        scale = max(abs(L_full[0]), float(J)) if lt == "poisson" else max(abs(L_full[0]), 1e-30)
        for b in divs + [ntrain]:
            s, Ls, gs, il = run(b)
            if s["train"] != s_full["train"]:
                ctx.count("invariance_split_changed")  # cannot compare different training sets
                continue
            fb = dict(f, batch_class=_batch_class(b, ntrain))
            nb_seen = max(nb_seen, len(Ls))
            ctx.check(len(Ls) == ntrain // b, "len_differs_from_yielded", "batch=%d divides %d but %d batches ran" % (b, ntrain, len(Ls)), **fb)
            m = sum(Ls) / len(Ls)
            r = abs(m - L_full[0]) / scale
            worst["loss"] = max(worst["loss"], r)
            ctx.close(r, LOSS_TOL, "batch_loss_mean_differs", lambda: "%s: mean of %d per-batch losses (batch=%d) = %.8g, full batch (n=%d) = %.8g" % (lt, len(Ls), b, m, ntrain, L_full[0]), track=lt, **fb)
            ctx.close(abs(il - il_full) / max(abs(il_full), scale if lt == "poisson" else 1e-30), LOSS_TOL, "reported_loss_batch_dependent", lambda: "%s: iter_losses with batch=%d: %.8g, full batch: %.8g" % (lt, b, il, il_full), track=lt, **fb)
            gm = _mean_grads(gs)
            for key, rel in _grad_rel(gm, gF).items():
                worst["grad"] = max(worst["grad"], rel)
                ctx.close(rel, GRAD_TOL_POISSON if lt == "poisson" else GRAD_TOL, "batch_gradient_mean_differs", lambda: "%s: |mean of %d per-batch %s gradients - full-batch gradient| / |full| (batch=%d, n=%d)" % (lt, len(gs), key, b, ntrain), track="%s:%s" % (lt, key), param=key, **fb)
        # explicit chain (observe_at): same partition as the last public run, loss + raw-parameter gradients
        if not dataset and divs:  # (needs the training set, i.e. the recording wrappers)
            b = divs[-1]
            tr = np.array(s_full["train"])
            perm = rng.permutation(tr)
            parts = [perm[i: i + b] for i in range(0, len(perm), b)]
            Lc, _p, go, gp = scenes.chain_loss(pt, lt, indices=tr, with_grad=True)
            res = [scenes.chain_loss(pt, lt, indices=p, with_grad=True) for p in parts]
            mL = sum(x[0] for x in res) / len(res)
            sc_ = max(abs(Lc), float(J)) if lt == "poisson" else max(abs(Lc), 1e-30)
            fb = dict(f, batch_class=_batch_class(b, ntrain), path="chain")
            worst["chain_loss"] = max(worst["chain_loss"], abs(mL - Lc) / sc_)
            ctx.close(abs(mL - Lc) / sc_, LOSS_TOL, "batch_loss_mean_differs", lambda: "%s explicit chain: mean of %d per-batch losses = %.8g, full = %.8g" % (lt, len(res), mL, Lc), track=lt + ":chain", **fb)
            gm = {"object": [sum(x[2].double() if not x[2].is_complex() else x[2].to(ctx.state["torch"].complex128) for x in res) / len(res)],
                  "probe": [sum(x[3].to(ctx.state["torch"].complex128) for x in res) / len(res)]}
            for key, rel in _grad_rel(gm, {"object": [go], "probe": [gp]}).items():
                worst["chain_grad"] = max(worst["chain_grad"], rel)
                ctx.close(rel, GRAD_TOL_POISSON if lt == "poisson" else GRAD_TOL, "batch_gradient_mean_differs", lambda: "%s explicit chain %s gradient, batch=%d n=%d" % (lt, key, b, ntrain), track="%s:%s:chain" % (lt, key), param=key, **fb)
    frozen = np.array_equal(obj0, pt.obj) and np.array_equal(prb0, pt.probe)
    ctx.count("invariance_premise_state_changed_under_lr0", int(not frozen))
    ctx.nontrivial(("invariance", J, ntrain, round(ratio, 3), mode, bool(cons)), nb_seen >= 2)
    ctx.observe(scene=sc.describe(), J=J, n_train=ntrain, ratio=ratio, mode=mode, losses=losses, optim_keys=keys, soft=bool(cons), worst_rel=worst, max_batches=nb_seen)


# ------------------------------------------------------------------------------------------------
# (d) determinism

NEUTRAL_CALLS = ["save_zip", "save_dir", "save_zip_without_raw_data", "save_dir_without_raw_data", "save_that_raises", "to_cpu", "device_setter", "read_public_state", "reconstruct_device_argument"]


def _neutral_calls(ctx, pt, names, idx, kw2):
    """public calls that do not belong to the optimisation (measured neutral on the unchanged tree: numpy generator state and histories unchanged)"""
    import os
    import shutil

    pz, pd = os.path.join(ctx.tmp, "c09_%d.zip" % idx), os.path.join(ctx.tmp, "c09_%d_dir" % idx)
    with contextlib.redirect_stdout(io.StringIO()):
        for nm in names:
            if nm == "save_zip":
                pt.save(pz, mode="o", store="zip", save_raw_data=True, verbose=0)
            elif nm == "save_dir":
                pt.save(pd, mode="o", store="dir", save_raw_data=True, verbose=0)
            elif nm == "save_zip_without_raw_data":
                pt.save(pz, mode="o", store="zip", save_raw_data=False, verbose=0)
            elif nm == "save_dir_without_raw_data":
                pt.save(pd, mode="o", store="dir", save_raw_data=False, verbose=0)
            elif nm == "save_that_raises":
                with open(pz, "ab") as fh:
                    fh.write(b"")
                try:
                    pt.save(pz, store="zip", save_raw_data=bool(idx % 2), verbose=0)  # default mode "w": the target exists
                except FileExistsError:
                    ctx.count("neutral_call:failed_saves_caught")
            elif nm == "to_cpu":
                pt.to("cpu")
            elif nm == "device_setter":
                pt.device = "cpu"
            elif nm == "read_public_state":
                _ = (pt.obj, pt.probe, pt.obj_cropped, pt.iter_losses, pt.val_iter_losses, pt.iter_lrs, pt.constraints, pt.snapshots, pt.num_iters, pt.optimizer_params, pt.scheduler_params, pt.batch_size, len(pt.optimizers))
            elif nm == "reconstruct_device_argument":
                kw2["device"] = "cpu"
    with contextlib.suppress(Exception):
        os.remove(pz)
    shutil.rmtree(pd, ignore_errors=True)
    return kw2


def _run_determinism(spec, idx, ctx):
    scenes = ctx.state["scenes"]
    rng = ctx.rng(idx)
    sc, I = _draw_scene(ctx, rng)
    J = int(np.prod(sc.gpts))
    mode = "grid" if rng.random() < 0.4 else "random"
    ratio = _valid_ratio(rng, J, mode)
    seed = int(rng.integers(1 << 30))
    if idx % 4 == 0:
        seed = [0, 1, 2**32 - 1, 2**32, 2**63 - 1][(idx // 4) % 5]  # special seeds: 0 is a seed like any other; 32-bit boundary for the torch generator
    dataset = rng.random() < 0.25
    init = "uniform" if rng.random() < 0.7 else None
    truth = bool(rng.random() < 0.3)

    def build(s):
        return scenes.build_library(sc, I, seed=s, obj_init=init, install_truth=truth, val_ratio=ratio, val_mode=mode, learn_descan=dataset)

    ntrain_guess = max(1, J - int(round(J * ratio)))
    b = int(rng.integers(1, max(2, ntrain_guess)))  # mini-batches, so that the shuffle order matters
    lt = LOSSES[int(rng.integers(len(LOSSES)))]
    iters = int(rng.integers(2, 5))
    op = _opt(rng, dataset=dataset)
    sp = None
    if rng.random() < 0.4:
        sp = {"object": {"type": "exp", "gamma": 0.8}, "probe": {"type": "cyclic", "step_size_up": 2}}
    f = {"mode": mode, "ratio_class": _ratio_class(ratio), "loss": lt, "optimizer": op["object"]["type"]}

    def kw():
        return dict(num_iters=iters, reset=True, optimizer_params={k: dict(v) for k, v in op.items()}, scheduler_params=None if sp is None else {k: dict(v) for k, v in sp.items()}, batch_size=b, loss_type=lt)

    p1, p2 = build(seed), build(seed)
    s1 = _judge_run(ctx, p1, _recon(ctx, p1, **kw()), J, iters, f)
    _judge_run(ctx, p2, _recon(ctx, p2, **kw()), J, iters, f)
    h1, v1 = np.array(p1.iter_losses), np.array(p1.val_iter_losses)
    h2, v2 = np.array(p2.iter_losses), np.array(p2.val_iter_losses)

    def dmax(a, c):
        return float(np.max(np.abs(a - c))) if a.shape == c.shape and a.size else (0.0 if a.shape == c.shape else float("inf"))

    ctx.count("determinism_history_not_finite", int(not np.isfinite(h1).all()))
    eq = lambda a, c: a.shape == c.shape and np.array_equal(a, c, equal_nan=True)  # noqa: E731
    ctx.check(eq(h1, h2) and eq(v1, v2), "same_seed_history_differs",
              lambda: "two builds from seed %d: iter_losses %r vs %r (max diff %.3e), val %r vs %r" % (seed, h1.tolist(), h2.tolist(), dmax(h1, h2), v1.tolist(), v2.tolist()), **f)
    ctx.check(np.array_equal(p1.obj, p2.obj, equal_nan=True) and np.array_equal(p1.probe, p2.probe, equal_nan=True), "same_seed_state_differs", "object / probe of two same-seed runs differ", **f)
    # the same run after a reset
    s3 = _judge_run(ctx, p1, _recon(ctx, p1, **kw()), J, iters, f)
    h3, v3 = np.array(p1.iter_losses), np.array(p1.val_iter_losses)
    ctx.check(eq(h1, h3) and eq(v1, v3), "reset_history_differs",
              lambda: "run, then reset=True and the same run: iter_losses %r vs %r (max diff %.3e)" % (h1.tolist(), h3.tolist(), dmax(h1, h3)), **f)
    if s1 is not None and s3 is not None:
        ctx.check(s1["train"] == s3["train"] and s1["val"] == s3["val"], "reset_split_differs", "train/val split after reset differs from the first run", **f)
        same_order = all(np.array_equal(a[1], c[1]) for e1, e3 in zip(s1["epochs"], s3["epochs"]) for a, c in zip(e1["train_fwd"], e3["train_fwd"]))
        ctx.check(same_order, "reset_schedule_differs", "mini-batch order after reset differs from the first run", **f)
    # ---- same seed, same reconstruct() calls, but schedule-neutral public calls in between (a checkpoint written with save(), a save that raises, a no-op
    #      device move, the device setter, reading the public state, reconstruct(device=...)): schedule and loss history must not notice.
    #      clone() / from_ptychography() are NOT used: on the unchanged tree the save/reload fallback of clone() names its temp file with self.rng.integers
    k1, k2 = int(rng.integers(1, 3)), int(rng.integers(2, 4))
    names = [NEUTRAL_CALLS[i] for i in sorted(set(int(x) for x in rng.integers(0, len(NEUTRAL_CALLS), size=int(rng.integers(1, 4)))))]
    pa, pb = build(seed), build(seed)
    kw1 = dict(kw(), num_iters=k1)
    kw2 = dict(num_iters=k2, batch_size=b, loss_type=lt)
    _judge_run(ctx, pa, _recon(ctx, pa, **kw1), J, k1, f)
    _judge_run(ctx, pb, _recon(ctx, pb, **dict(kw(), num_iters=k1)), J, k1, f)
    kw2b = _neutral_calls(ctx, pb, names, idx, dict(kw2))
    sa = _judge_run(ctx, pa, _recon(ctx, pa, **kw2), J, k2, f)
    sb = _judge_run(ctx, pb, _recon(ctx, pb, **kw2b), J, k2, f)
    ha, va = np.array(pa.iter_losses), np.array(pa.val_iter_losses)
    hb, vb = np.array(pb.iter_losses), np.array(pb.val_iter_losses)
    fn = dict(f, calls="+".join(names))
    ctx.check(eq(ha, hb) and eq(va, vb), "neutral_call_changes_history",
              lambda: "seed %d, reconstruct(%d) ; [%s] ; reconstruct(%d): iter_losses %r, without the calls in between %r (max diff %.3e)" % (seed, k1, ", ".join(names), k2, hb.tolist(), ha.tolist(), dmax(ha, hb)), **fn)
    if sa is not None and sb is not None:
        same_split = sa["train"] == sb["train"] and sa["val"] == sb["val"]
        same_order = len(sa["epochs"]) == len(sb["epochs"]) and all(len(ea["train_fwd"]) == len(eb["train_fwd"]) and all(np.array_equal(x[1], y[1]) for x, y in zip(ea["train_fwd"], eb["train_fwd"])) for ea, eb in zip(sa["epochs"], sb["epochs"]))
        ctx.check(same_split and same_order, "neutral_call_changes_schedule", lambda: "seed %d: [%s] between two reconstruct() calls changed the %s of the second call" % (seed, ", ".join(names), "train/val split" if not same_split else "mini-batch order"), **fn)
    ctx.count("neutral_call_twins")
    for nm in names:
        ctx.count("neutral_call:" + nm)
    # non-vacuity: another seed changes the schedule (and normally the history)
    p4 = build(seed + 1)
    _judge_run(ctx, p4, _recon(ctx, p4, **kw()), J, iters, f)
    h4 = np.array(p4.iter_losses)
    seed_matters = bool(np.isfinite(h1).all()) and not eq(h1, h4)
    ctx.count("determinism_cases")
    ctx.count("determinism_cases_where_seed_changes_history", int(seed_matters))
    nb = s1["n_batches"] if s1 else 0
    ctx.nontrivial(("determinism", J, _batch_class(b, len(s1["train"]) if s1 else J), round(ratio, 3), mode), nb >= 2 and seed_matters)
    ctx.observe(scene=sc.describe(), J=J, batch=b, ratio=ratio, mode=mode, loss=lt, optimizer=op, iters=iters, iter_losses=h1.tolist(), other_seed_iter_losses=h4.tolist(), batches_per_epoch=nb)


def run_case(spec, idx, ctx):
    k = spec["kind"]
    with np.errstate(all="ignore"):
        if k == "batcher":
            _run_batcher(spec, idx, ctx)
        elif k == "batcher_random":
            _run_batcher_random(spec, idx, ctx)
        elif k == "cover":
            _run_cover(spec, idx, ctx)
        elif k == "insitu":
            _run_insitu(spec, idx, ctx)
        elif k == "invariance":
            _run_invariance(spec, idx, ctx)
        else:
            _run_determinism(spec, idx, ctx)


def summarize(all_cases, counters, extras):
    return {
        "batcher_configurations_checked": int(counters.get("batcher_configs", 0)),
        "batcher_configurations_nontrivial": int(counters.get("batcher_configs_nontrivial", 0)),
        "batcher_abandoned_epoch_histories": {k.split(":", 1)[1] if ":" in k else "total": int(v) for k, v in sorted(counters.items()) if k.startswith("batcher_abandoned_histories")},
        "cover_calls_checked": int(counters.get("cover_calls", 0)),
        "insitu_epochs_monitored": int(counters.get("insitu_epochs", 0)),
        "determinism_cases_where_seed_changes_history": "%d/%d" % (counters.get("determinism_cases_where_seed_changes_history", 0), counters.get("determinism_cases", 0)),
        "tolerances": {"loss_rel": LOSS_TOL, "grad_rel_l2": GRAD_TOL, "grad_rel_l2_poisson": GRAD_TOL_POISSON, "reported_vs_mean": 1e-9, "determinism": "bitwise"},
    }
