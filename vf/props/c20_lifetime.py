"""C20 helper — object lifetime / identity cases.

One case = one sequence of arrays of identical shape and dtype with different contents handed to the normalisation one after the
other.  Each array is a freshly allocated temporary that is dropped before the next one exists (so CPython hands the same id() /
memory out again), or one buffer object refilled in place.  The harness keeps **no** reference to a temporary: only `id(tmp)` as an
integer (to show in the evidence that ids really were reused) and whatever the library returned.  Every result is judged against
a long-lived array with bit-identical contents (`kept[k]`, the same expression evaluated a second time):

* eager objects (`data=tmp`): frozen limits by rank bracket (quantile) / data extremes (min-max) / equality with the limits the
  long-lived twin gives; range, order and NaN masking of `norm(kept[k])`; limits -> 0 / 1;
* lazy objects (`norm(tmp)`, fresh object per step or one shared object) and bare interval classes: output equal to what a fresh
  object gives for the long-lived twin, pixels at / below the lower rank bracket -> 0, at / above the upper one -> 1, range, order;
* `_show_2d_array(tmp)`: what reaches `array_to_rgba`, same predicates.
"""
from __future__ import annotations

import numpy as np

STEPS = {"tight": 12, "interleaved": 10}


def _contents(rng, dtype, shape, k):
    """k-th contents (in the target dtype): same shape/dtype, grossly different value windows from step to step."""
    n = int(np.prod(shape))
    if dtype.kind in "iu":
        info = np.iinfo(dtype)
        lo, hi = (int(info.min), int(info.max)) if dtype.itemsize < 8 else ((-(2**40), 2**40) if dtype.kind == "i" else (0, 2**41))
        full = hi - lo
        width = max(8, int(full * float(rng.choice([0.02, 0.1, 0.3]))))
        start = lo + int(rng.integers(0, full - width))
        a = rng.integers(start, start + width, size=n, dtype=np.int64).astype(dtype)
        if len(np.unique(a)) < 4:
            a[:4] = np.array([start, start + 2, start + 5, start + 7]).astype(dtype)
        return a.reshape(shape)
    if dtype == np.float16:
        scale, off = float(rng.choice([0.05, 1.0, 20.0])), float(rng.choice([-300.0, -20.0, 0.0, 15.0, 400.0]))
    else:
        scale = float(10.0 ** rng.uniform(-2, 2))
        off = float(rng.choice([-1.0, 1.0])) * float(10.0 ** rng.uniform(-1, 3.5)) * float(k % 3 != 0)
    a = (rng.normal(size=n) * scale + off).astype(dtype)
    if k % 4 == 1 and n > 8:
        a[rng.choice(n, size=int(rng.integers(1, 3)), replace=False)] = np.nan
    if k % 5 == 3 and n > 8:
        a[int(rng.integers(n))] = np.inf if k % 2 else -np.inf
    fin = np.flatnonzero(np.isfinite(a))
    if len(np.unique(a[fin])) < 4:
        a[fin[:4]] = (np.array([0.0, 1.0, 2.5, 4.0]) * scale + off).astype(dtype)
    return a.reshape(shape)


def _make_sources(rng, dtype, shape, form, K):
    """Long-lived sources and `expr(k)` producing a *fresh* array with the k-th contents each time it is called."""
    tgt = [_contents(rng, dtype, shape, k) for k in range(K)]
    if form == "arith":
        src = tgt
        if dtype.kind == "f":
            dark = dtype.type(0.0)
            return src, (lambda k: src[k] - dark)
        return src, (lambda k: src[k] - 0)
    if form in ("copy", "rebind", "inplace"):
        return tgt, (lambda k: tgt[k].copy())
    if form == "astype":
        wide = np.float64 if dtype.kind == "f" else (np.int64 if dtype != np.uint64 else np.uint64)
        src = [t.astype(wide) for t in tgt]
        return src, (lambda k: src[k].astype(dtype))
    if form == "abs":
        if dtype in (np.float32, np.float64):
            ph = [np.exp(1j * rng.uniform(0, 2 * np.pi, size=shape)) for _ in range(K)]
            src = [(np.abs(t) * p).astype(np.complex64 if dtype == np.float32 else np.complex128) for t, p in zip(tgt, ph)]
            for s, t in zip(src, tgt):
                s[~np.isfinite(t)] = np.nan  # an invalid pixel stays invalid (abs of nan+nanj is nan)
            return src, (lambda k: np.abs(src[k]))
        if dtype.kind == "i":
            src = [np.where(t == np.iinfo(dtype).min, t + 1, t) for t in tgt]  # abs(min) wraps: outside the domain
            return src, (lambda k: np.abs(src[k]))
        return tgt, (lambda k: np.abs(tgt[k]))
    if form == "view":
        stack = np.stack(tgt)
        return stack, (lambda k: stack[k])
    if form == "fromlist":
        src = [t.tolist() for t in tgt]
        return src, (lambda k: np.array(src[k], dtype=dtype))
    raise ValueError(form)


def _rank_pixels(ctx, m, ref, ql, qu, out, exact, common, tag):
    """Pixels at or below the lower rank bracket of the finite data map to 0, at or above the upper bracket to 1 (any interpolation
    rule; `exact`: min / max limits, no rank slack)."""
    fin = np.isfinite(ref) if ref.dtype.kind == "f" else np.ones(ref.shape, bool)
    ok = fin & ~np.ma.getmaskarray(out)
    x = ref[ok].astype(np.float64)
    o = np.ma.getdata(out)[ok].astype(np.float64)
    srt = np.sort(ref[fin].astype(np.float64).ravel())
    n = len(srt)
    if n < 4 or x.size == 0:
        return
    s = 0 if exact else 1
    rl, ru = ql * (n - 1), qu * (n - 1)
    lo_b, hi_b = srt[max(0, int(np.floor(rl)) - s)], srt[min(n - 1, int(np.ceil(ru)) + s)]
    # the two limits certainly differ (whatever the interpolation rule)
    if not srt[min(n - 1, int(np.ceil(rl)) + s)] < srt[max(0, int(np.floor(ru)) - s)]:
        ctx.count("lifetime_limits_may_coincide")
        return
    tol = m._tol(ref.dtype)
    lo_sel, hi_sel = x <= lo_b, x >= hi_b
    ctx.close(float(np.abs(o[lo_sel]).max()), tol, "limit_lo_not_0", lambda: "%s: pixels at / below the lower limit's rank bracket (<= %r, quantile %r of %d) map to %r" % (tag, lo_b, ql, n, o[lo_sel][:3].tolist()), **common)
    ctx.close(float(np.abs(o[hi_sel] - 1.0).max()), tol, "limit_hi_not_1", lambda: "%s: pixels at / above the upper limit's rank bracket (>= %r, quantile %r of %d) map to %r" % (tag, hi_b, qu, n, o[hi_sel][:3].tolist()), **common)


def run(spec, idx, ctx, m):
    cn = ctx.state["cn"]
    rng = ctx.rng(idx)
    dtype = np.dtype(spec["dtype"])
    form, target, pace, ivn, st = spec["form"], spec["target"], spec["pace"], spec["interval"], spec["stretch"]
    K = STEPS[pace] if target != "viz" else 6
    nd = int(rng.integers(1, 4)) if target != "viz" else 2
    shape = tuple(int(v) for v in rng.integers(3, 9, size=nd)) if nd > 1 else (int(rng.integers(16, 200)),)
    src, expr = _make_sources(rng, dtype, shape, form, K)
    kept = [expr(k) for k in range(K)]  # long-lived twins, bit-identical to what expr(k) gives again
    if form == "view":
        kept = [a.copy() for a in kept]
    kw = m._cfg(rng, ivn, st, kept[0])
    if ivn == "centered" and rng.random() < 0.5:
        kw["vcenter"] = 0.0
    ql, qu = float(kw.get("lower_quantile", 0.02)), float(kw.get("upper_quantile", 0.98))
    mode = "lifetime:%s:%s" % (target, form)
    common = {"dtype": str(kept[0].dtype), "interval": ivn, "stretch": st, "mode": mode}
    jspec = {"interval": ivn, "stretch": st, "mode": mode}
    seen_ids, reuse = set(), [0]

    def note(i):
        if i in seen_ids:
            reuse[0] += 1
        seen_ids.add(i)

    if target == "interval":
        ikw = {k: kw[k] for k in ("lower_quantile", "upper_quantile", "vcenter", "half_range") if k in kw}
        make_iv = lambda: {"quantile": cn.QuantileInterval, "manual": cn.ManualInterval, "centered": cn.CenteredInterval}[kw["interval_type"]](**ikw)  # noqa: E731
        shared_iv = make_iv()
    shared_norm = cn.CustomNormalization(**kw) if target == "lazy_shared" else None
    viz = m._viz_setup(ctx) if target == "viz" else None
    buf = np.empty(kept[0].shape, dtype=kept[0].dtype) if form == "inplace" else None
    internal = target == "viz" and form == "abs" and dtype in (np.float32, np.float64)
    held = [None]  # the re-bound loop variable of form "rebind" (the previous array lives until the next one is bound)

    # ---- one step: hand the k-th short-lived array to the library; returns only what the library gave back
    def step(k):
        if form == "inplace":
            np.copyto(buf, kept[k])
            ctx.count("lifetime_inplace_refills")
            tmp = buf
        elif internal:
            tmp = src[k]  # long-lived complex image: the library's own np.abs(z) is the short-lived array
        else:
            tmp = expr(k)
        if form == "rebind":
            held[0] = tmp
        if not internal:
            note(id(tmp))
        if target == "eager":
            res = cn.CustomNormalization(data=tmp, **kw)
        elif target == "lazy":
            res = cn.CustomNormalization(**kw)(tmp)
        elif target == "lazy_shared":
            res = shared_norm(tmp)
        elif target == "interval":
            iv = shared_iv if k % 2 else make_iv()
            lim = iv.get_limits(tmp)
            res = (float(lim[0]), float(lim[1]), iv(tmp))
        else:
            res = _viz_step(tmp)
        del tmp
        return res

    def _viz_step(tmp):
        from matplotlib.figure import Figure

        cap = ctx.state["viz_cap"]
        cap.clear()
        fig = Figure(figsize=(2, 2))
        ax = fig.subplots()
        vkw = {"interval_type": kw["interval_type"], "stretch_type": st}
        vkw.update({k: kw[k] for k in ("lower_quantile", "upper_quantile", "power", "logarithmic_index", "asinh_linear_range") if k in kw})
        viz._show_2d_array(tmp, norm=vkw, figax=(fig, ax))
        out = cap.get("scaled")
        cap.clear()
        fig.clear()
        return out

    def judge(k, res):
        ref = kept[k]
        tag = "step %d of %d (%s, %s, %s)" % (k, K, target, form, pace)
        if target == "eager":
            norm = res
            out = norm(ref)
            m._judge(ctx, jspec, ref, norm, out, tag)
            vmin, vmax = float(norm.vmin), float(norm.vmax)
            twin = cn.CustomNormalization(data=ref, **kw)
            ctx.check(float(twin.vmin) == vmin and float(twin.vmax) == vmax, "short_lived_array_differs_from_kept_copy", lambda: "%s: limits from the short-lived array (%r, %r) differ from the limits from a long-lived array with the same contents (%r, %r)" % (tag, vmin, vmax, float(twin.vmin), float(twin.vmax)), **common)
            if kw["interval_type"] == "quantile":
                m._quantile_bracket(ctx, ref, ql, qu, vmin, vmax, common)
            elif kw["interval_type"] == "manual":
                fin = ref[np.isfinite(ref)].astype(np.float64) if ref.dtype.kind == "f" else ref.astype(np.float64)
                ctx.close(max(abs(vmin - float(fin.min())), abs(vmax - float(fin.max()))), 1e-9 * float(fin.max() - fin.min()), "minmax_limits_not_data_extremes", lambda: "%s: limits (%r, %r) vs data extremes (%r, %r)" % (tag, vmin, vmax, float(fin.min()), float(fin.max())), **common)
            if vmin < vmax:
                ol = np.ma.getdata(norm(np.array([vmin, vmax], dtype=np.float64))).astype(np.float64)
                ctx.close(abs(ol[0]), m._ltol(ref.dtype), "limit_lo_not_0", lambda: "%s: n(vmin=%r)=%r" % (tag, vmin, float(ol[0])), **common)
                ctx.close(abs(ol[1] - 1.0), m._ltol(ref.dtype), "limit_hi_not_1", lambda: "%s: n(vmax=%r)=%r" % (tag, vmax, float(ol[1])), **common)
        else:
            if target == "interval":
                vmin, vmax, raw = res
                iv2 = make_iv()
                l2 = iv2.get_limits(ref)
                ctx.check(float(l2[0]) == vmin and float(l2[1]) == vmax, "short_lived_array_differs_from_kept_copy", lambda: "%s: get_limits of the short-lived array (%r, %r) vs of a long-lived array with the same contents (%r, %r)" % (tag, vmin, vmax, float(l2[0]), float(l2[1])), **common)
                if kw["interval_type"] == "quantile":
                    m._quantile_bracket(ctx, ref, ql, qu, vmin, vmax, common)
                out = np.ma.masked_invalid(raw)
                fresh = np.ma.masked_invalid(iv2(ref))
                js = dict(jspec, stretch="none")
            else:
                out = res
                if out is None:
                    ctx.check(False, "viz_hook_not_reached", "array_to_rgba was not called by _show_2d_array", **common)
                    return
                # (the plotting entry point freezes the limits first: the twin is built the same way, float32 data is rounded differently otherwise)
                fresh = cn.CustomNormalization(**kw)(ref) if target != "viz" else cn.CustomNormalization(data=ref, **kw)(ref)
                js = jspec
            m._judge(ctx, js, ref, None, out, tag)
            ctx.check(m._same_out(out, fresh), "short_lived_array_differs_from_kept_copy", lambda: "%s: the short-lived array normalises to %r, a long-lived array with the same contents to %r" % (tag, np.ma.getdata(out).ravel()[:4].tolist(), np.ma.getdata(fresh).ravel()[:4].tolist()), **common)
            if out.shape == ref.shape:
                if kw["interval_type"] == "quantile":
                    _rank_pixels(ctx, m, ref, ql, qu, out, False, common, tag)
                elif kw["interval_type"] == "manual":
                    _rank_pixels(ctx, m, ref, 0.0, 1.0, out, True, common, tag)

    if pace == "tight":
        results = []
        for k in range(K):
            results.append(step(k))
        for k in range(K):
            judge(k, results[k])
    else:
        for k in range(K):
            judge(k, step(k))
    held[0] = None
    if internal:
        ctx.count("lifetime_library_internal_temporaries", K)
    if reuse[0]:
        ctx.count("lifetime_id_reused", reuse[0])
        ctx.count("lifetime_cases_with_id_reuse")
    elif not internal:
        ctx.count("lifetime_cases_without_id_reuse")  # decides nothing about object identity
    ctx.count("lifetime_steps", K)
    ctx.nontrivial(("lifetime", spec["dtype"], ivn, target, form, pace), reuse[0] > 0)
    ctx.observe(steps=K, id_reuses=reuse[0], distinct_ids=len(seen_ids), shape=list(kept[0].shape), kw=kw)
