"""C05 — checkpoint/resume equivalence for iterative ptychography (save, reload, clone).

Twin-run oracle over real executions: a reference object R runs k + m iterations without ever being
saved or copied.  An identically built object A runs k iterations and is then
  * saved with its raw data to a zip store and to a directory store and reloaded (`from_file`),
  * cloned (`clone()` — deepcopy path),
  * cloned through the serialise/reload *fallback* of `clone()`, forced by replacing, for that one call,
    the `copy.deepcopy` that `ptychography.py` looks up by a raiser,
  * saved without raw data and reloaded onto an identically preprocessed dataset.
State equality (num_iters, iter_losses, iter_lrs, constraints, obj, probe) is judged right after the
reload; then A and every twin continue with the same calls as R and must reach R's loss history,
learning-rate history, object and probe.  Stored snapshots and learned dataset parameters are compared
too but only *recorded* (evidence counters `observed_unjudged:*`): the property does not name them.
"""
from __future__ import annotations

import copy as _copy

import numpy as np

PROPERTY = "C05"
LEVEL = "exploration"
ANCHOR_FILES = [
    "quantem/diffractive_imaging/ptychography.py", "quantem/diffractive_imaging/ptychography_base.py", "quantem/diffractive_imaging/ptychography_opt.py",
    "quantem/core/ml/optimizer_mixin.py", "quantem/core/io/serialize.py", "quantem/core/utils/rng.py",
]
RULE = (
    "seeded random scenes (object type x 1-3 slices x 1-3 modes) x optimizer (sgd, sgd+momentum, adam, adamw; optionally a dataset optimizer) x scheduler "
    "(none/exp/linear/cyclic/plateau) x constraint dictionaries x split point k in 0..7 x continuation m in 1..4 x continuation style (plain, two calls, new "
    "constraints, added probe optimizer, added dataset optimizer that did not exist at the split, new scheduler) x order (original continued first / twins first) x "
    "after-error history (save attempts that raise - existing target with mode 'w', raw and raw-free, zip and dir, directory store with a file name - caught at the split "
    "and/or 1..k iterations before it); every 'twins' case derives the twins zip, dir, clone, forced clone fallback and raw-data-free reload from the same "
    "split state; 'history' cases checkpoint one run periodically: the same zip path and the same directory path (reused by all cases of a worker) are overwritten with "
    "mode='o' at three successive split points, each followed by from_file (and clone() of the reloaded object), judged against the state at that split and continued "
    "against the uninterrupted reference. In every non-benign case a random stream of its own adds, per optimizer with probability 1/2, non-default hyper-parameters (sgd: weight_decay, "
    "momentum value, nesterov, dampening; adam/adamw: betas, eps, weight_decay, amsgrad) and, per cyclic scheduler with probability 0.6, the package option \"momentum\": True "
    "(CyclicLR cycle_momentum: beta1 / momentum become a function of the iteration, so a checkpoint inside a cycle holds param-group entries that differ from the optimizer's "
    "constructor defaults); 12 / 96 dedicated cases force that option on the object scheduler for each optimizer type with split points 1..5 inside the first cycles. Besides the "
    "continuation oracle, every numerics-defining param-group entry (lr, betas, momentum, dampening, weight_decay, eps, nesterov, amsgrad, maximize, initial_lr, base/max_momentum) of "
    "original-after-save / reloaded / cloned is compared with the state at the split and, after the continuation, with the reference (which is never saved, copied or moved). non-trivial = k >= 1, m >= 2 and (stateful optimizer or a scheduler that changed the learning rate); distinct = (optimizer, scheduler, k, "
    "continuation style, dataset optimizer)"
)
ASSUMPTIONS = [
    "full-batch updates; the numpy generator that orders the (single) batch is re-seeded on load, which is outside the claim: in 'sync' cases the same public call "
    "`x.rng = s` is applied to the reference, the original and every twin before continuing (measured: continuation is then bitwise identical, bound 1e-5 relative); "
    "in 'free' cases (20%) the generators are left alone: summation order then differs and Adam / an unstable run amplify that float32 noise without bound "
    "(measured 1e-3 in obj, 8e-2 in a diverging loss history), so only what is a function of the split state alone is judged there: iteration count, constraints and the "
    "first continued entry of the loss and learning-rate histories (measured noise 2e-7, bound 1e-4); "
    "a designated sixth of the cases leaves the generators alone in a numerically benign run (plain SGD on object, probe and dataset, no plateau scheduler, monotone reference "
    "history; mostly with a dataset optimizer and descan_tv_weight > 0): there the order inside the full batch differs after a reload and the WHOLE continuation is judged - "
    "bounds loss 1e-4 / probe 1e-4 / object 1e-2 / learned dataset parameters 2e-3 against measured summation-order noise 4.3e-7 / 1.5e-7 / 5.9e-5 / 1.0e-5",
    "state equality after reload is judged at 1e-6 relative (measured 0)",
    "the raw-data-free save is judged for state equality always (object/probe/detector constraints; dataset constraints live in the dataset that is not saved) "
    "and for continuation only when the dataset model has no optimizer (its Adam state lives in the skipped dataset)",
    "param-group entries are read through the public `optimizers` mapping; only entries that define the next optimizer / scheduler step are judged (exact for pickled values, 1e-9 relative), "
    "implementation flags (foreach, fused, capturable, differentiable) are recorded only; with free-running generators the entries are judged at the split only",
    "the uninterrupted reference performs no save / clone / .to() / device= argument between its iterations (reconstruct is called with device=None), so its optimizers are never re-bound",
    "single-threaded torch on CPU, integer seeds passed to every model; reference and original are separate builds from the same seed (C09 judges that determinism)",
]
BUDGET = {"quick": {"soft_s": 300, "workers": 14}, "thorough": {"soft_s": 1200, "workers": 14}}
MIN_EVALUATIONS = {"quick": 30, "thorough": 300}
REQUIRED_COUNTERS = ["eval:param_group_differs", "eval:twin_shares_state", "eval:obj_differs", "eval:probe_differs", "eval:iter_losses_differ", "eval:iter_lrs_differ", "eval:constraints_differ", "eval:num_iters_differs"]
EXHAUSTIVE = {"quick": False, "thorough": False}

OPTIMIZERS = ["sgd", "sgd_momentum", "adam", "adamw"]
SCHEDULERS = ["none", "exp", "linear", "cyclic", "plateau"]
STYLES = ["plain", "plain", "two_calls", "new_constraints", "add_probe_optimizer", "new_scheduler", "add_dataset_optimizer", "add_dataset_optimizer"]
TOL_STATE = 1e-6
TOL_SYNC = 1e-5
TOL_FREE = 1e-4
# free generators + benign run (plain SGD on everything, monotone reference history): whole continuation judged.  Measured summation-order noise on the
# unchanged tree over 1 180 comparisons (4 seeds x 72 cases): loss history 4.3e-7, probe 1.5e-7, object 5.9e-5, learned dataset parameters 1.0e-5
TOL_FREE_BENIGN = {"loss": 1e-4, "probe": 1e-4, "obj": 1e-2, "dataset": 2e-3}


def plan(tier, seed):
    n = 72 if tier == "quick" else 640
    nh = 24 if tier == "quick" else 200
    rng = np.random.default_rng([int(seed), 5, 777])
    specs = []
    for i in range(n):
        specs.append({"kind": "twins", "opt": OPTIMIZERS[i % 4], "sched": SCHEDULERS[(i // 4) % 5], "k": int(rng.choice([0, 1, 1, 2, 2, 3, 3, 4, 5, 6, 7])), "style": STYLES[int(rng.integers(len(STYLES)))],
                      "sync": bool(rng.random() < 0.8), "order": ["twins_first", "original_first"][int(rng.integers(2))],
                      "errors": ["none", "none", "at_split", "before_split", "before_split", "both"][int(rng.integers(6))], "benign": i % 6 == 5, "i": i})
    hist = [{"kind": "history", "opt": OPTIMIZERS[(i + 1) % 4], "sched": SCHEDULERS[(i // 2) % 5], "k": int(rng.integers(0, 4)), "style": ["plain", "plain", "new_constraints", "new_scheduler"][int(rng.integers(4))], "i": i}
            for i in range(nh)]
    # dedicated class: param-group entries other than lr that change over time (cyclic scheduler with the package option "momentum": True) and non-default
    # optimizer hyper-parameters, split points inside the first cycles (see _widen_hyper)
    nhp = 12 if tier == "quick" else 96
    hp = []
    for j in range(nhp):
        hp.append({"kind": "twins", "opt": OPTIMIZERS[j % 4], "sched": "cyclic", "k": int(rng.choice([1, 2, 2, 3, 3, 4, 5])), "style": ["plain", "two_calls", "new_scheduler", "plain", "new_constraints"][int(rng.integers(5))],
                      "sync": True, "order": ["twins_first", "original_first"][int(rng.integers(2))], "errors": "none", "benign": False, "hp": True, "i": 1})
    # interleave (one history case after every third twin case) so that every worker sees both kinds and the evidence samples show both
    out = []
    step = max(1, n // max(1, nh))
    for i, sp in enumerate(specs):
        out.append(sp)
        if i % step == 1 and hist:
            out.append(hist.pop(0))
    return out + hist + hp  # (appended: the case indices, hence the random draws, of the older cases stay what they were)


class _Shim:
    """stands in for the `copy` module as seen from ptychography.py: deepcopy raises, everything else is the real module"""

    def __init__(self, real):
        self._real = real
        self.calls = 0

    def __getattr__(self, k):
        return getattr(self._real, k)

    def deepcopy(self, *a, **k):
        self.calls += 1
        raise RuntimeError("vf: injected deepcopy failure")


def setup(ctx):
    import warnings

    warnings.filterwarnings("ignore")
    import torch
    from quantem.diffractive_imaging import ptychography

    from vf import reconhelp, scenes
    from vf.hook import wrap

    ctx.state.update(scenes=scenes, ptmod=ptychography, Ptychography=ptychography.Ptychography, torch=torch, quiet=reconhelp.quiet)
    reconhelp.warm_and_freeze()
    # evidence only: how often the real save / load / reconnect mechanisms ran
    from quantem.core.ml import optimizer_mixin

    wrap(ptychography.Ptychography, "save", ctx=ctx)
    wrap(ptychography.Ptychography, "from_file", ctx=ctx)
    wrap(ptychography.Ptychography, "clone", ctx=ctx)
    wrap(optimizer_mixin.OptimizerMixin, "reconnect_optimizer_to_parameters", ctx=ctx)
    if not (hasattr(ptychography, "copy") or hasattr(ptychography, "deepcopy")):
        ctx.hooks_missing.append("ptychography.copy.deepcopy")


# ------------------------------------------------------------------------------------------------
# workload


def _opt_params(rng, name, dataset, ds_sgd=False):
    lo = {"type": "sgd", "lr": float(10 ** rng.uniform(-1.3, -0.3))}
    lp = {"type": "sgd", "lr": float(10 ** rng.uniform(-2.5, -1.5))}
    if name == "sgd_momentum":
        lo["momentum"] = 0.9
        lp["momentum"] = 0.8
        lo["lr"] *= 0.2
        lp["lr"] *= 0.2
    elif name in ("adam", "adamw"):
        lo = {"type": name, "lr": float(10 ** rng.uniform(-2.7, -1.7))}
        lp = {"type": name, "lr": float(10 ** rng.uniform(-3.5, -2.5))}
        if name == "adamw":
            lo["weight_decay"] = 1e-3
    op = {"object": lo, "probe": lp}
    if dataset:
        op["dataset"] = {"type": "adam", "lr": float(10 ** rng.uniform(-3.5, -2.5))}
        if ds_sgd:
            op["dataset"] = {"type": "sgd", "lr": float(10 ** rng.uniform(-1.5, -0.5))}
    return op


def _sched_one(rng, name, k=1):
    if name == "none":
        return {"type": "none"}
    if name == "exp":
        # the "factor" form derives gamma from the num_iters of the call that installs the scheduler (undefined for num_iters=0)
        return {"type": "exp", "gamma": float(rng.uniform(0.5, 0.9))} if (rng.random() < 0.7 or k == 0) else {"type": "exp", "factor": 0.05}
    if name == "linear":
        return {"type": "linear", "start_factor": float(rng.uniform(0.1, 0.5)), "total_iters": int(rng.integers(3, 9))}
    if name == "cyclic":
        return {"type": "cyclic", "step_size_up": int(rng.integers(2, 4)), "step_size_down": int(rng.integers(1, 4))}
    return {"type": "plateau", "patience": int(rng.integers(0, 2)), "factor": 0.5, "threshold": float(rng.uniform(0.2, 0.6)), "cooldown": int(rng.integers(0, 2))}


def _sched_params(rng, name, keys, k):
    if name == "none":
        return None if rng.random() < 0.5 else {kk: {"type": "none"} for kk in keys}
    sp = {"object": _sched_one(rng, name, k)}
    if "probe" in keys and rng.random() < 0.6:
        sp["probe"] = _sched_one(rng, name if rng.random() < 0.5 else SCHEDULERS[1 + int(rng.integers(4))], k)
    if "dataset" in keys and rng.random() < 0.5:
        sp["dataset"] = _sched_one(rng, "exp", 0)
    return sp


# param-group entries that define the numerics of the next optimizer / scheduler step (implementation flags such as foreach / fused / capturable are only recorded)
HYPER_KEYS = ("lr", "betas", "momentum", "dampening", "weight_decay", "eps", "nesterov", "amsgrad", "maximize", "decoupled_weight_decay", "initial_lr", "base_momentum", "max_momentum")


def _widen_sched(hrng, s, p):
    """the package's only scheduler option that makes a param-group entry other than lr a function of time: cyclic + "momentum": True (CyclicLR cycle_momentum:
    beta1 of adam/adamw, momentum of sgd move between 0.8 and 0.9 against the learning rate)"""
    if isinstance(s, dict) and s.get("type") == "cyclic" and hrng.random() < p:
        s["momentum"] = True
        return True
    return False


def _widen_hyper(hrng, op, sp, force=False):
    """in place, from a random stream of its own (the older draws of a case stay what they were): non-default hyper-parameters for every optimizer type and
    momentum cycling for cyclic schedulers.  Returns (number of optimizers with non-default entries, number of momentum-cycling schedulers)"""
    nd = 0
    for key, o in op.items():
        if hrng.random() >= (0.75 if force else 0.5):
            continue
        nd += 1
        t = o["type"]
        picks = hrng.random(4) < 0.5
        if not picks.any():
            picks[int(hrng.integers(4))] = True
        if t == "sgd":
            if picks[0] or picks[3]:
                o["weight_decay"] = float(10 ** hrng.uniform(-4, -2))
            if "momentum" in o:
                if picks[1]:
                    o["nesterov"] = True
                elif picks[2]:
                    o["dampening"] = float(hrng.uniform(0.05, 0.3))
                if picks[3]:
                    o["momentum"] = float(hrng.choice([0.5, 0.7, 0.95]))
        else:
            if picks[0]:
                o["betas"] = (float(hrng.uniform(0.6, 0.95)), float(hrng.uniform(0.9, 0.9995)))
            if picks[1]:
                o["eps"] = float(hrng.choice([1e-10, 1e-6, 1e-4]))
            if picks[2]:
                o["weight_decay"] = float(10 ** hrng.uniform(-4, -2))
            if picks[3]:
                o["amsgrad"] = True
    nc = 0
    for key, s_ in (sp or {}).items():
        if _widen_sched(hrng, s_, 1.0 if (force and key == "object") else 0.6):
            nc += 1
            o = op.get(key)
            if o is not None and o["type"] == "sgd" and "momentum" not in o:
                o["lr"] *= 0.2  # plain SGD becomes momentum SGD (0.8..0.9) under the cycling: same step-size reduction as the sgd_momentum cases
    return nd, nc


def _groups(pt):
    """every param-group entry (except the parameters themselves) of every optimizer, through the public `optimizers` mapping"""
    return {str(key): [{str(k): _plain(v) for k, v in g.items() if k != "params"} for g in o.param_groups] for key, o in pt.optimizers.items()}


def _off_defaults(pt):
    """number of optimizers whose live param group holds a hyper-parameter different from the optimizer's constructor defaults (a scheduler moved it)"""
    n = 0
    for o in pt.optimizers.values():
        g, d = o.param_groups[0], o.defaults
        n += int(any(k in d and k != "lr" and _cdiff(_plain(g[k]), _plain(d[k])) for k in HYPER_KEYS if k in g))
    return n


def _constraints(rng, sc, dataset):
    c = {}
    if rng.random() < 0.75:
        o = {}
        if rng.random() < 0.5:
            o["tv_weight_xy"] = float(10 ** rng.uniform(-4, -2))
        if sc.num_slices > 1 and rng.random() < 0.4:
            o["tv_weight_z"] = float(10 ** rng.uniform(-4, -2))
        if sc.num_slices > 1 and rng.random() < 0.3:
            o["identical_slices"] = True
        if rng.random() < 0.4:
            o["apply_fov_mask"] = True
        if rng.random() < 0.3:
            o["gaussian_sigma"] = float(rng.uniform(0.3, 0.8))
        if rng.random() < 0.25:
            o["q_lowpass"] = float(rng.uniform(0.8, 1.5))
        if sc.obj_type == "potential" and rng.random() < 0.5:
            o["fix_potential_baseline"] = True
            o["fix_potential_baseline_factor"] = float(rng.uniform(0.5, 1.0))
        if sc.obj_type == "potential" and rng.random() < 0.3:
            o["positivity"] = False
        if not o:
            o["surface_zero_weight"] = 0.0 if sc.num_slices == 1 else float(10 ** rng.uniform(-4, -3))
            o["butterworth_order"] = int(rng.integers(2, 6))
        c["object"] = o
    if rng.random() < 0.6:
        p = {}
        if rng.random() < 0.4:
            p["center_probe"] = True
        if rng.random() < 0.4:
            p["tv_weight"] = float(10 ** rng.uniform(-5, -3))
        if rng.random() < 0.3:
            p["orthogonalize_probe"] = False
        if not p:
            p["tv_weight"] = 1e-4
        c["probe"] = p
    if dataset and rng.random() < 0.6:
        c["dataset"] = {"descan_tv_weight": float(10 ** rng.uniform(-4, -2))}
        if rng.random() < 0.3:
            c["dataset"]["center_scan_positions"] = True
    return c


def _cp(d):
    return _copy.deepcopy(d)


# ------------------------------------------------------------------------------------------------
# observation of the public state


def _np(x):
    if x is None:
        return None
    if hasattr(x, "detach"):
        return x.detach().cpu().numpy().copy()
    return np.array(x)


def _plain(v):
    """constraint values -> comparable plain data (tensors/arrays -> ndarray, tuples -> lists)"""
    if hasattr(v, "detach") or isinstance(v, np.ndarray):
        return _np(v)
    if isinstance(v, dict):
        return {str(k): _plain(x) for k, x in v.items()}
    if isinstance(v, (list, tuple)):
        return [_plain(x) for x in v]
    if isinstance(v, np.generic):
        return v.item()
    return v


def _snap(pt):
    s = {
        "num_iters": int(pt.num_iters),
        "iter_losses": np.array(pt.iter_losses, dtype=np.float64),
        "iter_lrs": {k: np.array(v, dtype=np.float64) for k, v in pt.iter_lrs.items()},
        "constraints": _plain(pt.constraints),
        "obj": np.array(pt.obj),
        "probe": np.array(pt.probe),
        "descan": _np(pt.dset.descan_shifts),
        "positions": _np(pt.dset.scan_positions_px),
        "groups": _groups(pt),
        "snapshots": [{"iteration": int(x["iteration"]), "obj": np.array(x["obj"]), "probe": np.array(x["probe"])} for x in pt.snapshots],
    }
    return s


def _relmax(a, b):
    a, b = np.asarray(a), np.asarray(b)
    if a.shape != b.shape:
        return float("inf")
    if a.size == 0:
        return 0.0
    if not (np.isfinite(a).all() and np.isfinite(b).all()):
        return 0.0 if np.array_equal(a, b, equal_nan=True) else float("inf")
    return float(np.max(np.abs(a - b)) / max(float(np.max(np.abs(a))), 1e-30))


def _cdiff(a, b, path=""):
    """first differing path of two plain constraint structures, or None"""
    if isinstance(a, dict) or isinstance(b, dict):
        if not (isinstance(a, dict) and isinstance(b, dict)):
            return path + ": %s vs %s" % (type(a).__name__, type(b).__name__)
        if set(a) != set(b):
            return path + ": keys %s vs %s" % (sorted(set(a) - set(b)), sorted(set(b) - set(a)))
        for k in sorted(a):
            d = _cdiff(a[k], b[k], path + "." + k)
            if d:
                return d
        return None
    if isinstance(a, np.ndarray) or isinstance(b, np.ndarray):
        if a is None or b is None or _relmax(np.asarray(a, dtype=np.float64), np.asarray(b, dtype=np.float64)) > 1e-6:
            return path + ": arrays differ"
        return None
    if isinstance(a, list) or isinstance(b, list):
        if not (isinstance(a, list) and isinstance(b, list)) or len(a) != len(b):
            return path + ": %r vs %r" % (a, b)
        for i, (x, y) in enumerate(zip(a, b)):
            d = _cdiff(x, y, path + "[%d]" % i)
            if d:
                return d
        return None
    if isinstance(a, bool) or isinstance(b, bool) or a is None or b is None:
        return None if (a is b or a == b) and (a is None) == (b is None) and isinstance(a, bool) == isinstance(b, bool) else path + ": %r vs %r" % (a, b)
    if isinstance(a, (int, float)) and isinstance(b, (int, float)):
        return None if abs(float(a) - float(b)) <= 1e-9 * max(1.0, abs(float(a))) else path + ": %r vs %r" % (a, b)
    return None if a == b else path + ": %r vs %r" % (a, b)


def _observe_unjudged(ctx, name, differs):
    """things a checkpoint also carries but the property does not name: recorded in evidence, never part of the verdict"""
    ctx.count("observed_unjudged:%s:compared" % name)
    if differs:
        ctx.count("observed_unjudged:%s:differs" % name)


def _compare(ctx, ref, got, tol, f, judge_dataset_constraints=True, first_only=None, judge_dataset_params=False, free_full=None):
    """ref/got: snapshots of the public state; one evaluation per observable named by the property.

    first_only=k (free-running generators): only the first continued iteration (history entries 0..k) is judged - it is a function of the
    state at the split alone; later iterations see summation-order noise that Adam / an unstable run can amplify without bound, and object /
    probe are only recorded."""
    ph = f["phase"]
    ctx.check(got["num_iters"] == ref["num_iters"], "num_iters_differs", "%s: num_iters %d, expected %d" % (f["twin"], got["num_iters"], ref["num_iters"]), **f)
    cut = (lambda a: a) if first_only is None else (lambda a: a[: first_only + 1])
    tol_hist = tol if first_only is None else TOL_FREE
    same_len = len(ref["iter_losses"]) == len(got["iter_losses"])
    r = _relmax(cut(ref["iter_losses"]), cut(got["iter_losses"])) if same_len else float("inf")
    ctx.close(r, tol_hist, "iter_losses_differ", lambda: "%s %s: iter_losses %s vs expected %s" % (f["twin"], ph, got["iter_losses"].tolist()[-6:], ref["iter_losses"].tolist()[-6:]), track="%s:%s" % (ph, f["sync"]), **f)
    ctx.check(set(got["iter_lrs"]) == set(ref["iter_lrs"]), "iter_lrs_keys_differ", "%s: iter_lrs keys %s, expected %s" % (f["twin"], sorted(got["iter_lrs"]), sorted(ref["iter_lrs"])), **f)
    worst = 0.0
    for k in ref["iter_lrs"]:
        if k in got["iter_lrs"]:
            worst = max(worst, _relmax(cut(ref["iter_lrs"][k]), cut(got["iter_lrs"][k])) if len(ref["iter_lrs"][k]) == len(got["iter_lrs"][k]) else float("inf"))
    ctx.close(worst, 1e-6, "iter_lrs_differ", lambda: "%s %s: learning-rate history %s vs expected %s" % (f["twin"], ph, {k: v.tolist()[-5:] for k, v in got["iter_lrs"].items()}, {k: v.tolist()[-5:] for k, v in ref["iter_lrs"].items()}), **f)
    ca, cb = dict(ref["constraints"]), dict(got["constraints"])
    if not judge_dataset_constraints:
        ca.pop("dataset", None)
        cb.pop("dataset", None)
    d = _cdiff(ca, cb, "constraints")
    ctx.check(d is None, "constraints_differ", lambda: "%s %s: %s" % (f["twin"], ph, d), where=((d or "").split(":")[0].split(".") + ["", ""])[1], **f)
    if first_only is None or ph == "state":
        # optimizer hyper-parameters: every numerics-defining param-group entry (the next step is a function of them); with free-running generators only
        # at the split (a loss-driven scheduler may legitimately decide differently under summation-order noise afterwards)
        ga, gb = dict(ref["groups"]), dict(got["groups"])
        if not judge_dataset_constraints:  # (raw-data-free reload: the dataset optimizer lives in the dataset that is not saved)
            ga.pop("dataset", None)
            gb.pop("dataset", None)
        gd = _cdiff({m: [{k: v for k, v in g.items() if k in HYPER_KEYS} for g in gs] for m, gs in ga.items()}, {m: [{k: v for k, v in g.items() if k in HYPER_KEYS} for g in gs] for m, gs in gb.items()}, "param_groups")
        ctx.check(gd is None, "param_group_differs", lambda: "%s %s: optimizer %s (expected vs found)" % (f["twin"], ph, gd),
                  where=((gd or "").split(":")[0].split(".") + ["", ""])[1].split("[")[0], entry=(gd or "").split(":")[0].split(".")[-1].split("[")[0], **f)
        _observe_unjudged(ctx, "param_group_implementation_flags:%s" % ph, _cdiff(ga, gb) is not None and gd is None)
    ro = _relmax(ref["obj"], got["obj"])
    rp = _relmax(ref["probe"], got["probe"])
    rd = max(_relmax(ref["descan"], got["descan"]) if np.abs(ref["descan"]).max() > 0 else float(np.abs(got["descan"]).max()), _relmax(ref["positions"], got["positions"]))
    if first_only is not None and free_full is not None:
        # free-running generators in a numerically benign run (plain SGD everywhere, no loss-driven scheduler, monotone reference history): summation
        # order noise stays at the float32 level, so the whole continued history and the arrays are judged - a full batch must not care about its order
        rl = _relmax(ref["iter_losses"], got["iter_losses"]) if same_len else float("inf")
        trk = "%s:free_benign" % ph
        ctx.close(rl, free_full["loss"], "iter_losses_differ", lambda: "%s %s (free generators, benign run): iter_losses %s vs expected %s" % (f["twin"], ph, got["iter_losses"].tolist()[-6:], ref["iter_losses"].tolist()[-6:]), track=trk, **f)
        ctx.close(ro, free_full["obj"], "obj_differs", lambda: "%s %s (free generators, benign run): max|obj - expected| / max|expected|" % (f["twin"], ph), track=trk, **f)
        ctx.close(rp, free_full["probe"], "probe_differs", lambda: "%s %s (free generators, benign run): max|probe - expected| / max|expected|" % (f["twin"], ph), track=trk, **f)
        if judge_dataset_params:
            ctx.close(rd, free_full["dataset"], "dataset_parameters_differ", lambda: "%s %s (free generators, benign run): learned descan shifts / scan positions" % (f["twin"], ph), track=trk, **f)
        return max(r, rl, ro, rp)
    if first_only is not None:
        st = ctx.state.setdefault("free_noise", {"obj": 0.0, "probe": 0.0, "loss_history": 0.0})
        st.update(obj=max(st["obj"], ro), probe=max(st["probe"], rp), loss_history=max(st["loss_history"], _relmax(ref["iter_losses"], got["iter_losses"]) if same_len else 0.0))
        ctx.state["evidence_extra"] = {"free_running_generators_unjudged_noise": st}
        return r
    ctx.close(ro, tol, "obj_differs", lambda: "%s %s: max|obj - expected| / max|expected|" % (f["twin"], ph), track="%s:%s" % (ph, f["sync"]), **f)
    ctx.close(rp, tol, "probe_differs", lambda: "%s %s: max|probe - expected| / max|expected|" % (f["twin"], ph), track="%s:%s" % (ph, f["sync"]), **f)
    if judge_dataset_params:
        # with a dataset optimizer the learned scan positions / descan shifts are part of what the continued loss history is a function of
        ctx.close(rd, tol, "dataset_parameters_differ", lambda: "%s %s: learned descan shifts / scan positions differ (max-abs relative)" % (f["twin"], ph), track="%s:%s" % (ph, f["sync"]), **f)
    else:
        _observe_unjudged(ctx, "learned_dataset_parameters:%s" % ph, rd > tol)
    snaps_ok = len(ref["snapshots"]) == len(got["snapshots"]) and all(x["iteration"] == y["iteration"] and _relmax(x["obj"], y["obj"]) <= tol and _relmax(x["probe"], y["probe"]) <= tol for x, y in zip(ref["snapshots"], got["snapshots"]))
    if ref["snapshots"] or got["snapshots"]:
        _observe_unjudged(ctx, "stored_snapshots:%s" % ph, not snaps_ok)
    return max(r, ro, rp)


# ------------------------------------------------------------------------------------------------


def _state_items(pt):
    """(what, identity) of everything mutable that a reconstruction owns: the three model objects, the storage of their parameters, optimizers, schedulers"""
    items = []
    for what, m in (("obj_model", pt.obj_model), ("probe_model", pt.probe_model), ("dset", pt.dset)):
        items.append(("model:" + what, id(m)))
        for p_ in m.parameters():
            if p_.numel():
                items.append(("parameter:" + what, ("storage", p_.untyped_storage().data_ptr())))
        for attr in ("optimizer", "scheduler"):
            o = getattr(m, attr, None)
            if o is not None:
                items.append(("%s:%s" % (attr, what), id(o)))
    return items


def _judge_no_sharing(ctx, objs, f, when):
    """objs: name -> Ptychography (all alive).  No model object / parameter storage / optimizer / scheduler of one may belong to another as well."""
    owner = {}
    for name, pt in objs.items():
        shared = []
        for what, key in _state_items(pt):
            o = owner.setdefault((what.split(":")[0] == "parameter", key), (name, what))
            if o[0] != name:
                shared.append((what, o[0]))
        ctx.check(not shared, "twin_shares_state", lambda: "%s (%s): %s" % (name, when, ", ".join("%s is also %s's" % (w, o_) for w, o_ in shared[:6])),
                  what=sorted(set(w for w, _ in shared))[0] if shared else "", shared_with=shared[0][1] if shared else "", **dict(f, twin=name, phase=when))


def _failed_saves(ctx, pt, tmp, idx, rng, quiet):
    """save attempts that raise on the unchanged tree as well (existing target with the default mode="w", raw and raw-free, zip and dir; a directory store
    with a file-like name) - caught by the caller, as a script that checkpoints periodically would.  They must leave no trace in later checkpoints."""
    import os

    ez = os.path.join(tmp, "c05_%d_exists.zip" % idx)
    ed = os.path.join(tmp, "c05_%d_exists_dir" % idx)
    if not os.path.exists(ez):
        with open(ez, "wb") as fh:
            fh.write(b"occupied")
    os.makedirs(ed, exist_ok=True)
    attempts = [(ez, "zip", False), (ed, "dir", False), (ez, "zip", True), (ed, "dir", True), (os.path.join(tmp, "c05_%d_bad.zip" % idx), "dir", bool(rng.random() < 0.5))]
    picks = [attempts[i] for i in sorted(set(int(x) for x in rng.integers(0, len(attempts), size=int(rng.integers(1, 4)))))]
    if not any(not raw for _p, _s, raw in picks):
        picks.append(attempts[int(rng.integers(0, 2))])  # at least one raw-data-free attempt
    for path, store, raw in picks:
        try:
            with quiet():
                pt.save(path, store=store, save_raw_data=raw)
        except (FileExistsError, ValueError):
            ctx.count("failed_saves_caught")
        else:
            from vf.core import HarnessError

            raise HarnessError("a save that was expected to raise succeeded: %s store=%s" % (path, store))
    return len(picks)


def _continue(pt, calls, quiet):
    with quiet():
        for kw in calls:
            pt.reconstruct(**_cp(kw))


def _run_twins(spec, idx, ctx):
    st = ctx.state
    scenes, Pty, quiet = st["scenes"], st["Ptychography"], st["quiet"]
    rng = ctx.rng(idx)
    sc = scenes.make_scene(rng, gpts=(int(rng.integers(2, 6)), int(rng.integers(2, 6))), roi=(int(rng.integers(8, 14)), int(rng.integers(8, 14))),
                           num_slices=int(rng.choice([1, 1, 2, 3])), num_modes=int(rng.choice([1, 2, 3])), pad_req=(int(rng.integers(0, 6)), int(rng.integers(0, 6))))
    I = scenes.simulate_scene(sc)
    J = int(np.prod(sc.gpts))
    k, style, sync = int(spec["k"]), spec["style"], bool(spec["sync"])
    opt_name, sched_name = spec["opt"], spec["sched"]
    benign = bool(spec.get("benign"))
    if benign:
        # designated class: generators left alone AND numerically benign (plain SGD on object, probe and dataset, no loss-driven scheduler), so that the
        # whole continuation can be judged although the order inside the full batch differs after a reload
        sync, opt_name = False, "sgd"
        sched_name = "exp" if sched_name == "plateau" else sched_name
        style = style if style in ("plain", "two_calls", "new_constraints") else "plain"
    add_ds = style == "add_dataset_optimizer"  # the dataset parameters are learnable, but their optimizer only appears in the continuation
    dataset = (not add_ds) and bool(rng.random() < (0.75 if benign else 0.35))  # a dataset optimizer exists at the split
    learn_descan = dataset or (add_ds and bool(rng.random() < 0.8))
    learn_pos = (dataset and bool(rng.random() < (0.3 if benign else 0.6))) or (add_ds and (not learn_descan or bool(rng.random() < 0.5)))
    seed = int(rng.integers(1 << 30))
    init = "uniform" if rng.random() < 0.7 else None
    loss_type = ["l2_amplitude", "l2_amplitude", "l1_amplitude", "l2_intensity", "poisson"][int(rng.integers(5))]

    def build():
        return scenes.build_library(sc, I, seed=seed, obj_init=init, install_truth=False, learn_descan=learn_descan, learn_scan_positions=learn_pos)

    m = int(rng.integers(2, 5)) if (spec["i"] % 7 or benign) else 1
    op = _opt_params(rng, opt_name, dataset, ds_sgd=benign)
    sp = _sched_params(rng, sched_name, list(op), 0)  # (0: schedulers never derive their rate from the length of the installing call, which may be 0)
    cons = _constraints(rng, sc, dataset)
    hrng = ctx.rng(idx, 11)
    hp = bool(spec.get("hp"))
    # (the benign free-generator class stays plain SGD: its bounds were measured for that)
    n_nd, n_cm = (0, 0) if benign else _widen_hyper(hrng, op, sp, force=hp)
    if benign and dataset and rng.random() < 0.8:
        # a dataset soft constraint that is a function of the WHOLE descan field (total variation along the scan): hostile to anything that looks at the
        # descan shifts in batch order
        cons.setdefault("dataset", {})["descan_tv_weight"] = float(10 ** rng.uniform(-2.5, -0.5))
    snaps = bool(rng.random() < 0.4)
    if snaps and rng.random() < 0.5:
        # no active probe constraint: the public probe is then the live parameter itself (hostile for stored snapshots)
        cons.setdefault("probe", {}).update(orthogonalize_probe=False, center_probe=False)
    errors = spec.get("errors", "none")  # none | at_split | before_split | both
    k_b = int(rng.integers(1, k + 1)) if (errors in ("before_split", "both") and k >= 1) else 0
    first = dict(num_iters=k - k_b, reset=True, optimizer_params=op, scheduler_params=sp, constraints=cons, batch_size=J, loss_type=loss_type)
    if snaps:
        first["store_snapshots_every"] = int(rng.integers(1, 3))
    second = dict(num_iters=k_b, batch_size=J, loss_type=loss_type) if k_b else None
    cont = [dict(num_iters=m, batch_size=J, loss_type=loss_type)]
    if style == "two_calls":
        cont.append(dict(num_iters=int(rng.integers(1, 3)), batch_size=J, loss_type=loss_type))
    elif style == "new_constraints":
        cont[0]["constraints"] = {"object": {"tv_weight_xy": 3e-3, "apply_fov_mask": bool(rng.random() < 0.5)}, "probe": {"center_probe": bool(rng.random() < 0.5)}}
    elif style == "add_probe_optimizer":
        op0 = {"object": op["object"]}
        if dataset:
            op0["dataset"] = op["dataset"]
        first["optimizer_params"] = op0
        if sp is not None:
            first["scheduler_params"] = {kk: v for kk, v in sp.items() if kk in op0}
        cont[0]["optimizer_params"] = {"probe": op["probe"]}
    elif style == "new_scheduler":
        cont[0]["scheduler_params"] = {"object": _sched_one(rng, SCHEDULERS[1 + int(rng.integers(4))])}
        if not benign:
            _widen_sched(hrng, cont[0]["scheduler_params"]["object"], 0.5)
    elif add_ds:
        cont[0]["optimizer_params"] = {"dataset": {"type": ["adam", "sgd"][int(rng.integers(2))], "lr": float(10 ** rng.uniform(-2.5, -1.5))}}
        if rng.random() < 0.4:
            cont.append(dict(num_iters=int(rng.integers(1, 3)), batch_size=J, loss_type=loss_type))
    ds_active = dataset or add_ds  # learned scan positions / descan shifts take part in the continuation
    order = spec.get("order", "twins_first")
    f0 = {"optimizer": opt_name, "scheduler": sched_name, "style": style, "sync": "sync" if sync else "free", "dataset_optimizer": dataset, "benign": benign, "momentum_cycling": n_cm > 0, "nondefault_hyper": n_nd > 0}
    sync_seed = int(rng.integers(1 << 30))
    pre_seed = int(rng.integers(1 << 30))

    def cont_run(pt):
        if sync:
            pt.rng = sync_seed
        _continue(pt, cont, quiet)

    def to_split(pt, interrupted):
        """the calls up to the split; the interrupted original additionally suffers save attempts that raise (and are caught)"""
        _continue(pt, [first], quiet)
        if second is not None:
            if interrupted:
                _failed_saves(ctx, pt, ctx.tmp, idx, ctx.rng(idx, 7), quiet)
            pt.rng = pre_seed  # same public call on reference and original
            _continue(pt, [second], quiet)
        if interrupted and errors in ("at_split", "both"):
            _failed_saves(ctx, pt, ctx.tmp, idx, ctx.rng(idx, 8), quiet)

    # ---- reference: never saved, never copied -------------------------------------------------------
    R = build()
    to_split(R, False)
    ref_split = _snap(R)
    cont_run(R)
    ref_final = _snap(R)
    del R
    # ---- original, interrupted at k ------------------------------------------------------------------
    A = build()
    to_split(A, True)
    split = _snap(A)
    off = _off_defaults(A)
    ctx.count("cases_cyclic_momentum", int(n_cm > 0))
    ctx.count("cases_nondefault_hyperparameters", int(n_nd > 0))
    ctx.count("cases_split_inside_cycle_entry_off_defaults", int(off > 0))
    # up to the split the original made the same calls as the reference (plus failed saves): same state, bitwise in practice
    _compare(ctx, ref_split, split, TOL_STATE, dict(f0, twin="original_before_checkpoint", phase="state"), judge_dataset_params=ds_active)
    twins = {}
    tmp = ctx.tmp
    import os

    with quiet():
        pz = os.path.join(tmp, "c05_%d.zip" % idx)
        A.save(pz, mode="o", store="zip", save_raw_data=True)
        twins["zip"] = Pty.from_file(pz)
        pd = os.path.join(tmp, "c05_%d_dir" % idx)
        A.save(pd, mode="o", store="dir", save_raw_data=True)
        twins["dir"] = Pty.from_file(pd)
        twins["clone"] = A.clone()
        ptmod = st["ptmod"]
        if hasattr(ptmod, "copy") and not isinstance(getattr(ptmod, "copy"), _Shim):
            real = ptmod.copy
            shim = _Shim(real)
            ptmod.copy = shim
            try:
                twins["fallback"] = A.clone()
            finally:
                ptmod.copy = real
            ctx.count("fallback_forced", shim.calls)
            if shim.calls == 0:
                ctx.hooks_missing.append("ptychography.copy.deepcopy(not looked up)")
                twins.pop("fallback")
        elif hasattr(ptmod, "deepcopy"):
            real = ptmod.deepcopy
            calls = []

            def raiser(*a, **kk):
                calls.append(1)
                raise RuntimeError("vf: injected deepcopy failure")

            ptmod.deepcopy = raiser
            try:
                twins["fallback"] = A.clone()
            finally:
                ptmod.deepcopy = real
            ctx.count("fallback_forced", len(calls))
        # raw-data-free save, reloaded onto an identically preprocessed dataset
        nr_store = "zip" if idx % 2 == 0 else "dir"
        pn = os.path.join(tmp, "c05_%d_noraw%s" % (idx, ".zip" if nr_store == "zip" else ""))
        A.save(pn, mode="o", store=nr_store, save_raw_data=False)
        D = build()
        twins["noraw_" + nr_store] = Pty.from_file(pn, dset=D.dset)
    # ---- saving / cloning must not have perturbed the original ---------------------------------------
    fA = dict(f0, twin="original_after_save", phase="state")
    _compare(ctx, split, _snap(A), TOL_STATE, fA, judge_dataset_params=ds_active)
    # ---- state equality right after reload -------------------------------------------------------------
    for name, B in twins.items():
        noraw = name.startswith("noraw")
        _compare(ctx, split, _snap(B), TOL_STATE, dict(f0, twin=name, phase="state"), judge_dataset_constraints=not noraw, judge_dataset_params=ds_active and not noraw)
    everyone = dict(twins, original=A)
    _judge_no_sharing(ctx, everyone, f0, "after_checkpoint")
    # ---- continuation, in both orders (original first / twins first): whoever shares state with somebody else starts from the other's progress ---
    tol = TOL_SYNC
    ckw = {} if sync else {"first_only": k}
    hist = ref_final["iter_losses"]
    stable = bool(np.isfinite(hist).all()) and all(hist[i + 1] <= hist[i] + 1e-3 * abs(hist[i]) for i in range(len(hist) - 1))
    if benign:
        ctx.count("free_benign_cases")
        ctx.count("free_benign_cases_judged_in_full", int(stable))
        if stable:  # (a run that is not monotone is treated like the Adam cases: first continued entry only)
            ckw["free_full"] = TOL_FREE_BENIGN
    worst = 0.0

    def frozen(snap0, pt, who, during):
        s1 = _snap(pt)
        same = s1["num_iters"] == snap0["num_iters"] and all(_relmax(snap0[q], s1[q]) == 0.0 for q in ("obj", "probe", "descan", "positions", "iter_losses"))
        ctx.check(same, "original_changed_by_twin", lambda: "continuing %s changed %s (num_iters %d -> %d, obj %.2e, probe %.2e, descan %.2e, positions %.2e)" % (
            during, who, snap0["num_iters"], s1["num_iters"], _relmax(snap0["obj"], s1["obj"]), _relmax(snap0["probe"], s1["probe"]), _relmax(snap0["descan"], s1["descan"]), _relmax(snap0["positions"], s1["positions"])),
            **dict(f0, twin=who, phase="continuation"))

    def continue_original():
        cont_run(A)
        return _compare(ctx, ref_final, _snap(A), tol, dict(f0, twin="original_after_save", phase="continuation"), judge_dataset_params=ds_active, **ckw)

    if order == "original_first":
        worst = max(worst, continue_original())
    a_before = _snap(A)
    for name, B in twins.items():
        noraw = name.startswith("noraw")
        if noraw and dataset:
            ctx.count("noraw_continuation_not_judged_dataset_optimizer")
            continue
        cont_run(B)
        worst = max(worst, _compare(ctx, ref_final, _snap(B), tol, dict(f0, twin=name, phase="continuation"), judge_dataset_constraints=not noraw, judge_dataset_params=ds_active and not noraw, **ckw))
    frozen(a_before, A, "original", "the reloaded / cloned objects")
    if order != "original_first":
        worst = max(worst, continue_original())
    _judge_no_sharing(ctx, everyone, f0, "after_continuation")
    for p in (pz, pn):
        with _suppress():
            os.remove(p)
    import shutil

    shutil.rmtree(pd, ignore_errors=True)
    shutil.rmtree(pn, ignore_errors=True)
    lrs = ref_final["iter_lrs"].get("object", np.zeros(0))
    lr_changed = bool(len(lrs) > 1 and np.ptp(lrs[lrs > 0]) > 0) if len(lrs) and (lrs > 0).any() else False
    stateful = opt_name != "sgd"
    finite = bool(np.isfinite(ref_final["iter_losses"]).all())
    ctx.count("cases_nonfinite_history", int(not finite))
    ctx.nontrivial((opt_name, sched_name, k, style, dataset, errors != "none", benign, n_cm > 0, n_nd > 0), k >= 1 and m >= 2 and (stateful or lr_changed or benign) and finite)
    ctx.observe(scene=sc.describe(), k=k, m=m, style=style, sync=sync, order=order, failed_saves=errors, iterations_between_failed_save_and_checkpoint=k_b, learn_descan=learn_descan, learn_scan_positions=learn_pos, optimizer=op, scheduler=sp, constraints=cons, loss=loss_type, dataset_optimizer=dataset, snapshots=snaps, twins=sorted(twins), momentum_cycling_schedulers=n_cm, optimizers_with_nondefault_hyperparameters=n_nd, optimizers_off_defaults_at_split=off,
                iter_losses=ref_final["iter_losses"].tolist(), iter_lrs_object=lrs.tolist(), lr_changed=lr_changed, worst_continuation_residual=worst)


def _run_history(spec, idx, ctx):
    """periodic checkpointing: ONE zip path and ONE directory path (per worker, reused by every history case) are overwritten with mode="o" at
    successive split points k1 < k2 < k3 of one run; after every save the file is loaded again, the reloaded object (and a clone of it) must report
    the state at *its* split and, continued with the next call, reach the uninterrupted reference"""
    import os

    st = ctx.state
    scenes, Pty, quiet = st["scenes"], st["Ptychography"], st["quiet"]
    rng = ctx.rng(idx)
    sc = scenes.make_scene(rng, gpts=(int(rng.integers(2, 5)), int(rng.integers(2, 5))), roi=(int(rng.integers(8, 13)), int(rng.integers(8, 13))),
                           num_slices=int(rng.choice([1, 1, 2])), num_modes=int(rng.choice([1, 2, 3])), pad_req=(int(rng.integers(0, 5)), int(rng.integers(0, 5))))
    I = scenes.simulate_scene(sc)
    J = int(np.prod(sc.gpts))
    dataset = bool(rng.random() < 0.25)
    seed = int(rng.integers(1 << 30))
    init = "uniform" if rng.random() < 0.7 else None
    loss_type = ["l2_amplitude", "l2_amplitude", "l1_amplitude", "l2_intensity", "poisson"][int(rng.integers(5))]

    def build():
        return scenes.build_library(sc, I, seed=seed, obj_init=init, install_truth=False, learn_descan=dataset)

    k1 = int(spec["k"]) % 4
    op = _opt_params(rng, spec["opt"], dataset)
    sp = _sched_params(rng, spec["sched"], list(op), k1)
    cons = _constraints(rng, sc, dataset)
    hrng = ctx.rng(idx, 11)
    n_nd, n_cm = _widen_hyper(hrng, op, sp)
    stages = [dict(num_iters=k1, reset=True, optimizer_params=op, scheduler_params=sp, constraints=cons, batch_size=J, loss_type=loss_type)]
    for _ in range(3):
        stages.append(dict(num_iters=int(rng.integers(1, 4)), batch_size=J, loss_type=loss_type))
    if spec["style"] == "new_constraints":
        stages[int(rng.integers(1, 4))]["constraints"] = {"object": {"tv_weight_xy": 3e-3}, "probe": {"center_probe": bool(rng.random() < 0.5)}}
    elif spec["style"] == "new_scheduler":
        j_ = int(rng.integers(1, 4))
        stages[j_]["scheduler_params"] = {"object": _sched_one(rng, SCHEDULERS[1 + int(rng.integers(4))])}
        _widen_sched(hrng, stages[j_]["scheduler_params"]["object"], 0.5)
    seeds = [None] + [int(rng.integers(1 << 30)) for _ in range(3)]
    f0 = {"optimizer": spec["opt"], "scheduler": spec["sched"], "style": "history:" + spec["style"], "sync": "sync", "dataset_optimizer": dataset, "momentum_cycling": n_cm > 0, "nondefault_hyper": n_nd > 0}

    def stage(pt, j):
        if seeds[j] is not None:
            pt.rng = seeds[j]  # the same public call on the reference, the original and every twin (see ASSUMPTIONS)
        _continue(pt, [stages[j]], quiet)

    R = build()
    Rs = []
    for j in range(4):
        stage(R, j)
        Rs.append(_snap(R))
    del R
    A = build()
    stage(A, 0)
    pz = os.path.join(ctx.tmp, "c05_checkpoint.zip")
    pd = os.path.join(ctx.tmp, "c05_checkpoint_dir")
    worst = 0.0
    splits = []
    for j in range(3):
        As = _snap(A)
        splits.append(As["num_iters"])
        ctx.count("cases_split_inside_cycle_entry_off_defaults", int(_off_defaults(A) > 0))
        _compare(ctx, Rs[j], As, TOL_SYNC, dict(f0, twin="original_after_save", phase="state", split=j), judge_dataset_params=dataset)
        with quiet():
            A.save(pz, mode="o", store="zip", save_raw_data=True)
            A.save(pd, mode="o", store="dir", save_raw_data=True)
            twins = {"zip_overwritten": Pty.from_file(pz), "dir_overwritten": Pty.from_file(pd)}
            src = "zip_overwritten" if (idx + j) % 2 == 0 else "dir_overwritten"
            twins["clone_of_reloaded_" + src.split("_")[0]] = Pty.from_file(pz if src.startswith("zip") else pd).clone()
        ctx.count("history_overwrites", 2 if j else 0)
        for name, B in twins.items():
            _compare(ctx, As, _snap(B), TOL_STATE, dict(f0, twin=name, phase="state", split=j), judge_dataset_params=dataset)
        _judge_no_sharing(ctx, dict(twins, original=A), dict(f0, split=j), "after_checkpoint")
        for name, B in twins.items():
            stage(B, j + 1)
            worst = max(worst, _compare(ctx, Rs[j + 1], _snap(B), TOL_SYNC, dict(f0, twin=name, phase="continuation", split=j), judge_dataset_params=dataset))
        _judge_no_sharing(ctx, dict(twins, original=A), dict(f0, split=j), "after_continuation")
        sA = _snap(A)
        ctx.check(_relmax(As["obj"], sA["obj"]) == 0.0 and _relmax(As["probe"], sA["probe"]) == 0.0 and sA["num_iters"] == As["num_iters"], "original_changed_by_twin",
                  "continuing the reloaded / cloned objects changed the original", **dict(f0, twin="original", phase="continuation", split=j))
        del twins
        stage(A, j + 1)
    worst = max(worst, _compare(ctx, Rs[3], _snap(A), TOL_SYNC, dict(f0, twin="original_after_save", phase="continuation", split=3), judge_dataset_params=dataset))
    lrs = Rs[3]["iter_lrs"].get("object", np.zeros(0))
    lr_changed = bool(len(lrs) > 1 and np.ptp(lrs[lrs > 0]) > 0) if len(lrs) and (lrs > 0).any() else False
    finite = bool(np.isfinite(Rs[3]["iter_losses"]).all())
    ctx.count("cases_nonfinite_history", int(not finite))
    ctx.count("history_cases")
    ctx.count("cases_cyclic_momentum", int(n_cm > 0))
    ctx.count("cases_nondefault_hyperparameters", int(n_nd > 0))
    ctx.nontrivial(("history", spec["opt"], spec["sched"], k1, spec["style"], dataset, n_cm > 0, n_nd > 0), (spec["opt"] != "sgd" or lr_changed) and finite)
    ctx.observe(scene=sc.describe(), kind="history", split_points=splits, stages=[s_["num_iters"] for s_ in stages], style=spec["style"], optimizer=op, scheduler=sp, constraints=cons, loss=loss_type,
                dataset_optimizer=dataset, iter_losses=Rs[3]["iter_losses"].tolist(), iter_lrs_object=lrs.tolist(), lr_changed=lr_changed, worst_continuation_residual=worst)


def run_case(spec, idx, ctx):
    if spec.get("kind") == "history":
        _run_history(spec, idx, ctx)
    else:
        _run_twins(spec, idx, ctx)


def _suppress():
    import contextlib

    return contextlib.suppress(Exception)


def summarize(all_cases, counters, extras):
    return {
        "fallback_clone_forced": int(counters.get("fallback_forced", 0)),
        "history_cases": int(counters.get("history_cases", 0)),
        "cases_cyclic_scheduler_cycling_momentum": int(counters.get("cases_cyclic_momentum", 0)),
        "cases_nondefault_optimizer_hyperparameters": int(counters.get("cases_nondefault_hyperparameters", 0)),
        "checkpoints_with_a_param_group_entry_off_the_optimizer_defaults": int(counters.get("cases_split_inside_cycle_entry_off_defaults", 0)),
        "failed_saves_caught": int(counters.get("failed_saves_caught", 0)),
        "checkpoint_overwrites_followed_by_reload": int(counters.get("history_overwrites", 0)),
        "saves": int(counters.get("hook:Ptychography.save", 0)),
        "loads": int(counters.get("hook:Ptychography.from_file", 0)),
        "clones": int(counters.get("hook:Ptychography.clone", 0)),
        "optimizer_reconnects": int(counters.get("hook:OptimizerMixin.reconnect_optimizer_to_parameters", 0)),
        "free_benign_cases": "%d judged in full of %d" % (counters.get("free_benign_cases_judged_in_full", 0), counters.get("free_benign_cases", 0)),
        "tolerances": {"state": TOL_STATE, "continuation_sync": TOL_SYNC, "continuation_free_benign_full": TOL_FREE_BENIGN, "continuation_free_first_iteration_only": TOL_FREE, "lr_history": 1e-6},
        "free_running_generators_unjudged_noise": {k: max([e.get("free_running_generators_unjudged_noise", {}).get(k, 0.0) for e in extras] or [0.0]) for k in ("obj", "probe", "loss_history")},
        "observed_unjudged": {k[len("observed_unjudged:"):]: int(v) for k, v in sorted(counters.items()) if k.startswith("observed_unjudged:")},
    }
