"""C07 — torch Radon / filtered back-projection agree with the scikit-image functions they port.

Oracle: the installed scikit-image (float64) run on exactly the inputs handed to the torch port
(float32): `radon(circle=True)`, `_get_fourier_filter`, `iradon` fed with the *same* sinogram (so
errors of the forward transform do not compound), plus metamorphic relations on the port itself
(batched == per-image, linearity, 0 degree projection == column sums of the disc-masked image) and
one monitored execution path through the caller `TomographyConv._sirt_run_epoch`.  On a share of the
cases the history continues the way a caller may continue it: the returned tensor is edited in place and
the same call repeated (results must be independent values), and arguments are compared with snapshots.
"""
from __future__ import annotations

import itertools
import math
import types
import warnings

import numpy as np

from vf import tensorenv

PROPERTY = "C07"
LEVEL = "exploration"
ANCHOR_FILES = ["quantem/tomography/radon/radon.py", "quantem/tomography/tomography_conv.py"]
RULE = (
    "seeded matrix: filter cases = all six filter names x even sizes 2..1024; radon cases = image size N (5..48, odd and even) x "
    "angle class (axis / uniform / random reals in [0,180] / duplicates / single / endpoints / many) x image kind (smooth Gaussians / "
    "white noise / sharp-edged phantom) x batch 1..4 x amplitude (unit / scaled 1e-12..1e8 / mixed per slice) x memory layout x process-global torch state; iradon cases = N x filter x circle x sinogram kind (skimage radon of smooth / of "
    "noise image, or white-noise sinogram) x theta given/default x output_size default/smaller; sirt cases run "
    "TomographyConv._sirt_run_epoch on a stub and compare the volume update with a scikit-image recomputation; bigbatch cases = a few batches of 10**3..10**4 slices. "
    "non-trivial = (radon/iradon/sirt) image or sinogram not constant and >= 2 angles that are not multiples of 90 degrees, "
    "(filter) a named filter of size >= 4; distinct = (kind, N parity or size class, filter, angle class, batch, circle)"
)
ASSUMPTIONS = [
    "scikit-image as installed in /venv is the reference; it is run in float64 on the float32-rounded inputs (images, sinograms, angles) given to the port",
    "inputs are float32 tensors (the port builds float32 sampling grids; float64 images are refused by grid_sample) and angles are tensors, as in tomography_conv.py",
    "square images only (the property's domain); images handed to scikit-image are zero outside the inscribed disc (its documented precondition), the port is additionally fed the unmasked image",
    "iradon output_size is the default or smaller; pixels whose back-projection coordinate lies within 1e-3 of the first/last detector sample for some angle are not judged (np.interp's left/right cut is discontinuous there; none occur in the default geometry)",
    "call histories include what a caller may do with values it owns: returned filters / sinograms / reconstructions are edited in place (zeroed, scaled, offset) and the same call is repeated - it must return the same, still skimage-conforming, result; argument tensors (images, sinograms, theta) are compared with snapshots after every such call",
    "amplitudes: 35 % of the radon/iradon cases scale the slices by 1e-12..1e8 (one factor, or a different one per slice); every slice is judged relative to its own reference amplitude (not below 1 % of its own input amplitude), so a slice that is lost or mangled next to a bright one is seen",
    "memory layouts: 40 % of the radon/iradon cases hand over images / sinograms / theta as permuted views, strided slices of a larger buffer, windows with a storage offset or stride-0 expansions; the tensor radon_torch returns is fed to iradon_torch as it is (35 % of radon cases)",
    "process-global torch state: 30 % of the cases run under a float64 default dtype, no_grad, inference_mode, deterministic algorithms (warn_only), 2 threads, or with requires_grad inputs; the state is restored in a finally block; float64 *inputs* are not generated (radon_torch's float32 sampling grid refuses them)",
    "large batches: a few cases with B*N*N (radon) / B*A*padded (iradon) just above 2**22..2**25 elements, N 64..310, white-noise data: whole batch vs calls on chunks of 61 slices, and 5-7 slices incl. first/last vs scikit-image; tolerance for N > 48 grows as 400*N*eps32 (measured floor 1.6*N*eps32)",
    "bounds are relative to max|reference| and sized >= 100x the float32 noise floor measured on the repaired tree (see TOL)",
]
BUDGET = {"quick": {"soft_s": 600}, "thorough": {"soft_s": 1200}}
MIN_EVALUATIONS = {"quick": 1500, "thorough": 15000}
REQUIRED_COUNTERS = ["eval:radon_mismatch", "eval:iradon_mismatch", "eval:filter_mismatch", "eval:radon_batch_mismatch", "eval:radon_nonlinear", "eval:zero_deg_projection", "eval:result_not_independent", "eval:argument_modified"]

FILTERS = ["ramp", "shepp-logan", "cosine", "hamming", "hann", None]
ANGLE_CLASSES = ["axis", "uniform", "random", "dup", "single", "endpoints", "many"]
IMAGE_KINDS = ["smooth", "noise", "phantom"]
SINO_KINDS = ["radon_smooth", "radon_noise", "noise"]

# Relative bounds (x max|reference|).  Noise floors (float32 port vs float64 reference) measured on the
# repaired tree, thorough tier, seeds 0..2 (57 000 cases) -- worst values in brackets; every bound is >= 100x its floor
# and far below what the defects found produce (cosine endpoint 5e-2, reflected rotation 1e-1 on noise
# images, extrapolating interpolation 1e-2..9e-2, missing circle padding 1e-2..1 on noise sinograms, default angles O(1)).
TOL = {
    "filter": 2e-4,  # [1.0e-6]
    "radon": 2e-3,  # [6.3e-6] coordinate rounding ~N*eps32 pixels x image gradient (white noise, few angles)
    "iradon": 2e-3,  # [9.4e-6] same mechanism on white-noise sinograms with 1-2 angles
    "batch": 1e-5,  # [0: bit-identical]
    "linear": 5e-4,  # [2.9e-6]
    "zero_deg": 5e-4,  # [4.0e-6]
    "mask": 1e-5,  # [0]
    "sirt": 1e-3,  # [2.2e-6]
}


def _fname(f):
    return "none" if f is None else f


def _fclass(f):
    return "none" if f is None else ("ramp" if f == "ramp" else "windowed")


def plan(tier, seed):
    rng = np.random.default_rng([seed, 7, 999])
    specs = []
    quick = tier == "quick"
    # ---- filters
    if quick:
        sizes = [2, 4, 6, 8, 10, 16, 30, 32, 64, 100, 128, 250, 256, 512, 1000, 1024]
    else:
        sizes = list(range(2, 1025, 2))
    for f in FILTERS:
        for s in sizes:
            specs.append({"kind": "filter", "filter": f, "size": s})
    # ---- radon
    ns = list(range(5, 49))
    reps = 1 if quick else 24
    for n, ac, ik in itertools.product(ns, ANGLE_CLASSES, IMAGE_KINDS):
        for r in range(reps):
            specs.append({"kind": "radon", "n": n, "angles": ac, "image": ik, "batch": int(rng.integers(1, 5)), "theta": "given"})
    for n in ([6, 9] if quick else [5, 6, 9, 12, 16, 17]):
        specs.append({"kind": "radon", "n": n, "angles": "default", "image": "noise", "batch": 1, "theta": "default"})
    # ---- iradon
    for n, f, circle, sk in itertools.product(ns, FILTERS, [True, False], SINO_KINDS):
        for r in range(reps):
            ac = ANGLE_CLASSES[int(rng.integers(len(ANGLE_CLASSES)))]
            specs.append(
                {
                    "kind": "iradon",
                    "n": n,
                    "filter": f,
                    "circle": circle,
                    "sino": sk,
                    "angles": ac,
                    "batch": int(rng.integers(1, 5)),
                    "theta": "default" if rng.random() < 0.12 else "given",
                    "out": "smaller" if rng.random() < 0.25 else "default",
                }
            )
    # ---- the caller in tomography_conv.py
    for r in range(24 if quick else 240):
        specs.append({"kind": "sirt", "n": int(rng.integers(6, 29)), "filter": FILTERS[int(rng.integers(len(FILTERS)))], "depth": int(rng.integers(1, 4))})
    # ---- a few LARGE batches (appended last so that earlier case indices keep their meaning)
    big = [("radon", 128, 24), ("radon", 301, 24), ("radon", 96, 23), ("radon", 128, 25), ("iradon", 64, 22), ("iradon", 128, 23)]
    for r in range(1 if quick else 4):
        for fn, n, e in big:
            specs.append({"kind": "bigbatch", "fn": fn, "n": int(n + (0 if r == 0 else rng.integers(-9, 10))), "log2_elements": e})
    return specs


def setup(ctx):
    import torch
    from skimage.transform import iradon, radon
    from skimage.transform.radon_transform import _get_fourier_filter

    from quantem.tomography import tomography_conv
    from quantem.tomography.radon import radon as qr

    warnings.filterwarnings("ignore", message=".*image must be zero outside.*")
    ctx.state.update(torch=torch, qr=qr, conv=tomography_conv, sk_radon=radon, sk_iradon=iradon, sk_filter=_get_fourier_filter)


# ------------------------------------------------------------------------------------------------
# generators


def _disc(n):
    y, x = np.ogrid[:n, :n]
    return ((x - n // 2) ** 2 + (y - n // 2) ** 2) <= (n // 2) ** 2


def _image(rng, n, kind):
    """float32 image (not masked); amplitude O(1..10)."""
    y, x = np.mgrid[:n, :n].astype(np.float64)
    amp = float(10 ** rng.uniform(-1, 1))
    if kind == "smooth":
        img = np.zeros((n, n))
        for _ in range(int(rng.integers(2, 5))):
            cx, cy = rng.uniform(0.15 * n, 0.85 * n, size=2)
            s = rng.uniform(0.08 * n, 0.3 * n)
            img += rng.uniform(0.3, 1.0) * np.exp(-((x - cx) ** 2 + (y - cy) ** 2) / (2 * s * s))
        img += 0.2
    elif kind == "noise":
        img = rng.normal(size=(n, n))
    else:  # phantom: sharp-edged ellipses and rectangles
        img = np.full((n, n), 0.1)
        for _ in range(int(rng.integers(2, 6))):
            cx, cy = rng.uniform(0.1 * n, 0.9 * n, size=2)
            a, b = rng.uniform(0.06 * n, 0.4 * n, size=2)
            if rng.random() < 0.5:
                sel = ((x - cx) / a) ** 2 + ((y - cy) / b) ** 2 <= 1
            else:
                sel = (np.abs(x - cx) <= a) & (np.abs(y - cy) <= b)
            img[sel] += rng.uniform(-1, 1)
    return (amp * img).astype(np.float32)


def _angles(rng, cls):
    """float32 angle array in [0, 180]."""
    if cls == "axis":
        pool = np.array([0.0, 90.0, 180.0])
        k = int(rng.integers(1, 6))
        th = rng.choice(pool, size=k)
    elif cls == "uniform":
        a = int(rng.integers(2, 41))
        th = np.linspace(0, 180, a, endpoint=False)
    elif cls == "random":
        th = rng.uniform(0, 180, size=int(rng.integers(2, 31)))
        if rng.random() < 0.5:
            th = np.sort(th)
    elif cls == "dup":
        base = rng.uniform(0, 180, size=int(rng.integers(1, 6)))
        th = rng.choice(base, size=int(rng.integers(2, 13)))
    elif cls == "single":
        th = np.array([rng.uniform(0, 180)]) if rng.random() < 0.7 else np.array([float(rng.choice([0.0, 45.0, 90.0, 180.0]))])
    elif cls == "endpoints":
        th = np.concatenate([[0.0, 180.0], rng.uniform(0, 180, size=int(rng.integers(1, 10)))])
        rng.shuffle(th)
    else:  # many
        th = np.sort(rng.uniform(0, 180, size=int(rng.integers(41, 61))))
    return np.asarray(th, dtype=np.float32)


def _n_oblique(th):
    t = np.asarray(th, dtype=np.float64)
    return int(np.sum(np.abs(t / 90.0 - np.round(t / 90.0)) > 1e-6))


def _pow2(n):
    return max(64, int(2 ** math.ceil(math.log2(2 * n))))


def _np(t):
    return t.detach().cpu().numpy().astype(np.float64)


def _at(d):
    """index of the largest entry as plain ints (for messages)."""
    return tuple(int(v) for v in np.unravel_index(int(np.argmax(d)), d.shape))


# ------------------------------------------------------------------------------------------------
# value independence: a returned tensor belongs to the caller, arguments belong to the caller too


def _scribble(ctx, t, rng):
    """edit a returned tensor in place the way a caller might (band-limit / rescale / offset it)."""
    try:
        m = int(rng.integers(3))
        if m == 0:
            t.zero_()
        elif m == 1:
            t.mul_(-2.5)
        else:
            t.add_(1.0)
        ctx.count("results_edited_in_place")
        return True
    except Exception:  # noqa: BLE001  (a result that refuses in-place edits cannot be corrupted this way)
        ctx.count("result_refused_in_place_edit")
        return False


def _args_unchanged(ctx, function, pairs, common):
    for name, before, after in pairs:
        if before is None:
            continue
        ctx.check(after is not None and np.array_equal(before, after, equal_nan=True), "argument_modified", "%s modified its argument %r in place" % (function, name), function=function, argument=name, **common)


def _independent(ctx, function, second, snap, ref, scale, tol, common, what, mask=None):
    d1 = np.abs(second - snap)
    d2 = np.abs(second - ref)
    if mask is not None:
        d2 = d2 * mask
    ctx.close(float(np.max(d1 / scale)), TOL["batch"], "result_not_independent", "%s: %s; the same call then returned something else (worst change %.4g of scale %.4g)" % (function, what, float(d1.max()), float(np.max(scale))), function=function, **common)
    ctx.close(float(np.max(d2 / scale)), tol, "mismatch_after_result_edited", "%s: %s; the same call then no longer agrees with scikit-image" % (function, what), function=function, **common)



# ------------------------------------------------------------------------------------------------
# cases


def _run_filter(spec, idx, ctx):
    torch, qr = ctx.state["torch"], ctx.state["qr"]
    f, size = spec["filter"], spec["size"]
    out = qr.get_fourier_filter_torch(size, f)
    ref = ctx.state["sk_filter"](size, f)
    common = {"filter": _fname(f), "filter_class": _fclass(f), "size_class": "pow2" if size & (size - 1) == 0 else "other"}
    common.update(_env(ctx))
    ok = ctx.check(tuple(out.shape) == (1, size), "filter_shape", "shape %s, expected (1,%d)" % (tuple(out.shape), size), **common)
    if ok:
        o = _np(out).ravel()
        r = ref.ravel()
        scale = float(np.max(np.abs(r))) or 1.0
        ctx.close(float(np.max(np.abs(o - r))) / scale, TOL["filter"], "filter_mismatch", lambda: "get_fourier_filter_torch(%d,%r) vs skimage: worst at k=%d torch=%r ref=%r" % (size, f, int(np.argmax(np.abs(o - r))), float(o[np.argmax(np.abs(o - r))]), float(r[np.argmax(np.abs(o - r))])), **common)
        # the returned filter is the caller's: editing it in place must not change what later calls get
        rng = ctx.rng(idx)
        snap = o.copy()
        for dev in (None, torch.device("cpu")):
            got = qr.get_fourier_filter_torch(size, f, device=dev)
            _scribble(ctx, got, rng)
        _scribble(ctx, out, rng)
        again = _np(qr.get_fourier_filter_torch(size, f)).ravel()
        _independent(ctx, "get_fourier_filter_torch", again, snap, r, scale, TOL["filter"], common, "a filter returned for (%d, %r) was edited in place" % (size, f))
    ctx.nontrivial(("filter", _fname(f), size), f is not None and size >= 4)
    ctx.observe(filter=_fname(f), size=size)


def _env(ctx):
    return ctx.state.get("_env", {"state": "default", "layout": "contiguous"})


def _tensor(ctx, arr, rng_key=0):
    """caller-side tensor for `arr` in this case's memory layout / grad setting."""
    torch = ctx.state["torch"]
    env = _env(ctx)
    t = tensorenv.relayout(torch, arr, env["layout"], ctx.state["_lrng"])
    return tensorenv.want_grad(t, env["state"])


def _sl(x, inputs=None):
    """per-slice scale (B,1,1): every slice is judged relative to its own reference amplitude, but not below 1 % of
    its own input amplitude (a tiny output whose reference cancels to almost nothing is not a smaller error scale)."""
    s = np.abs(x).reshape(x.shape[0], -1).max(axis=1)
    if inputs is not None:
        s = np.maximum(s, 0.01 * np.abs(inputs).reshape(inputs.shape[0], -1).max(axis=1))
    top = float(s.max()) if s.size and s.max() > 0 else 1.0
    s = np.where(s > 0, s, top)
    return s.reshape((-1,) + (1,) * (x.ndim - 1))


EPS32 = float(np.finfo(np.float32).eps)


def _tol(kind, n):
    """the coordinate rounding of the float32 sampling grids grows with the image size: ~1.6*N*eps32 measured"""
    return max(TOL[kind], 400 * n * EPS32)


def _amp_factors(rng, B, expanded=False):
    """per-slice amplitude factors: O(1) mostly; otherwise anything from 1e-12 to 1e8, equal or mixed within the batch."""
    r = rng.random()
    if r < 0.65:
        return np.ones(B), "unit"
    if r < 0.85 or expanded or B == 1:
        return np.full(B, 10.0 ** rng.uniform(-12, 8)), "scaled"
    f = 10.0 ** rng.uniform(-12, 8, size=B)
    f[int(rng.integers(B))] = 1.0
    return f, "mixed"


def _radon_call(ctx, imgs32, theta32, keep=False):
    """imgs32: np (B,N,N) float32; returns np float64 (B,A,N) from one batched call of the port.
    The caller's tensors are compared with their values before the call."""
    qr = ctx.state["qr"]
    t = _tensor(ctx, imgs32)
    th = None if theta32 is None else tensorenv.relayout(ctx.state["torch"], theta32, _env(ctx)["layout"] if _env(ctx)["layout"] != "expanded" else "window", ctx.state["_lrng"])
    arg = t[0] if (t.shape[0] == 1 and ctx.state.get("_squeeze_in")) else t
    out = qr.radon_torch(arg, theta=th)
    _args_unchanged(ctx, "radon_torch", [("images", imgs32, tensorenv.values(t)), ("theta", theta32, None if th is None else tensorenv.values(th))], _env(ctx))
    o = _np(out)
    o = o[None] if o.ndim == 2 else o
    if keep:
        return o, tuple(out.shape), out
    return o, tuple(out.shape)


def _run_radon(spec, idx, ctx):
    rng = ctx.rng(idx)
    n, B = spec["n"], spec["batch"]
    default_theta = spec["theta"] == "default"
    theta32 = None if default_theta else _angles(rng, spec["angles"])
    theta_ref = np.arange(180, dtype=np.float64) if default_theta else theta32.astype(np.float64)
    A = len(theta_ref)
    raw = np.stack([_image(rng, n, spec["image"]) for _ in range(B)])
    expanded = _env(ctx)["layout"] == "expanded"
    if expanded:
        raw[:] = raw[0]
    fac, amp_class = _amp_factors(ctx.rng(idx, 3), B, expanded)
    raw = (raw * fac[:, None, None]).astype(np.float32)
    disc = _disc(n)
    masked = (raw * disc).astype(np.float32)
    par = "even" if n % 2 == 0 else "odd"
    common = {"n_parity": par, "angle_class": spec["angles"], "image": spec["image"], "batched": B > 1, "amplitude": amp_class}
    common.update(_env(ctx))
    ctx.state["_squeeze_in"] = bool(rng.random() < 0.5)

    out, shp = _radon_call(ctx, masked, theta32)
    want = (A, n) if B == 1 else (B, A, n)
    if not ctx.check(shp == want, "radon_shape", "radon_torch output shape %s, expected %s" % (shp, want), **common):
        return
    ref = np.stack([ctx.state["sk_radon"](masked[b].astype(np.float64), theta=theta_ref, circle=True).T for b in range(B)])  # (B,A,N)
    scale = _sl(ref, masked)
    d = np.abs(out - ref) / scale
    ctx.close(float(d.max()), _tol("radon", n), "radon_mismatch", lambda: "N=%d B=%d angles=%s amplitude factors %s: worst at (b,angle,pixel)=%s angle=%.4f torch=%.6g skimage=%.6g slice scale=%.4g" % (n, B, spec["angles"], ["%.1e" % v for v in fac], _at(d), theta_ref[_at(d)[1]], out.flat[int(np.argmax(d))], ref.flat[int(np.argmax(d))], float(scale[_at(d)[0], 0, 0])), theta=spec["theta"], **common)

    # the port masks the image itself: the unmasked image must give the same sinogram
    out_raw, _, out_tensor = _radon_call(ctx, raw, theta32, keep=True)
    ctx.close(float(np.max(np.abs(out_raw - out) / scale)), TOL["mask"], "radon_disc_mask", "N=%d: radon_torch(image) differs from radon_torch(image x inscribed disc)" % n, **common)

    # batched == per-image
    if B > 1:
        per = np.concatenate([_radon_call(ctx, masked[b : b + 1], theta32)[0] for b in range(B)])
        ctx.close(float(np.max(np.abs(per - out) / scale)), TOL["batch"], "radon_batch_mismatch", "N=%d B=%d: batched call differs from per-image calls" % (n, B), **common)
    else:
        # a 2-D image and a [1,N,N] batch are the same request
        ctx.state["_squeeze_in"] = not ctx.state["_squeeze_in"]
        alt, _ = _radon_call(ctx, masked, theta32)
        ctx.close(float(np.max(np.abs(alt - out) / scale)), TOL["batch"], "radon_batch_mismatch", "N=%d: 2-D call differs from [1,N,N] call" % n, **common)

    if not default_theta:
        # linearity
        other = np.stack([_image(rng, n, IMAGE_KINDS[int(rng.integers(3))]) for _ in range(B)])
        if expanded:
            other[:] = other[0]
        other = (other * fac[:, None, None]).astype(np.float32)
        a, b = (float(v) for v in rng.uniform(-2, 2, size=2))
        comb = (np.float32(a) * raw + np.float32(b) * other).astype(np.float32)
        o_comb, _ = _radon_call(ctx, comb, theta32)
        o_other, _ = _radon_call(ctx, other, theta32)
        lin = np.float64(np.float32(a)) * out_raw + np.float64(np.float32(b)) * o_other
        lscale = np.maximum(np.maximum(_sl(lin), abs(a) * scale), 1e-30)
        ctx.close(float(np.max(np.abs(o_comb - lin) / lscale)), TOL["linear"], "radon_nonlinear", "N=%d: R(a x + b y) != a R(x) + b R(y), a=%.3f b=%.3f" % (n, a, b), **common)

    # 0 degree projection == column sums of the disc-masked image
    z, _ = _radon_call(ctx, raw, np.zeros(1, dtype=np.float32))
    cols = masked.astype(np.float64).sum(axis=1)  # (B,N): sum over rows
    zscale = np.maximum(_sl(cols), 1e-30)
    dz = np.abs(z[:, 0, :] - cols) / zscale
    ctx.close(float(dz.max()), TOL["zero_deg"], "zero_deg_projection", lambda: "N=%d: projection at 0 deg vs column sums, worst (slice, column) %s: %.6g vs %.6g" % (n, _at(dz), z[:, 0, :].flat[int(np.argmax(dz))], cols.flat[int(np.argmax(dz))]), **common)

    if rng.random() < 0.4:
        _radon_independence(ctx, rng, raw, theta32, out_raw, ref, scale, common)
    if not default_theta and ctx.rng(idx, 4).random() < 0.35:
        _pipeline(ctx, ctx.rng(idx, 4), n, out_tensor, theta32, common)
    ctx.nontrivial(("radon", par, spec["angles"], spec["image"], B), float(np.ptp(masked)) > 0 and _n_oblique(theta_ref) >= 2)
    ctx.observe(n=n, batch=B, n_angles=A, angles_head=theta_ref[:4], worst_rel=float(d.max()), amplitude_factors=fac, **_env(ctx))


def _pipeline(ctx, rng, n, sino_tensor, theta32, rcommon):
    """the tensor radon_torch returned (whatever its layout) goes straight into iradon_torch."""
    torch, qr = ctx.state["torch"], ctx.state["qr"]
    f = FILTERS[int(rng.integers(len(FILTERS)))]
    circle = bool(rng.random() < 0.5)
    vals = tensorenv.values(sino_tensor).astype(np.float32)
    out = qr.iradon_torch(sino_tensor, theta=torch.from_numpy(theta32.copy()), filter_name=f, circle=circle)
    _args_unchanged(ctx, "iradon_torch", [("sinograms", vals, tensorenv.values(sino_tensor))], _env(ctx))
    o = _np(out)
    o = o[None] if o.ndim == 2 else o
    v3 = vals[None] if vals.ndim == 2 else vals
    ref = np.stack([ctx.state["sk_iradon"](v3[b].astype(np.float64).T, theta=theta32.astype(np.float64), filter_name=f, circle=circle) for b in range(v3.shape[0])])
    nd = int(math.ceil(math.sqrt(2) * n)) if circle else n
    common = {"n_parity": rcommon["n_parity"], "circle": circle, "filter": _fname(f), "filter_class": _fclass(f), "theta": "given", "out": "default", "sino": "radon_torch_output", "pad_pow2_differs": bool(circle and _pow2(n) != _pow2(nd)), "amplitude": rcommon["amplitude"]}
    common.update(_env(ctx))
    if not ctx.check(o.shape == ref.shape, "iradon_shape", "iradon_torch(radon_torch(x)) shape %s, expected %s" % (o.shape, ref.shape), **common):
        return
    amb = _ambiguous(theta32.astype(np.float64), n, circle, ref.shape[-1])
    d = np.abs(o - ref) * (~amb)[None] / _sl(ref, v3)
    ctx.close(float(d.max()), _tol("iradon", n), "iradon_mismatch", lambda: "N=%d: iradon_torch fed with the tensor returned by radon_torch (strides %s), filter=%r circle=%s: worst at %s torch=%.6g skimage=%.6g" % (n, tuple(sino_tensor.stride()), f, circle, _at(d), o.flat[int(np.argmax(d))], ref.flat[int(np.argmax(d))]), **common)


def _radon_independence(ctx, rng, imgs32, theta32, first, ref, scale, common):
    """a result edited by its owner does not leak into the next call (arguments are checked on every call)."""
    snap, _, res = _radon_call(ctx, imgs32, theta32, keep=True)
    ctx.close(float(np.max(np.abs(snap - first) / scale)), TOL["batch"], "result_not_independent", "radon_torch: repeated identical call differs", function="radon_torch", **common)
    _scribble(ctx, res, rng)
    again, _ = _radon_call(ctx, imgs32, theta32)
    _independent(ctx, "radon_torch", again, snap, ref, scale, TOL["radon"], common, "the returned sinogram was edited in place")


def _iradon_independence(ctx, rng, n, sino32, theta32, f, circle, osz, first, ref, scale, amb, common):
    torch, qr = ctx.state["torch"], ctx.state["qr"]
    snap, _, res = _iradon_call(ctx, sino32, theta32, f, circle, osz, keep=True)
    ctx.close(float(np.max(np.abs(snap - first) / scale)), TOL["batch"], "result_not_independent", "iradon_torch: repeated identical call differs", function="iradon_torch", **common)
    _scribble(ctx, res, rng)
    again, _ = _iradon_call(ctx, sino32, theta32, f, circle, osz)
    _independent(ctx, "iradon_torch", again, snap, ref, scale, TOL["iradon"], common, "the returned reconstruction was edited in place", mask=(~amb)[None])
    # a filter obtained from the public constructor and edited by its owner must not reach iradon_torch
    nd = int(math.ceil(math.sqrt(2) * n)) if circle else n
    for size in sorted({_pow2(nd), _pow2(n)}):
        for dev in (None, torch.device("cpu")):
            _scribble(ctx, qr.get_fourier_filter_torch(size, f, device=dev), rng)
    again, _ = _iradon_call(ctx, sino32, theta32, f, circle, osz)
    _independent(ctx, "iradon_torch", again, snap, ref, scale, TOL["iradon"], common, "a filter returned by get_fourier_filter_torch for the same size and name was edited in place", mask=(~amb)[None])


def _iradon_call(ctx, sino32, theta32, f, circle, osz, keep=False):
    """sino32: np (B,A,N) float32 -> np float64 (B,out,out) from one call of the port."""
    qr = ctx.state["qr"]
    t = _tensor(ctx, sino32)
    arg = t[0] if (t.shape[0] == 1 and ctx.state.get("_squeeze_in")) else t
    th = None if theta32 is None else tensorenv.relayout(ctx.state["torch"], theta32, _env(ctx)["layout"] if _env(ctx)["layout"] != "expanded" else "window", ctx.state["_lrng"])
    out = qr.iradon_torch(arg, theta=th, output_size=osz, filter_name=f, circle=circle)
    _args_unchanged(ctx, "iradon_torch", [("sinograms", sino32, tensorenv.values(t)), ("theta", theta32, None if th is None else tensorenv.values(th))], _env(ctx))
    o = _np(out)
    o = o[None] if o.ndim == 2 else o
    if keep:
        return o, tuple(out.shape), out
    return o, tuple(out.shape)


def _ambiguous(theta_deg, n_det, circle, osz):
    """pixels whose back-projection coordinate sits (within 1e-3) on the first/last detector sample."""
    nd = int(math.ceil(math.sqrt(2) * n_det)) if circle else n_det
    radius = osz // 2
    xpr, ypr = np.mgrid[:osz, :osz] - radius
    amb = np.zeros((osz, osz), bool)
    for ang in np.deg2rad(theta_deg):
        t = ypr * np.cos(ang) - xpr * np.sin(ang) + nd // 2
        amb |= (np.abs(t) < 1e-3) | (np.abs(t - (nd - 1)) < 1e-3)
    return amb


def _run_iradon(spec, idx, ctx):
    rng = ctx.rng(idx)
    n, B, f, circle = spec["n"], spec["batch"], spec["filter"], spec["circle"]
    default_theta = spec["theta"] == "default"
    th32 = _angles(rng, spec["angles"])
    if default_theta and len(th32) < 2:
        th32 = _angles(rng, "uniform")
    A = len(th32)
    # the sinogram: scikit-image's own radon of a disc-masked image, or white noise
    disc = _disc(n)
    if spec["sino"] == "noise":
        sino = rng.normal(size=(B, A, n)) * float(10 ** rng.uniform(-1, 1))
    else:
        kind = "smooth" if spec["sino"] == "radon_smooth" else "noise"
        gen_theta = np.linspace(0, 180, A, endpoint=False) if default_theta else th32.astype(np.float64)
        sino = np.stack([ctx.state["sk_radon"]((_image(rng, n, kind) * disc).astype(np.float64), theta=gen_theta, circle=True).T for _ in range(B)])
    expanded = _env(ctx)["layout"] == "expanded"
    if expanded:
        sino[:] = sino[0]
    fac, amp_class = _amp_factors(ctx.rng(idx, 3), B, expanded)
    sino32 = (sino * fac[:, None, None]).astype(np.float32)
    default_out = n if circle else int(np.floor(np.sqrt(n**2 / 2.0)))
    osz = None if spec["out"] == "default" else int(rng.integers(2, default_out + 1))
    out_n = default_out if osz is None else osz
    theta32 = None if default_theta else th32
    theta_ref = None if default_theta else th32.astype(np.float64)
    par = "even" if n % 2 == 0 else "odd"
    nd = int(math.ceil(math.sqrt(2) * n)) if circle else n
    common = {
        "n_parity": par,
        "circle": bool(circle),
        "filter": _fname(f),
        "filter_class": _fclass(f),
        "theta": spec["theta"],
        "out": spec["out"],
        "sino": spec["sino"],
        "pad_pow2_differs": bool(circle and _pow2(n) != _pow2(nd)),
        "amplitude": amp_class,
    }
    common.update(_env(ctx))
    ctx.state["_squeeze_in"] = bool(rng.random() < 0.5)
    out, shp = _iradon_call(ctx, sino32, theta32, f, circle, osz)
    want = (out_n, out_n) if B == 1 else (B, out_n, out_n)
    if not ctx.check(shp == want, "iradon_shape", "iradon_torch output shape %s, expected %s" % (shp, want), **common):
        return
    ref = np.stack([ctx.state["sk_iradon"](sino32[b].astype(np.float64).T, theta=theta_ref, output_size=osz, filter_name=f, circle=circle) for b in range(B)])
    scale = _sl(ref, sino32)
    th_eff = np.linspace(0, 180, A, endpoint=False) if default_theta else theta_ref
    amb = _ambiguous(th_eff, n, circle, out_n)
    if amb.any():
        ctx.count("iradon_boundary_pixels_not_judged", int(amb.sum()))
    d = np.abs(out - ref) * (~amb)[None] / scale
    ctx.close(float(d.max()), _tol("iradon", n), "iradon_mismatch", lambda: "N=%d B=%d A=%d filter=%r circle=%s out=%s theta=%s amplitude factors %s: worst at (b,row,col)=%s torch=%.6g skimage=%.6g slice scale=%.4g" % (n, B, A, f, circle, osz, spec["theta"], ["%.1e" % v for v in fac], _at(d), out.flat[int(np.argmax(d))], ref.flat[int(np.argmax(d))], float(scale[_at(d)[0], 0, 0])), **common)

    if B > 1:
        per = np.concatenate([_iradon_call(ctx, sino32[b : b + 1], theta32, f, circle, osz)[0] for b in range(B)])
        ctx.close(float(np.max(np.abs(per - out) / scale)), TOL["batch"], "iradon_batch_mismatch", "N=%d B=%d: batched call differs from per-sinogram calls" % (n, B), **common)
    else:
        ctx.state["_squeeze_in"] = not ctx.state["_squeeze_in"]
        alt, _ = _iradon_call(ctx, sino32, theta32, f, circle, osz)
        ctx.close(float(np.max(np.abs(alt - out) / scale)), TOL["batch"], "iradon_batch_mismatch", "N=%d: 2-D call differs from [1,A,N] call" % n, **common)

    # linearity
    other = rng.normal(size=sino32.shape) * (np.std(sino32.astype(np.float64), axis=(1, 2), keepdims=True) + 1e-3 * fac[:, None, None])
    if expanded:
        other[:] = other[0]
    other = other.astype(np.float32)
    a, b = (float(v) for v in rng.uniform(-2, 2, size=2))
    comb = (np.float32(a) * sino32 + np.float32(b) * other).astype(np.float32)
    o_comb, _ = _iradon_call(ctx, comb, theta32, f, circle, osz)
    o_other, _ = _iradon_call(ctx, other, theta32, f, circle, osz)
    lin = np.float64(np.float32(a)) * out + np.float64(np.float32(b)) * o_other
    lscale = np.maximum(np.maximum(np.maximum(_sl(lin), abs(a) * scale), abs(b) * _sl(o_other)), 1e-30)
    ctx.close(float(np.max(np.abs(o_comb - lin) / lscale)), TOL["linear"], "iradon_nonlinear", "N=%d: B(a s + b t) != a B(s) + b B(t), a=%.3f b=%.3f" % (n, a, b), **common)

    if rng.random() < 0.4:
        _iradon_independence(ctx, rng, n, sino32, theta32, f, circle, osz, out, ref, scale, amb, common)
    ctx.nontrivial(("iradon", par, _fname(f), bool(circle), spec["angles"], B, spec["sino"]), float(np.ptp(sino32)) > 0 and _n_oblique(th_eff) >= 2)
    ctx.observe(n=n, batch=B, n_angles=A, filter=_fname(f), circle=bool(circle), output_size=out_n, worst_rel=float(d.max()), amplitude_factors=fac, **_env(ctx))


def _run_bigbatch(spec, idx, ctx):
    """A few LARGE batches (B*N*N beyond 2**23..2**25 elements): the whole batch against calls on small chunks
    (the regime every other case covers) and a handful of slices, incl. the first and last ones, against scikit-image."""
    torch, qr = ctx.state["torch"], ctx.state["qr"]
    rng = ctx.rng(idx)
    n, fn = spec["n"], spec["fn"]
    disc = _disc(n)
    chunk = 61
    common = {"n_parity": "even" if n % 2 == 0 else "odd", "batch_class": "large", "function": fn}
    common.update(_env(ctx))
    if fn == "radon":
        B = int(2 ** spec["log2_elements"] / (n * n) * rng.uniform(1.004, 1.25)) + 1
        th32 = np.sort(rng.uniform(5, 175, size=2)).astype(np.float32)
        imgs = rng.standard_normal((B, n, n), dtype=np.float32)
        imgs *= disc
        t = torch.from_numpy(imgs)
        out = qr.radon_torch(t, theta=torch.from_numpy(th32.copy()))
        if not ctx.check(tuple(out.shape) == (B, 2, n), "radon_shape", "radon_torch output shape %s, expected %s" % (tuple(out.shape), (B, 2, n)), **common):
            return
        o = _np(out)
        per = np.concatenate([_np(qr.radon_torch(t[k : k + chunk], theta=torch.from_numpy(th32.copy()))).reshape(-1, 2, n) for k in range(0, B, chunk)])
        sc = _sl(per)
        db = np.abs(o - per) / sc
        ctx.close(float(db.max()), TOL["batch"], "radon_batch_mismatch", lambda: "N=%d B=%d: batched call differs from calls on chunks of %d slices: %d slices differ, first %d, worst %d" % (n, B, chunk, int(np.sum(db.reshape(B, -1).max(1) > TOL["batch"])), int(np.argmax(db.reshape(B, -1).max(1) > TOL["batch"])), _at(db)[0]), **common)
        pick = sorted({0, 1, B // 2, B - 2, B - 1, int(rng.integers(B)), int(rng.integers(B))})
        ref = np.stack([ctx.state["sk_radon"](imgs[b].astype(np.float64), theta=th32.astype(np.float64), circle=True).T for b in pick])
        d = np.abs(o[pick] - ref) / _sl(ref, imgs[pick])
        ctx.close(float(d.max()), _tol("radon", n), "radon_mismatch", lambda: "N=%d B=%d: slice %d of the large batch differs from skimage" % (n, B, pick[_at(d)[0]]), theta="given", angle_class="random", image="noise", batched=True, amplitude="unit", **common)
    else:
        A = int(rng.integers(3, 7))
        circle = bool(rng.random() < 0.5)
        f = FILTERS[int(rng.integers(len(FILTERS)))]
        nd = int(math.ceil(math.sqrt(2) * n)) if circle else n
        B = int(2 ** spec["log2_elements"] / (A * _pow2(nd)) * rng.uniform(1.004, 1.25)) + 1
        th32 = np.sort(rng.uniform(0, 180, size=A)).astype(np.float32)
        sino = rng.standard_normal((B, A, n), dtype=np.float32)
        t = torch.from_numpy(sino)
        out = qr.iradon_torch(t, theta=torch.from_numpy(th32.copy()), filter_name=f, circle=circle)
        on = n if circle else int(np.floor(np.sqrt(n**2 / 2.0)))
        if not ctx.check(tuple(out.shape) == (B, on, on), "iradon_shape", "iradon_torch output shape %s, expected %s" % (tuple(out.shape), (B, on, on)), **common):
            return
        o = _np(out)
        per = np.concatenate([_np(qr.iradon_torch(t[k : k + chunk], theta=torch.from_numpy(th32.copy()), filter_name=f, circle=circle)).reshape(-1, on, on) for k in range(0, B, chunk)])
        sc = _sl(per)
        db = np.abs(o - per) / sc
        ctx.close(float(db.max()), TOL["batch"], "iradon_batch_mismatch", lambda: "N=%d B=%d A=%d: batched call differs from calls on chunks of %d sinograms, worst slice %d" % (n, B, A, chunk, _at(db)[0]), **common)
        pick = sorted({0, 1, B // 2, B - 2, B - 1, int(rng.integers(B)), int(rng.integers(B))})
        ref = np.stack([ctx.state["sk_iradon"](sino[b].astype(np.float64).T, theta=th32.astype(np.float64), filter_name=f, circle=circle) for b in pick])
        amb = _ambiguous(th32.astype(np.float64), n, circle, on)
        d = np.abs(o[pick] - ref) * (~amb)[None] / _sl(ref, sino[pick])
        ctx.close(float(d.max()), _tol("iradon", n), "iradon_mismatch", lambda: "N=%d B=%d: sinogram %d of the large batch differs from skimage" % (n, B, pick[_at(d)[0]]), circle=circle, filter=_fname(f), filter_class=_fclass(f), theta="given", out="default", sino="noise", pad_pow2_differs=bool(circle and _pow2(n) != _pow2(nd)), amplitude="unit", **common)
    ctx.nontrivial(("bigbatch", fn, n, spec["log2_elements"]), True)
    ctx.observe(n=n, batch=B, function=fn, elements=int(B * n * n), worst_vs_chunks=float(db.max()), **_env(ctx))


def _run_sirt(spec, idx, ctx):
    """One real epoch of TomographyConv._sirt_run_epoch on a stub object vs a scikit-image recomputation."""
    torch, conv = ctx.state["torch"], ctx.state["conv"]
    rng = ctx.rng(idx)
    n, D, f = spec["n"], spec["depth"], spec["filter"]
    th32 = np.sort(rng.uniform(1.0, 179.0, size=int(rng.integers(6, 25)))).astype(np.float32)
    A = len(th32)
    disc = _disc(n)
    truth = np.stack([_image(rng, n, "smooth") * disc for _ in range(D)]).astype(np.float32)
    start = np.stack([_image(rng, n, "smooth") * disc for _ in range(D)]).astype(np.float32)
    sk_radon, sk_iradon = ctx.state["sk_radon"], ctx.state["sk_iradon"]
    thr = th32.astype(np.float64)
    tilt = np.stack([sk_radon(truth[z].astype(np.float64), theta=thr, circle=True).T for z in range(D)]).astype(np.float32)  # (D,A,N)
    vol = torch.from_numpy(start.copy())
    stub = types.SimpleNamespace(volume_obj=types.SimpleNamespace(obj=vol, _obj=vol), device="cpu", dataset=types.SimpleNamespace(tilt_angles=torch.from_numpy(th32)))
    proj, loss = conv.TomographyConv._sirt_run_epoch(
        stub, tilt_series=torch.from_numpy(tilt), proj_forward=torch.zeros(D, A, n), angles=torch.from_numpy(th32), inline_alignment=False, filter_name=f, circle=True, gaussian_kernel=None
    )
    new = _np(stub.volume_obj._obj)
    par = "even" if n % 2 == 0 else "odd"
    common = {"n_parity": par, "filter": _fname(f), "filter_class": _fclass(f), "circle": True}
    common.update(_env(ctx))
    if D == 1 and new.ndim == 2:
        new = new[None]
    if not ctx.check(new.shape == start.shape, "sirt_shape", "volume shape %s -> %s" % (start.shape, new.shape), **common):
        return
    # reference epoch
    est = np.stack([sk_radon(start[z].astype(np.float64), theta=thr, circle=True).T for z in range(D)])
    err = tilt.astype(np.float64) - est
    corr = np.stack([sk_iradon(err[z].T, theta=thr, filter_name=f, circle=True) for z in range(D)])
    norm = sk_iradon(np.ones((n, A)), theta=thr, filter_name=None, circle=True)
    good = norm > 0.1 * (np.pi / 2)
    upd_ref = np.where(good[None], corr / np.where(good, norm, 1.0)[None], 0.0)
    upd = new - start.astype(np.float64)
    scale = max(float(np.max(np.abs(upd_ref))), float(np.max(np.abs(start))), 1e-30)
    d = np.abs(upd - upd_ref) * good[None]
    ctx.close(float(d.max()) / scale, TOL["sirt"], "sirt_update_mismatch", lambda: "N=%d D=%d A=%d filter=%r: worst at %s update=%.6g reference=%.6g scale=%.4g" % (n, D, A, f, _at(d), upd.flat[int(np.argmax(d))], upd_ref.flat[int(np.argmax(d))], scale), **common)
    pscale = float(np.max(np.abs(est))) or 1.0
    pr = _np(proj)
    pr = pr[None] if pr.ndim == 2 else pr
    ctx.close(float(np.max(np.abs(pr - est))) / pscale, TOL["radon"], "sirt_forward_mismatch", "N=%d: forward projection returned by the epoch vs skimage radon" % n, **common)
    ctx.close(abs(float(loss) - float(np.mean(np.abs(err)))) / max(float(np.mean(np.abs(err))), 1e-30), 1e-3, "sirt_loss_mismatch", "loss %.6g vs mean|tilt - radon(volume)| %.6g" % (float(loss), float(np.mean(np.abs(err)))), **common)
    ctx.nontrivial(("sirt", par, _fname(f), D), True)
    ctx.observe(n=n, depth=D, n_angles=A, filter=_fname(f), worst_rel=float(d.max()) / scale)


def run_case(spec, idx, ctx):
    k = spec["kind"]
    erng = ctx.rng(idx, 7)
    big = k == "bigbatch"
    state = tensorenv.pick_state(erng, 0.7 if not big else 1.0)
    layout = tensorenv.pick_layout(erng, 0.6) if k in ("radon", "iradon") else "contiguous"
    ctx.state["_env"] = {"state": state, "layout": layout}
    ctx.state["_lrng"] = ctx.rng(idx, 8)
    ctx.count("state:" + state)
    ctx.count("layout:" + layout)
    with warnings.catch_warnings(), tensorenv.global_state(ctx.state["torch"], state):
        warnings.simplefilter("ignore")
        if k == "filter":
            _run_filter(spec, idx, ctx)
        elif k == "radon":
            _run_radon(spec, idx, ctx)
        elif k == "iradon":
            _run_iradon(spec, idx, ctx)
        elif k == "bigbatch":
            _run_bigbatch(spec, idx, ctx)
        else:
            _run_sirt(spec, idx, ctx)


def summarize(all_cases, counters, extras):
    worst = {}
    for c in all_cases:
        o = c["obs"]
        if "worst_rel" in o and "n" in o:
            key = "even_N" if o["n"] % 2 == 0 else "odd_N"
            worst[key] = max(worst.get(key, 0.0), float(o["worst_rel"]))
    return {
        "worst_relative_deviation_from_skimage_by_parity": worst,
        "sizes_covered": sorted({c["obs"]["n"] for c in all_cases if "n" in c["obs"]}),
        "filter_sizes_covered": len({c["obs"]["size"] for c in all_cases if "size" in c["obs"]}),
        "boundary_pixels_not_judged": int(counters.get("iradon_boundary_pixels_not_judged", 0)),
    }
