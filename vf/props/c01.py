"""C01 - serializer round-trip fidelity.

Oracle: structural deep equality (vf/deq.py) between the in-memory object graph and what the real
``AutoSerialize.save`` / ``quantem.core.io.load`` pair returns, for both stores; strict comparison of
the zip result with the directory result; and the second generation ``load(save(load(save(g))))``
against the first (fixed point).  Workload: an exhaustive value-kind x placement matrix, hostile
attribute names, the full configuration grid (store x compression x path kind x mode) and seeded
random graphs (depth <= 4, width <= 8).
"""
from __future__ import annotations

import hashlib
import os
import shutil
import warnings

PROPERTY = "C01"
LEVEL = "exploration"
ANCHOR_FILES = ["quantem/core/io/serialize.py"]
RULE = (
    "kind matrix: every value kind of vf/serkinds.py (Python scalars incl. nan/inf/-0.0/big ints, strings, paths, every NumPy scalar "
    "kind, arrays of every zarr-storable dtype x {0-d, empty, n-d, non-contiguous, Fortran}, tensors, modules, optimizers, schedulers, "
    "nested objects, rng, loggers, containers) x placement (attribute / singleton list / mixed list / tuple / dict / set / nested "
    "object / list in dict / object in list); hostile attribute names x carrier; configuration grid store x compression(None,0..9) x "
    "str|Path target x mode w|o; seeded random graphs depth<=4 width<=8 (now and then >10 / >100, numeric tables with mixed row kinds); overwrite and "
    "delete-and-recreate histories of same-structure objects on one path (both stores, compression None/0/4, 4 rounds without sleeping, every load vs the latest save); "
    "restructuring histories (9 saves of 5 differently shaped objects to one path with mode 'o': attributes dropped, containers shrunk, array<->scalar<->list<->object, "
    "all-zero arrays over non-zero ones, root class changed; load after every save / with print_file in between / only at the end); after-error histories (a save that raises "
    "on an un-storable member nested at 6 positions, twice; then the repaired same object, a pre-existing other object and 5 freshly built objects must round-trip). "
    "Widening: memory layouts (transposed / strided / reversed / read-only / broadcast stride-0 / NumPy view of torch memory / diagonal / swapaxes arrays; expanded, permuted, "
    "channels_last, unfold, from_numpy tensors), size thresholds (1200 attributes, 1500-item list, 1200-key dict, 1100-item tuple with arrays, 70-level lists / dicts, 55-level "
    "object chain), one sub-object reachable by several paths, neutral calls (print_file, print_tree, repr, deepcopy, unrelated save / load) between history steps, third "
    "generation on every 5th case, save / load under 13 process states (torch grad modes, default dtype, deterministic algorithms, thread count, np.errstate, np.printoptions). Every case: zip and dir round trip vs the original "
    "(deq roundtrip), zip vs dir (deq strict), second generation vs first (deq strict, all-numeric sequences by value). non-trivial = >=3 attributes in the graph "
    "and >=2 distinct value kinds; distinct = sha1 of the sorted multiset of (kind, depth)"
)
ASSUMPTIONS = [
    "attribute names / dict keys: non-empty str without '/', none of the serializer's reserved metadata names (_autoserialize*, _container_type, "
    "_sequence_encoding, _torch_*, _numpy_rng, _python_logger, *.is_path, *.torch_save, *.np_scalar), and no object carrying attribute pairs that "
    "the duck-typed dispatch reads as scheduler / logger / NumPy scalar (step+get_last_lr, log+info, add_scalar+add_image, dtype+item)",
    "all-numeric sequences (and sets): integers within int64",
    "names / dict keys additionally exclude zarr's own reserved spellings: 'zarr.json', '.', '..' and the backslash (zarr normalises it to the path separator); "
    "leading / trailing dots, leading underscores, 'c', '0', '0.0', 200-250 character names and names differing only by case are generated",
    "classes: plain, attrs-defined (with and without slots, __attrs_post_init__) and @dataclass AutoSerialize classes; __slots__-only / dataclass(slots=True) classes are not "
    "generated (the serializer reads __dict__ and silently stores nothing for them)",
    "save() / load() also run under torch.no_grad(), torch.inference_mode(), set_grad_enabled(False) and set_default_dtype(float64): the expected result is the same",
    "optimizers / schedulers (not among the property's value kinds) are generated as attributes only; modules, tensors, loggers and rng generators anywhere",
    "arrays: native byte order, dtypes zarr 3 stores (no object / longdouble); Python complex / bytes / frozenset (dill fallback kinds) are not generated",
    "NumPy scalars and all-numeric sequences are compared by value, rng generators / loggers / summary writers by kind only, NaN == NaN",
    "dict / attribute order and array memory layout are not part of structural equality; aliasing between members is not compared",
]
BUDGET = {"quick": {"soft_s": 300}, "thorough": {"soft_s": 1200}}
MIN_EVALUATIONS = {"quick": 800, "thorough": 3000}
REQUIRED_COUNTERS = ["eval:roundtrip_differs", "eval:cross_store_differs", "eval:fixed_point_differs", "eval:history_stale_load", "eval:after_error_differs"]
EXHAUSTIVE = {"quick": False, "thorough": False}

COMPRESSION = [None, 0, 1, 2, 3, 4, 5, 6, 7, 8, 9]
CORE_PLACEMENTS = ["attr", "list1", "tuple1", "dict", "set1"]
HISTORY_VARIANTS = ["scalars", "arrays", "mixed"]
RESTRUCTURE_MODES = ["load_each", "load_each_print_file", "control_no_intermediate_load", "load_each_neutral_calls"]
AFTER_ERROR_WHERE = ["attr_of_child", "in_list", "in_dict_in_list", "deep_mixed", "in_object_in_list", "in_set_member_tuple"]
NAME_CARRIERS = ["scalar", "path", "array", "tensor", "list", "numlist", "object", "dictkey"]


def plan(tier, seed):
    from vf import serkinds

    specs = []
    # overwrite / delete-and-recreate histories on one path: a load must always reflect the latest save (few and cheap: always run)
    for store in ("zip", "dir"):
        for comp in (None, 0, 4):
            for variant in HISTORY_VARIANTS:
                for how in ("overwrite", "delete_recreate"):
                    for rep_ in range(1 if tier == "quick" else 6):
                        specs.append({"kind": "history", "store": store, "compression": comp, "variant": variant, "how": how, "rounds": 4, "_must_run": True})
    # the same path receives objects of *different* structure (attributes dropped, containers shrunk, kinds changed, all-zero arrays)
    for store in ("zip", "dir"):
        for comp in (None, 4):
            for mode in RESTRUCTURE_MODES:
                for perm in range(2 if tier == "quick" else 8):
                    specs.append({"kind": "restructure", "store": store, "compression": comp, "mode": mode, "perm": perm, "_must_run": True})
    # a save that raises (un-storable member somewhere inside) must not influence any later save of the same process
    n_ae = 0
    for store in ("zip", "dir"):
        for where in AFTER_ERROR_WHERE:
            for bad in ("generator", "unpicklable", "object_array"):
                for repair in ("remove", "replace"):
                    n_ae += 1
                    if tier == "quick" and (n_ae + seed) % 2:
                        continue
                    specs.append({"kind": "after_error", "store": store, "where": where, "bad": bad, "repair": repair, "_must_run": True})
    j = 0
    for k in serkinds.KINDS:
        for p in serkinds.PLACEMENTS:
            if not serkinds.placement_ok(k, p):
                continue
            j += 1
            if tier == "quick" and p not in CORE_PLACEMENTS and (j + seed) % 4:
                continue
            if tier == "quick" and ":layout:" in k and p not in ("attr", "list1", "dict"):
                continue  # layouts: attribute / list item / dict value on quick, every placement on thorough
            specs.append({"kind": "matrix", "vkind": k, "placement": p})
    for nm in serkinds.NASTY_NAMES:
        for c in NAME_CARRIERS:
            specs.append({"kind": "name", "name": nm, "carrier": c})
    # configuration grid on a fixed medium graph: every compression level x store x path kind x mode
    for comp in COMPRESSION:
        for store in ("zip", "dir", "auto_zip", "auto_dir"):
            for pk in ("str", "Path"):
                for mode in ("w", "o"):
                    if tier == "quick" and (len(specs) + seed) % 2:
                        specs.append(None)
                        continue
                    specs.append({"kind": "config", "compression": comp, "store": store, "pathkind": pk, "mode": mode})
    specs = [s for s in specs if s is not None]
    # real library classes as graphs (Dataset of every rank, ragged Vector)
    for r in range(16 if tier == "quick" else 200):
        specs.append({"kind": "library", "which": ["dataset", "dataset", "dataset", "vector"][r % 4], "compression": COMPRESSION[(r * 3) % 11]})
    n = 300 if tier == "quick" else 4000
    for r in range(n):
        specs.append({"kind": "random", "compression": COMPRESSION[r % 11], "pathkind": "Path" if r % 2 else "str", "mode": "o" if r % 3 == 0 else "w", "auto": r % 5 == 0})
    return specs


def setup(ctx):
    warnings.simplefilter("ignore")
    from quantem.core.io import load
    from quantem.core.io.serialize import AutoSerialize

    from vf import deq, sergraph

    ctx.state.update(load=load, AS=AutoSerialize, sg=sergraph, deq=deq)
    try:
        from quantem.core.datastructures import Dataset, Vector

        ctx.state.update(Dataset=Dataset, Vector=Vector)
    except Exception:  # noqa: BLE001
        ctx.hooks_missing.append("quantem.core.datastructures.Dataset/Vector")
    os.makedirs(os.path.join(ctx.tmp, "c01"), exist_ok=True)


# ------------------------------------------------------------------------------------------------


def _level(path):
    """where in the graph a difference sits: the root object's own attribute set or deeper."""
    return "root" if path.count(".") + path.count("[") <= 1 else "nested"


def _target(base, store, pathkind, name):
    from pathlib import Path

    if store in ("zip", "auto_zip"):
        p = os.path.join(base, name + ".zip")
    else:
        p = os.path.join(base, name)
    return Path(p) if pathkind == "Path" else p


CTX_MODES = ["none", "save_no_grad", "load_no_grad", "both_no_grad", "save_inference", "load_inference", "both_inference", "grad_disabled", "default_float64",
             "np_errstate_raise", "np_printoptions", "deterministic_algorithms", "num_threads_3"]


class _ProcessState:
    """process-global torch state under which save() / load() run for this case; always restored."""

    def __init__(self, mode, side):
        self.mode, self.side = mode, side
        self.cm = None
        self.prev = None

    def __enter__(self):
        import torch

        m = self.mode
        if m == "default_float64":
            self.prev = torch.get_default_dtype()
            torch.set_default_dtype(torch.float64)
        elif m == "grad_disabled":
            self.prev = torch.is_grad_enabled()
            torch.set_grad_enabled(False)
        elif m == "np_errstate_raise":
            import numpy as np

            self.cm = np.errstate(all="raise")
            self.cm.__enter__()
        elif m == "np_printoptions":
            import numpy as np

            self.cm = np.printoptions(precision=1, threshold=3, suppress=True)
            self.cm.__enter__()
        elif m == "deterministic_algorithms":
            self.prev = torch.are_deterministic_algorithms_enabled()
            torch.use_deterministic_algorithms(True)
        elif m == "num_threads_3":
            self.prev = torch.get_num_threads()
            torch.set_num_threads(3)
        elif m.endswith("no_grad") and (m.startswith("both") or m.startswith(self.side)):
            self.cm = torch.no_grad()
            self.cm.__enter__()
        elif m.endswith("inference") and (m.startswith("both") or m.startswith(self.side)):
            self.cm = torch.inference_mode()
            self.cm.__enter__()
        return self

    def __exit__(self, *exc):
        import torch

        if self.cm is not None:
            self.cm.__exit__(*exc)
        if self.mode == "default_float64":
            torch.set_default_dtype(self.prev)
        elif self.mode == "grad_disabled":
            torch.set_grad_enabled(self.prev)
        elif self.mode == "deterministic_algorithms":
            torch.use_deterministic_algorithms(self.prev)
        elif self.mode == "num_threads_3":
            torch.set_num_threads(self.prev)
        return False


def _save(ctx, obj, path, store, mode, comp, fields, phase):
    st = {"zip": "zip", "dir": "dir", "auto_zip": "auto", "auto_dir": "auto"}[store]
    try:
        with _ProcessState(ctx.state.get("ctxmode", "none"), "save"):
            obj.save(path, mode=mode, store=st, compression_level=comp)
        return True
    except Exception as e:  # noqa: BLE001
        ctx.check(False, "roundtrip_raises", "%s raised %s: %s" % (phase, type(e).__name__, str(e)[:300]), phase=phase, exc_type=type(e).__name__, **fields)
        return False


def _load(ctx, path, fields, phase):
    try:
        with _ProcessState(ctx.state.get("ctxmode", "none"), "load"):
            return True, ctx.state["load"](path)
    except Exception as e:  # noqa: BLE001
        ctx.check(False, "roundtrip_raises", "%s raised %s: %s" % (phase, type(e).__name__, str(e)[:300]), phase=phase, exc_type=type(e).__name__, **fields)
        return False, None


def _judge(ctx, a, b, mode, mechanism, fields, what, relax=()):
    dq = ctx.state["deq"]
    ds = dq.diffs(a, b, mode, limit=3, relax=relax)
    if not ds:
        ctx.check(True, mechanism)
        return True
    first = True
    for d in ds:
        f = dict(fields)
        f.update(d.fields())
        f["level"] = _level(d.path)
        if first:
            ctx.check(False, mechanism, "%s: %s" % (what, d), **f)
            first = False
        else:
            ctx.viol(mechanism, "%s: %s" % (what, d), **f)
    return False


def _suite(ctx, idx, g, cfg, fields):
    """the three oracles on one graph. cfg: compression, pathkind, mode, stores (zip-like, dir-like)."""
    base = os.path.join(ctx.tmp, "c01", "case%d" % idx)
    shutil.rmtree(base, ignore_errors=True)
    os.makedirs(base)
    comp, pk, mode = cfg.get("compression", 4), cfg.get("pathkind", "str"), cfg.get("mode", "w")
    zs, ds_ = cfg.get("stores", ("zip", "dir"))
    loaded = {}
    try:
        for store in (zs, ds_):
            f = dict(fields, store=store.replace("auto_", ""))
            p = _target(base, store, pk, "t_" + store)
            if mode == "o":
                # overwrite an existing complete object of another class (must be replaced entirely)
                old = ctx.state["sg"].Other()
                old.stale = [1, 2, 3]
                old.x = "old"
                if not _save(ctx, old, p, store, "w", 4, f, "save_old"):
                    continue
            if not _save(ctx, g, p, store, mode, comp, f, "save"):
                continue
            ok, r = _load(ctx, p, f, "load")
            if not ok:
                continue
            loaded[store] = r
            _judge(ctx, g, r, "roundtrip", "roundtrip_differs", f, "load(save(g)) vs g [%s]" % store)
        if zs in loaded and ds_ in loaded:
            _judge(ctx, loaded[zs], loaded[ds_], "loaded", "cross_store_differs", dict(fields, store="both"), "zip result vs dir result")
        # second generation (alternate the store so both are exercised over the run)
        st2 = zs if (idx % 4 < 2 and zs in loaded) or ds_ not in loaded else ds_
        if st2 in loaded and not (cfg.get("gen2_every_other") and idx % 2):
            f = dict(fields, store=st2.replace("auto_", ""))
            p2 = _target(base, st2, pk, "gen2_" + st2)
            if _save(ctx, loaded[st2], p2, st2, "w", comp, f, "save_gen2"):
                ok, r2 = _load(ctx, p2, f, "load_gen2")
                if ok:
                    # the first generation is itself just a graph that is saved: the property compares its all-numeric
                    # sequences by value ({np.int64(-5), True, np.uint64(7)} is stored per item and loads as {-5, True, 7},
                    # which the next save stores as one int64 array -> {-5, 1, 7}); everything else stays strict
                    _judge(ctx, loaded[st2], r2, "loaded", "fixed_point_differs", f, "second generation vs first [%s]" % st2, relax=("numseq",))
                    _judge(ctx, g, r2, "roundtrip", "roundtrip_differs", dict(f, generation=2), "second generation vs g [%s]" % st2)
                    if idx % 5 == 0:
                        # outputs fed back once more: the third generation equals the second
                        p3 = _target(base, st2, pk, "gen3_" + st2)
                        if _save(ctx, r2, p3, st2, "w", comp, f, "save_gen3"):
                            ok3, r3 = _load(ctx, p3, f, "load_gen3")
                            if ok3:
                                _judge(ctx, r2, r3, "loaded", "fixed_point_differs", dict(f, generation=3), "third generation vs second [%s]" % st2, relax=("numseq",))
    finally:
        shutil.rmtree(base, ignore_errors=True)
    return loaded


def _describe(ctx, g):
    dq = ctx.state["deq"]
    ks = dq.walk_kinds(g)
    nattrs = _count_attrs(ctx, g)
    kinds = sorted(set(k for k, _ in ks if k != "autoserialize"))
    sig = hashlib.sha1(repr(sorted(ks)).encode()).hexdigest()[:16]
    return ks, nattrs, kinds, sig


def _count_attrs(ctx, v, depth=0):
    dq = ctx.state["deq"]
    if depth > 12:
        return 0
    if dq.is_autoserialize(v):
        av = dq.attrs_of(v)
        return len(av) + sum(_count_attrs(ctx, x, depth + 1) for x in av.values())
    if isinstance(v, (list, tuple, set)):
        return sum(_count_attrs(ctx, x, depth + 1) for x in v)
    if isinstance(v, dict):
        return sum(_count_attrs(ctx, x, depth + 1) for x in v.values())
    return 0


def _name_case(ctx, spec, rng):
    sg = ctx.state["sg"]
    import numpy as np
    from pathlib import Path

    nm, c = spec["name"], spec["carrier"]
    root = sg.Node()
    root.tag = "names"
    root.plain = 1
    val = {
        "scalar": 3.5,
        "path": Path("p/q"),
        "array": sg.make_array(rng, "int16", "2d"),
        "tensor": sg.make_tensor(rng, "float32"),
        "list": ["a", 1, None],
        "numlist": [1, 2, 3],
        "object": sg.make_leaf(rng),
    }.get(c)
    if c == "dictkey":
        root.d = {nm: sg.make_array(rng, "float32", "1d"), nm + "2": 1, nm + "3": [1, "a"], nm + "4": sg.make_leaf(rng), nm + "5": Path("z"), nm + "6": sg.make_tensor(rng, "float32")}
        if nm.lower() != nm.upper():
            root.d[nm.swapcase()] = sg.make_array(rng, "int8", "1d")  # a key differing only by case
    elif c == "object":
        setattr(root, nm, val)
        setattr(val, nm, "inner value under the same name")
    else:
        setattr(root, nm, val)
    return root


def _config_graph(ctx, rng):
    sg = ctx.state["sg"]
    g = sg.Node()
    g.i = 5
    g.f = float("nan")
    g.s = "héllo"
    g.arr = sg.make_array(rng, "float32", "3d")
    g.big = (rng.normal(size=(40, 50)) * 100).astype("int32")  # large enough for the compressor to matter
    g.words = sg.make_array(rng, "U", "2d")
    g.when = sg.make_array(rng, "M8[ns]", "1d")
    g.z = sg.make_array(rng, "complex64", "2d")
    g.empty = sg.make_array(rng, "int8", "e3")
    g.t = sg.make_tensor(rng, "float32").requires_grad_(True)
    g.lst = [1, 2.5, True]
    g.mix = ["a", sg.make_array(rng, "uint8", "1d"), {"k": (1, 2)}]
    g.child = sg.make_leaf(rng)
    g.mod = sg.build_kind("module:linear", rng)
    return g


def _library_graph(ctx, spec, rng):
    """a Dataset / Vector built through the library's own constructors (None when the constructor is not available)."""
    import numpy as np

    try:
        if spec["which"] == "dataset":
            nd = int(rng.integers(1, 5))
            shape = tuple(int(v) for v in rng.integers(1, 5, size=nd))
            dt = ["float32", "float64", "int16", "uint8", "complex64", "bool"][int(rng.integers(6))]
            arr = ctx.state["sg"].make_array_shape(rng, dt, shape)
            o = ctx.state["Dataset"].from_array(arr, name="d%d" % int(rng.integers(99)), origin=tuple(float(v) for v in rng.normal(size=nd)),
                                                sampling=tuple(float(v) for v in rng.uniform(0.1, 2, size=nd)), units=tuple("A" for _ in range(nd)))
            md = {"note": "héllo", "n": 3, "nested": {"k": [1, 2.5], "p": (1, "a")}, "arr": np.arange(3, dtype=np.int8)}
            if isinstance(getattr(o, "_metadata", None), dict):
                o._metadata.update(md)
            else:
                o._metadata = md
        else:
            o = ctx.state["Vector"].from_shape((2, 3), fields=["a", "b"], name="v")
            for _ in range(4):
                i, j = int(rng.integers(2)), int(rng.integers(3))
                o[i, j] = rng.normal(size=(int(rng.integers(0, 5)), 2))
        return o
    except Exception:  # noqa: BLE001  (constructor API differs: not this property's business)
        return None


def _history_graph(ctx, rng, variant):
    """graphs of one fixed structure whose stored form has the same size for every draw (fixed-width scalars, fixed-shape
    arrays), so that successive saves to one path differ in content only."""
    import numpy as np
    import torch

    sg = ctx.state["sg"]
    g = sg.Node()
    if variant in ("scalars", "mixed"):
        g.i = int(rng.integers(10000, 99999))
        g.f = float(rng.integers(100, 999)) + 0.5
        g.s = "".join("abcdefghij"[int(c)] for c in rng.integers(0, 10, size=8))
        g.flag = True
        g.words = ["w%03d" % int(rng.integers(1000)), "x%03d" % int(rng.integers(1000))]
        g.child = sg.Leaf()
        g.child.n = int(rng.integers(100, 999))
        g.child.tag = "t%04d" % int(rng.integers(10000))
    if variant in ("arrays", "mixed"):
        g.a = rng.normal(size=(4, 5))
        g.b = rng.integers(-1000, 1000, size=7).astype(np.int32)
        g.t = torch.tensor(rng.normal(size=(3, 3)).tolist(), dtype=torch.float32)
        g.nums = [float(v) for v in rng.normal(size=5)]
        g.inner = sg.Other()
        g.inner.arr = rng.integers(0, 255, size=(2, 6)).astype(np.uint8)
    return g


def _run_history(spec, idx, ctx):
    import numpy as np

    load = ctx.state["load"]
    store, comp, variant, how = spec["store"], spec["compression"], spec["variant"], spec["how"]
    base = os.path.join(ctx.tmp, "c01", "hist%d" % idx)
    shutil.rmtree(base, ignore_errors=True)
    os.makedirs(base)
    p = os.path.join(base, "obj.zip" if store == "zip" else "obj")
    f = {"case_kind": "history", "store": store, "compression": str(comp), "variant": variant, "how": how}
    sizes = []
    try:
        for rnd in range(spec["rounds"] + 1):
            g = _history_graph(ctx, np.random.default_rng([int(ctx.seed), 1, int(idx), rnd]), variant)
            if rnd and how == "delete_recreate":
                shutil.rmtree(p) if os.path.isdir(p) else os.remove(p)
            if not _save(ctx, g, p, store, "o" if (rnd and how == "overwrite") else "w", comp, dict(f, round=rnd), "save_round"):
                break
            sizes.append(os.path.getsize(p) if os.path.isfile(p) else -1)
            # two loads back to back, no sleeping: both must show what was saved last
            for rep_ in range(2):
                ok, r = _load(ctx, p, dict(f, round=rnd), "load_round")
                if ok:
                    _judge(ctx, g, r, "roundtrip", "history_stale_load", dict(f, round=min(rnd, 1), second_load=bool(rep_)), "round %d: load after save #%d to the same path (%s)" % (rnd, rnd + 1, how))
    finally:
        shutil.rmtree(base, ignore_errors=True)
    ctx.count("history_cases")
    ctx.nontrivial("history|%s|%s|%s|%s" % (store, comp, variant, how), True)
    ctx.observe(kind="history", store=store, compression=comp, variant=variant, how=how, rounds=spec["rounds"], archive_sizes=sizes)


def _restructure_stage(ctx, rng, stage):
    """five objects of deliberately different structure that share attribute names (stage 0 and 4 are rich, 3 is nearly empty)."""
    import numpy as np
    import torch

    sg = ctx.state["sg"]

    def leaf(cls=None):
        return sg.make_leaf(rng, cls)

    nz = lambda shape, dt="float64": (rng.integers(1, 9, size=shape)).astype(dt)  # noqa: E731  strictly non-zero
    if stage in (0, 4):
        g = sg.Node()
        g.a = nz((3, 4))
        g.b = ["b0", 1, None, nz((2,), "int16"), "b4"]
        g.c = {"k1": 1, "k2": nz((3,)), "k3": [1, 2, 3], "k4": {"in": "ner"}}
        g.d = leaf()
        g.e = int(rng.integers(1, 99))
        g.z = nz((4, 4))
        g.zi = nz((6,), "int32")
        g.extra = "only in the rich stages %d" % int(rng.integers(99))
        g.lst_obj = [leaf(), leaf(sg.Other), leaf()]
        g.t = torch.tensor(rng.normal(size=(2, 3)).tolist(), dtype=torch.float32)
        g.tbl = [(1, 2), (3, 4), (5, int(rng.integers(6, 99)))]
        if stage == 4:
            g.a = nz((3, 4)) + 10
            g.only4 = {"x": 1}
    elif stage == 1:
        g = sg.Node()
        g.a = 7  # array -> scalar
        g.b = ["b0", 1]  # shrunk
        g.c = {"k1": 2, "k9": "new"}  # keys dropped / added
        g.d = [1, "x"]  # object -> list
        g.e = nz((2, 2))  # scalar -> array
        g.z = np.zeros((4, 4))  # all-zero array of the same shape and dtype
        g.zi = np.zeros((6,), dtype=np.int32)
        g.lst_obj = [leaf()]
        g.tbl = [(9, 8)]
    elif stage == 2:
        g = sg.Other()  # another root class
        g.a = ["p", 1]  # -> list
        g.b = leaf()  # list -> object
        g.c = "now a string"
        g.d = leaf(sg.Other)
        g.d.only_here = nz((2,))
        g.z = nz((4, 4))
        g.zi = np.zeros((6,), dtype=np.int32)
        g.fresh = (1, "t")
        g.lst_obj = []
    else:  # stage 3: nearly empty
        g = sg.Node()
        g.a = None
        g.z = np.zeros((4, 4))
        g.t = torch.zeros(2, 3)
    return g


def _run_restructure(spec, idx, ctx):
    import contextlib
    import io

    import numpy as np

    load = ctx.state["load"]
    store, comp, mode = spec["store"], spec["compression"], spec["mode"]
    base = os.path.join(ctx.tmp, "c01", "restr%d" % idx)
    shutil.rmtree(base, ignore_errors=True)
    os.makedirs(base)
    p = os.path.join(base, "obj.zip" if store == "zip" else "obj")
    rng = np.random.default_rng([int(ctx.seed), 1, 8, int(idx)])
    order = [0] + [int(v) for v in rng.permutation([1, 2, 3, 4])] + [1, 0, 3, 2]
    f = {"case_kind": "restructure", "store": store, "compression": str(comp), "variant": "restructure", "how": mode}
    try:
        g = None
        for step, stage in enumerate(order):
            g = _restructure_stage(ctx, rng, stage)
            if not _save(ctx, g, p, store, "o" if step else "w", comp, dict(f, round=step), "save_round"):
                break
            last = step == len(order) - 1
            if mode == "control_no_intermediate_load" and not last:
                continue
            if mode == "load_each_neutral_calls":
                # calls that are neutral on the unchanged tree: they must not change what the next load / save does
                import copy

                from quantem.core.io import print_file

                with contextlib.redirect_stdout(io.StringIO()):
                    print_file(p, depth=2)
                    g.print_tree(depth=2)
                    repr(g)
                    _twin = copy.deepcopy(g)
                    side = os.path.join(base, "side.zip" if step % 2 else "side")
                    g.save(side, mode="o", store="zip" if step % 2 else "dir")
                    ctx.state["load"](side)
                    ctx.state["load"](p)
            if mode == "load_each_print_file":
                try:
                    from quantem.core.io import print_file

                    with contextlib.redirect_stdout(io.StringIO()):
                        print_file(p)
                except Exception as e:  # noqa: BLE001
                    ctx.check(False, "roundtrip_raises", "print_file raised %r" % (e,), phase="print_file", exc_type=type(e).__name__, **f)
            ok, r = _load(ctx, p, dict(f, round=step), "load_round")
            if ok:
                _judge(ctx, g, r, "roundtrip", "history_stale_load", dict(f, round=min(step, 1), second_load=False, prev_stage=order[step - 1] if step else -1, stage=stage),
                       "step %d: load after saving stage %d over stage %s on the same path (%s)" % (step, stage, order[step - 1] if step else "-", mode))
    finally:
        shutil.rmtree(base, ignore_errors=True)
    ctx.count("restructure_cases")
    ctx.nontrivial("restructure|%s|%s|%s|%s" % (store, comp, mode, spec["perm"]), True)
    ctx.observe(kind="restructure", store=store, compression=comp, mode=mode, stage_order=order)


def _graph_with_bad(ctx, rng, where, bad):
    """a graph with an un-storable member somewhere inside containers / nested objects, plus (holder, key) to repair it."""
    sg = ctx.state["sg"]
    g = sg.Node()
    g.first = sg.make_array_shape(rng, "float32", (3,))
    g.n = int(rng.integers(99))
    if where == "attr_of_child":
        g.child = sg.make_leaf(rng)
        g.child.sub = sg.make_leaf(rng, sg.Other)
        g.child.sub.bad = bad
        holder, key = g.child.sub, "bad"
    elif where == "in_list":
        g.items = ["a", sg.make_array_shape(rng, "int16", (2,)), bad, "z"]
        holder, key = g.items, 2
    elif where == "in_dict_in_list":
        g.items = [{"ok": 1, "bad": bad, "after": [1, 2]}, "tail"]
        holder, key = g.items[0], "bad"
    elif where == "deep_mixed":
        g.child = sg.make_leaf(rng)
        g.child.cfg = {"lvl1": [("t", {"lvl3": ["x", bad, "y"]})], "other": (1, 2)}
        holder, key = g.child.cfg["lvl1"][0][1]["lvl3"], 1
    elif where == "in_object_in_list":
        inner = sg.make_leaf(rng)
        inner.bad = bad
        inner.more = {"k": [1, "a"]}
        g.objs = [sg.make_leaf(rng, sg.Other), inner]
        holder, key = inner, "bad"
    elif where == "in_set_member_tuple":
        # the tuple sits in a dict next to a set; the bad member inside a list inside the dict
        g.bag = {"s": {1, "a", (2, 3)}, "l": [bad], "t": ((1, 2), ["q"])}
        holder, key = g.bag["l"], 0
    else:
        raise KeyError(where)
    g.last = {"k": [1, "end"], "m": (2.5, None)}
    g.tail = "after everything"
    return g, holder, key


def _run_after_error(spec, idx, ctx):
    import gc

    import numpy as np

    sg, load = ctx.state["sg"], ctx.state["load"]
    store, where, badk, repair = spec["store"], spec["where"], spec["bad"], spec["repair"]
    rng = np.random.default_rng([int(ctx.seed), 1, 7, int(idx)])
    base = os.path.join(ctx.tmp, "c01", "aerr%d" % idx)
    shutil.rmtree(base, ignore_errors=True)
    os.makedirs(base)
    ext = ".zip" if store == "zip" else ""
    f = {"case_kind": "after_error", "store": store, "where": where, "bad": badk, "repair": repair}

    def roundtrip(obj, name, who):
        p = os.path.join(base, name + ext)
        if _save(ctx, obj, p, store, "o", 4, dict(f, who=who), "save_after_error"):
            ok, r = _load(ctx, p, dict(f, who=who), "load_after_error")
            if ok:
                _judge(ctx, obj, r, "roundtrip", "after_error_differs", dict(f, who=who), "after a failed save: %s" % who)

    try:
        other = sg.fault_graph(int(rng.integers(6)), int(rng.integers(1 << 20)))  # exists before the failure
        g, holder, key = _graph_with_bad(ctx, rng, where, sg.bad_member(badk))
        p = os.path.join(base, "main" + ext)
        failures = 0
        for attempt in range(2):  # fail twice: leaked state must not accumulate either
            try:
                g.save(p, mode="w", store=store)
            except Exception:  # noqa: BLE001  (the caller catches the error and carries on)
                failures += 1
        ctx.check(failures == 2, "after_error_setup", "save of a graph with an un-storable %s member did not raise" % badk, **f)
        # repair the very same object and save it again
        if repair == "remove":
            if isinstance(holder, (list, dict)):
                del holder[key]
            else:
                delattr(holder, key)
        else:
            val = ["replacement", 1, {"k": (1, 2)}]
            if isinstance(holder, (list, dict)):
                holder[key] = val
            else:
                setattr(holder, key, val)
        roundtrip(g, "main", "same_object_repaired")
        roundtrip(other, "other", "different_pre_existing_object")
        roundtrip(g, "main_again", "same_object_repaired_again")
        # objects built right afterwards (freed ids may be reused)
        del g, holder
        gc.collect()
        for j in range(5):
            fresh, _, _ = _graph_with_bad(ctx, rng, AFTER_ERROR_WHERE[(j + idx) % len(AFTER_ERROR_WHERE)], "fine %d" % j)
            roundtrip(fresh, "fresh%d" % j, "fresh_object")
            del fresh
    finally:
        shutil.rmtree(base, ignore_errors=True)
    ctx.count("after_error_cases")
    ctx.nontrivial("after_error|%s|%s|%s|%s" % (store, where, badk, repair), True)
    ctx.observe(kind="after_error", store=store, where=where, bad=badk, repair=repair)


def _torchy(spec):
    k = spec.get("vkind", "")
    return spec["kind"] in ("random", "config", "library") or k.split(":")[0] in ("tensor", "module", "optimizer", "scheduler") or "tensor" in k or k in ("dict:nested", "dict:dot_keys", "dict:zarrish_keys")


def run_case(spec, idx, ctx):
    # save() / load() of this case run under one of the process-global torch states (expectations are the same under all of them)
    mode = CTX_MODES[idx % len(CTX_MODES)] if (_torchy(spec) or idx % 4 == 0) else "none"
    ctx.state["ctxmode"] = mode
    ctx.count("process_state:" + mode)
    try:
        _run_case(spec, idx, ctx)
    finally:
        ctx.state["ctxmode"] = "none"
    if ctx._case is not None:
        ctx.observe(process_state=mode)


def _run_case(spec, idx, ctx):
    sg = ctx.state["sg"]
    rng = ctx.rng(idx)
    kind = spec["kind"]
    if kind == "history":
        return _run_history(spec, idx, ctx)
    if kind == "restructure":
        return _run_restructure(spec, idx, ctx)
    if kind == "after_error":
        return _run_after_error(spec, idx, ctx)
    if kind == "library":
        g = _library_graph(ctx, spec, rng) if "Dataset" in ctx.state else None
        if g is None:
            ctx.count("library_object_unavailable")
            ctx.nontrivial("library-unavailable", False)
            return
        fields = {"case_kind": "library", "which": spec["which"]}
        cfg = {"compression": spec["compression"], "pathkind": "str", "mode": "w"}
    elif kind == "matrix":
        v = sg.build_kind(spec["vkind"], rng)
        g = sg.place(v, spec["placement"], rng)
        fields = {"case_kind": "matrix", "vkind": spec["vkind"], "vclass": spec["vkind"].split(":")[0], "placement": spec["placement"]}
        # quick tier: the second generation of a matrix case is run for every other case (the same kind is hit through its other placements)
        cfg = {"compression": COMPRESSION[idx % 11], "pathkind": "Path" if idx % 2 else "str", "mode": "w", "gen2_every_other": ctx.tier == "quick"}
    elif kind == "name":
        g = _name_case(ctx, spec, rng)
        fields = {"case_kind": "name", "carrier": spec["carrier"]}
        cfg = {"compression": 4, "pathkind": "str", "mode": "w"}
    elif kind == "config":
        g = _config_graph(ctx, rng)
        fields = {"case_kind": "config", "compression": str(spec["compression"]), "pathkind": spec["pathkind"], "mode": spec["mode"]}
        other = {"zip": "dir", "dir": "zip", "auto_zip": "auto_dir", "auto_dir": "auto_zip"}[spec["store"]]
        stores = (spec["store"], other) if "zip" in spec["store"] else (other, spec["store"])
        cfg = {"compression": spec["compression"], "pathkind": spec["pathkind"], "mode": spec["mode"], "stores": stores}
    else:
        g = sg.random_graph(rng, maxdepth=4)
        fields = {"case_kind": "random"}
        cfg = {"compression": spec["compression"], "pathkind": spec["pathkind"], "mode": spec["mode"], "stores": ("auto_zip", "auto_dir") if spec.get("auto") else ("zip", "dir")}
    ks, nattrs, kinds, sig = _describe(ctx, g)
    ctx.count("config:compression=%s" % (cfg["compression"],))
    ctx.count("config:mode=%s" % cfg["mode"])
    ctx.count("config:path=%s" % cfg["pathkind"])
    ctx.count("config:stores=%s" % "+".join(cfg.get("stores", ("zip", "dir"))))
    for k in set(k.split("[")[0] if not k.startswith("ndarray") else k for k, _ in ks):
        ctx.count("kind:" + k)
    _suite(ctx, idx, g, cfg, fields)
    ctx.nontrivial(sig, nattrs >= 3 and len(kinds) >= 2)
    ctx.observe(nodes=len(ks), attributes=nattrs, kinds=kinds[:12], max_depth=max(d for _, d in ks), compression=cfg["compression"], mode=cfg["mode"], pathkind=cfg["pathkind"])


def summarize(all_cases, counters, extras):
    kinds = sorted(k[5:] for k in counters if k.startswith("kind:"))
    return {
        "value_kinds_seen": kinds,
        "compression_levels_seen": sorted(k.split("=")[1] for k in counters if k.startswith("config:compression=")),
        "cases_by_process_state": {k.split(":", 1)[1]: v for k, v in sorted(counters.items()) if k.startswith("process_state:")},
        "history_cases": {k: counters.get(k, 0) for k in ("history_cases", "restructure_cases", "after_error_cases")},
        "deq_modes": {"roundtrip_differs": "roundtrip", "cross_store_differs": "strict (rng/logger kind only)", "fixed_point_differs": "strict (rng/logger kind only, all-numeric sequences by value)"},
    }
