"""C06 — Dataset binning, Fourier resampling, padding and cropping obey conservation laws.

Every case builds a real Dataset, calls the real bin / fourier_resample / pad / crop (copying or in
place) and judges the *result* against oracles that share no code with the library:

* bin: exact block sums by strided slicing in Python-int / float64 arithmetic, the analytic
  calibration statements (sampling*f, origin = mean coordinate of the first block, every block
  centre keeps its coordinate) and count conservation over the covered region;
* fourier_resample: mean (per non-resampled index), physical centre, extent, linearity, identity at
  unchanged shape, up->down round trip on signals without Nyquist content, and an explicit-matrix DFT
  oracle (no np.fft): normalised spectral amplitudes are unchanged strictly inside the common band
  and no content appears beyond the input's band;
* pad(output_shape) -> crop(pad widths): original data back, placement floor-before / ceil-after.
"""
from __future__ import annotations

import itertools

import numpy as np

from vf import dsetgen as G

PROPERTY = "C06"
LEVEL = "exploration"
ANCHOR_FILES = ["quantem/core/datastructures/dataset.py"]
RULE = (
    "seeded matrix over op (bin, resample laws/linearity/identity/up-down, pad-crop, and histories of 3-6 in-place/copying bin/pad/crop/resample calls on ONE object, "
    "every step judged against the state read through the public attributes just before it) x ndim 1..4 x dtype kind (int/float/complex); "
    "plus a fixed menu of 20 big arrays (> 2**22 / > 2**24 elements / > 16 MiB; bool/uint8/uint16/int16/int32/float32/complex64 with full-range values; resample, bin with both "
    "reducers, pad->crop and crop; axis subsets of stacks incl. axis 0 and all axes; copying and in place) judged by mean, centre, extent, identity, linearity, exact block sums, "
    "totals in Python ints and 'frame / sub-block of the big result == the same frame / sub-block processed as a small dataset'; "
    "shapes odd/even/length-1, axis subsets spelled None / int / tuple in any order / negative indices, factors incl. non-dividing and "
    "> length/2, reducers, out shapes x0.3..x3 incl. odd<->even, both copying and in-place variants. non-trivial = non-constant data and "
    "(some bin factor > 1 | some output length != input length | some pad width > 0); distinct = (op, ndim, parity pattern of the shape, "
    "dtype kind, number of axes operated on); for histories: non-trivial = >= 2 distinct op kinds and >= 1 in-place step, distinct = the op sequence"
    " Widening classes on every case: the array argument comes in a random memory layout / ownership (C, Fortran, permuted, strided [::2], negative stride, "
    "interior view, read-only), the dataset is built through one of the equivalent public routes (from_array with calibration / bare + setters / from_shape + array "
    "setter / via copy() / default calibration), float and complex data come in scale families (plain, amplitude 1e+8, 1e-8, weak contrast on a pedestal 1e3..1e6 in single and "
    "1e9..1e12 in double precision), and every library call of 4 in 8 cases runs under process-global state a user may have set (numpy errstate raise, torch default dtype "
    "float64 + grad disabled, numpy print options, quantem config dtype float64), restored afterwards; neutral calls (repr, str, discarded copy / index, property reads, "
    "reductions, calibration written back) are interleaved and must change nothing."
    " Coordinates far from the origin: 3 in 10 datasets (half of the big ones) put the origin of one or more axes 1e3 .. 1e12 fields of view away from zero, "
    "either sign, whole numbers and binary fractions (UNIX-time frame axis with ms frames, stage position in nm with sub-Angstrom pixels), in every "
    "calibration form; all calibration laws are judged per axis -- extent and sampling relative to themselves, centre / origin / block centres relative "
    "to |origin| + extent of that axis"
)
ASSUMPTIONS = [
    "float64 / complex128 / integer inputs are judged at 1e-10 relative to the data scale; float32 / complex64 inputs, for which "
    "the library's arithmetic runs in single precision, at 5e-5 (bin, mean) / 2e-4 (resample content), >= 300x the measured single-precision noise",
    "integer block sums are compared exactly (Python integers); magnitudes are bounded by 2**40 so that int64 accumulators cannot overflow",
    "the explicit-DFT oracle judges spectral *amplitudes* strictly inside the common band and zeros strictly beyond the input band; the Nyquist bins "
    "themselves and the sub-pixel phase convention are not judged (the property does not fix them)",
    "up->down round trips use signals whose Nyquist coefficient is zero on every even resampled axis (x[n] + x[n-1] construction)",
    "an axis may be spelled with a negative index (numpy convention); duplicated or out-of-range axes are not generated",
    "with factors= the output length must be a rounding of length*factor (ties not judged)",
    "big cases (> 2**22 / 2**24 elements, or > 16 MiB with a 20 % margin so that the remainder-trimmed array is still above it) skip the explicit-DFT "
    "oracle; bin is still compared block by block with a vectorised strided oracle accumulating in int64 (exact) / float64, totals are compared as "
    "Python integers, and a sub-block of whole bins (resample: a frame) processed as a small dataset of its own must give the same numbers",
    "big bin / pad / crop inputs use the full range of uint8 / uint16 / int16 / int32 (block sums leave the input dtype's range; int64 accumulators "
    "cannot overflow: |v| < 2**31, block volume <= 49) and bool masks (bin of a mask counts the True pixels; bool is used for bin / pad / crop only); "
    "the result dtype of an integer sum is not prescribed beyond being an integer type that holds the exact sums",
    "expected results do not depend on memory layout, ownership (read-only input), construction route or process-global state; on /repo none of these forms raises",
    "axes=np.int64(k) (a bare NumPy integer, not inside a tuple) raises TypeError on /repo and is not generated; tuples / lists of NumPy integers are",
    "scale families are judged relative to max|data| like every other case (pedestal cases therefore test accumulation precision, not contrast recovery)",
    "calibration arithmetic is float64 whatever the data dtype (float32 calibration arrays are not generated: the library would then do the centre "
    "arithmetic in single precision). Per axis, extent N*sampling and sampling are judged at 1e-12 relative to themselves (they do not depend on where "
    "the axis sits), origin / centre / block-centre coordinates at 1e-12 .. 1e-11 relative to |origin| + extent; measured floor of the unchanged code "
    "over origin/extent ratios up to 1e12: 3.5e-16 for every one of them",
    "class 7 of the widening list (containers with mixed members) does not apply: the Dataset operations take one array",
]
BUDGET = {"quick": {"soft_s": 300}, "thorough": {"soft_s": 1200}}
MIN_EVALUATIONS = {"quick": 5000, "thorough": 100000}
REQUIRED_COUNTERS = [
    "eval:bin_block_values", "eval:bin_origin", "eval:bin_sampling", "eval:bin_count_conservation", "eval:bin_block_centre",
    "eval:rs_mean", "eval:rs_centre", "eval:rs_extent", "eval:rs_linear", "eval:rs_identity", "eval:rs_updown", "eval:rs_spectrum_band",
    "eval:padcrop_roundtrip", "eval:pad_placement", "eval:crop_slice", "eval:copying_call_changed_source", "eval:big_frame_consistency",
]
EXHAUSTIVE = {"quick": False, "thorough": False}

KINDS = [("bin", 8), ("rs_laws", 6), ("rs_linear", 3), ("rs_identity", 2), ("rs_updown", 5), ("padcrop", 4), ("history", 6)]
DKINDS = ["int", "float", "complex"]
TOL = {"64": 1e-10, "32": 5e-5}  # measured floors: 64-bit paths <= 1e-15, float32 bin/mean 1.5e-7
TOL_RS = {"64": 1e-10, "32": 2e-4}  # float32 resample content: measured 6.4e-7
# calibration (float64 arithmetic whatever the data dtype), PER AXIS: sampling / extent relative to themselves, coordinates relative to
# |origin| + extent of the axis.  Measured on the unchanged code over near and far (origin/extent 1e3..1e12) axes: see evidence residuals
CAL_TOL = 1e-12


def plan(tier, seed):
    reps = 30 if tier == "quick" else 2400
    # a handful of large arrays (> 2**22 and ~2**24 elements): size-dependent code paths; must-run, one per worker at the start
    specs = [{"kind": "big", "variant": v, "rep": r, "_must_run": True} for r in range(1 if tier == "quick" else 5) for v in range(len(BIG_MENU))]
    for r in range(reps):
        for (kind, w), ndim, dk in itertools.product(KINDS, (1, 2, 3, 4), DKINDS):
            for j in range(w):
                specs.append({"kind": kind, "ndim": ndim, "dkind": dk})
    return specs


def setup(ctx):
    from quantem.core.datastructures import Dataset, Dataset2d, Dataset3d, Dataset4d, Dataset4dstem

    ctx.state["cls"] = {0: Dataset, 2: Dataset2d, 3: Dataset3d, 4: Dataset4d, "4dstem": Dataset4dstem}
    ctx.state["evidence_extra"] = {"rs_phase_exact_worst": 0.0, "rs_phase_exact_n": 0}
    G.install_state_wrappers(Dataset, ctx)


# ------------------------------------------------------------------------------------------------
# generators


CONSTRUCT_FORMS = ["from_array", "from_array", "bare_then_setters", "from_shape_then_array_setter", "via_copy", "default_calibration"]


def _make(ctx, rng, arr):
    """A real dataset holding arr's values in a random memory layout (C / Fortran / permuted / strided / negative stride / interior view /
    read-only), built through one of the equivalent public construction routes, random calibration; class chosen among those valid for ndim."""
    cls = ctx.state["cls"]
    nd = arr.ndim
    C = cls[0]
    u = rng.random()
    if nd in (2, 3) and u < 0.3:
        C = cls[nd]
    elif nd == 4 and u < 0.45:
        C = cls[4] if u < 0.2 else cls["4dstem"]
    o, s, units = G.rand_calibration(rng, nd)
    data, lay = G.layout(rng, arr)
    form = CONSTRUCT_FORMS[int(rng.integers(len(CONSTRUCT_FORMS)))]
    frng = _side_rng(rng, 0xFA4)
    far = None
    if form != "default_calibration" and frng.random() < FAR_P:
        o, far = _far_origin(frng, o, s, arr.shape)
    if form == "from_shape_then_array_setter" and not hasattr(C, "from_shape"):
        form = "bare_then_setters"
    if form == "from_array":
        ds = C.from_array(data, name="c06", origin=o, sampling=s, units=units)
    elif form == "default_calibration":
        ds = C.from_array(data)
    elif form == "via_copy":
        ds = C.from_array(data, name="c06", origin=o, sampling=s, units=units).copy()
        lay = "c(copy)"
    else:
        if form == "bare_then_setters":
            ds = C.from_array(data)
        else:
            ds = C.from_shape(tuple(arr.shape))
            ds.array = data
        ds.name = "c06"
        ds.units = units
        ds.sampling = s
        ds.origin = o
    ctx.state["last_make"] = {"layout": lay, "construct": form, "far_origin_log10": far}
    ctx.count("far_origin:" + ("no" if far is None else "1e%d" % (3 * int(far // 3))))
    ctx.count("layout:" + lay)
    ctx.count("construct:" + form)
    return ds


def _pick_axes(rng, ndim):
    """(form, canonical axes in call order, argument passed to the library)."""
    u = rng.random()
    if u < 0.35:
        return "all", list(range(ndim)), None
    if u < 0.50:
        ax = int(rng.integers(ndim))
        return "int", [ax], ax
    k = int(rng.integers(1, ndim + 1))
    axes = [int(x) for x in rng.permutation(ndim)[:k]]
    if u < 0.85:
        v = rng.random()
        return "subset", axes, (tuple(axes) if v < 0.55 else (list(axes) if v < 0.8 else tuple(np.int64(a) for a in axes)))
    if k == 1 and rng.random() < 0.5:
        return "negative", axes, axes[0] - ndim
    return "negative", axes, tuple(a - ndim if (i == 0 or rng.random() < 0.6) else a for i, a in enumerate(axes))


def _m(name, prec):
    """value checks on single-precision inputs are tracked under their own name so that evidence shows both noise floors"""
    return name if prec == "64" else name + "_f32"


def _cal(ds):
    return np.asarray(ds.origin, dtype=np.float64).copy(), np.asarray(ds.sampling, dtype=np.float64).copy()


def _side_rng(rng, salt):
    """a generator derived from the current state of `rng` WITHOUT advancing it (the later draws of the case stay what they were)"""
    st = int(rng.bit_generator.state["state"]["state"])
    return np.random.default_rng([st & (2**64 - 1), st >> 64, int(salt)])


FAR_P = 0.3  # share of datasets whose coordinates lie far from the origin


def _far_origin(rng, o, s, shape):
    """Class 'coordinates far from the origin': the origin of (some of) the axes is 1e3 .. 1e12 fields of view away from zero, either
    sign (UNIX-time frame axis with ms frames, stage position in nm with sub-Angstrom pixels).  The container / number type of the
    drawn calibration form is kept (float64 array, list of floats, list of ints, tuple, scalar); float32 arrays are never produced.
    Returns (origin, log10 of the largest |origin| / extent ratio)."""
    nd = len(shape)
    s_ax = np.broadcast_to(np.asarray(s, dtype=np.float64), (nd,))
    ext = np.abs(s_ax) * np.maximum(1, np.asarray(shape, dtype=np.float64))
    pick = rng.random(nd) < 0.6
    pick[int(rng.integers(nd))] = True
    lg = rng.uniform(3.0, 12.0, size=nd)
    sign = np.where(rng.random(nd) < 0.5, -1.0, 1.0)
    far = sign * 10.0**lg * ext
    whole = rng.random(nd) < 0.5  # 1.7e9-like whole numbers and arbitrary binary fractions
    far = np.where(whole, np.round(far), far)
    if np.isscalar(o):  # one origin broadcast to every axis: far relative to the largest field of view
        v = float(sign[0] * 10.0 ** lg[0] * float(np.max(ext)))
        v = float(np.round(v)) if whole[0] else v
        return (int(v) if isinstance(o, (int, np.integer)) and abs(v) < 2**53 else v), float(lg[0])
    new = np.where(pick, far, np.asarray(o, dtype=np.float64))
    lgmax = float(np.max(lg[pick]))
    if isinstance(o, np.ndarray):
        return new.astype(np.float64), lgmax
    ints = all(isinstance(x, (int, np.integer)) for x in o)
    vals = [int(np.round(x)) if (ints and abs(x) < 2**53) else float(x) for x in new]
    return (tuple(vals) if isinstance(o, tuple) else vals), lgmax


def _ax_scales(o0, s0, shape):
    """per-axis scales: coordinate magnitude |origin| + extent, extent N*sampling, sampling.  The extent and the sampling of an axis do
    not depend on where the axis sits, so they are judged relative to themselves; coordinates relative to the coordinate magnitude."""
    N = np.maximum(1.0, np.asarray(shape, dtype=np.float64))
    ext = np.abs(s0) * N
    return np.abs(o0) + ext, ext, np.abs(s0)


def _scale(a):
    m = float(np.max(np.abs(a))) if a.size else 0.0
    return m if m > 0 else 1.0


def _take(a, sl, axis):
    idx = [slice(None)] * a.ndim
    idx[axis] = sl
    return a[tuple(idx)]


def _exact(a):
    """Working copy for oracles: Python ints for integer data, float64/complex128 otherwise."""
    if a.dtype.kind in "iu":
        return a.astype(object)
    return a.astype(np.complex128 if a.dtype.kind == "c" else np.float64)


# ------------------------------------------------------------------------------------------------
# bin


def _block_sum_ref(a, axis_to_factor):
    """Independent block reduction: out[j] = sum_k a[j*f + k] along every binned axis (strided slices)."""
    out = _exact(a)
    for ax, f in axis_to_factor.items():
        nb = out.shape[ax] // f
        trimmed = _take(out, slice(0, nb * f), ax)
        if nb == 0:
            out = trimmed
            continue
        acc = _take(trimmed, slice(0, None, f), ax).copy()
        for k in range(1, f):
            acc = acc + _take(trimmed, slice(k, None, f), ax)
        out = acc
    return out


def _pick_factor(rng, L):
    if L == 1:
        return 1
    u = rng.random()
    if u < 0.08:
        return 1
    if u < 0.2:
        return L
    if u < 0.35:
        return int(rng.integers(L // 2 + 1, L + 1))
    return int(rng.integers(2, L + 1))


def _case_bin(spec, idx, ctx):
    rng = ctx.rng(idx)
    dtype = G.pick_dtype(rng, spec["dkind"])
    shape = G.rand_shape(rng, spec["ndim"])
    a = G.rand_data(rng, shape, dtype)
    ds = _make(ctx, rng, a)
    form, axes, axes_arg = _pick_axes(rng, spec["ndim"])
    factors = [_pick_factor(rng, shape[ax]) for ax in axes]
    if max(factors) == 1:
        j = int(np.argmax([shape[ax] for ax in axes]))
        factors[j] = _pick_factor(rng, shape[axes[j]]) if shape[axes[j]] > 1 else 1
    if len(set(factors)) == 1 and rng.random() < 0.5:
        fac_arg = factors[0] if rng.random() < 0.7 else np.int64(factors[0])
        fac_form = "int"
    else:
        fac_arg = tuple(factors) if rng.random() < 0.7 else [np.int32(f) for f in factors]
        fac_form = "seq"
    reducer = "sum" if rng.random() < 0.6 else "mean"
    inplace = bool(rng.random() < 0.4)
    prec = G.precision(dtype)
    fields = {"op": "bin", "dkind": spec["dkind"], "prec": prec, "ndim": spec["ndim"], "axes_form": form, "inplace": inplace, "reducer": reducer}
    ctx.count("combo:bin:axes=%s:factors=%s:%s:%s" % (form, fac_form, reducer, "inplace" if inplace else "copying"))
    o0, s0 = _cal(ds)
    kw = {}
    if axes_arg is not None:
        kw["axes"] = axes_arg
    if reducer != "sum" or rng.random() < 0.3:
        kw["reducer"] = reducer
    if inplace:
        r = ds.bin(fac_arg, modify_in_place=True, **kw)
        ctx.check(r is None, "inplace_returns_value", "bin(modify_in_place=True) returned %r" % type(r).__name__, **fields)
        res = ds
    else:
        if idx % 2:
            ds.bin(fac_arg, **kw)  # history: an earlier copying call on the same source must not change the outcome of the next one
            ctx.count("copying_call_repeated_on_same_source")
        res = ds.bin(fac_arg, **kw)
    a2f = dict(zip(axes, factors))
    what = lambda: "shape=%s dtype=%s axes=%r factors=%r reducer=%s inplace=%s" % (shape, dtype, axes_arg, fac_arg, reducer, inplace)
    _judge_bin(ctx, a, o0, s0, res, a2f, reducer, prec, fields, what)
    ctx.nontrivial(("bin", spec["ndim"], G.parity_pattern(shape), spec["dkind"], len(axes)), max(factors) > 1 and a.size > 1)
    ctx.observe(shape=shape, dtype=dtype, axes=repr(axes_arg), factors=repr(fac_arg), reducer=reducer, inplace=inplace, cls=type(res).__name__, out_shape=tuple(res.shape))


def _judge_bin(ctx, a, o0, s0, res, a2f, reducer, prec, fields, what):
    """all bin laws for one call: `a`, `o0`, `s0` are the array and calibration read just before the call, `res` the dataset holding the result"""
    shape = tuple(a.shape)
    factors = list(a2f.values())
    exp_shape = tuple(shape[i] // a2f[i] if i in a2f else shape[i] for i in range(len(shape)))
    ok_shape = ctx.check(tuple(res.shape) == exp_shape, "bin_shape", lambda: "%s: result shape %s, expected %s (remainder dropped)" % (what(), tuple(res.shape), exp_shape), **fields)
    o1, s1 = _cal(res)
    ctx.check(len(o1) == len(shape) and len(s1) == len(shape), "bin_calibration_length", lambda: what(), **fields)
    if len(o1) != len(shape) or len(s1) != len(shape):
        return
    # --- calibration laws (analytic) ---
    # per axis: sampling relative to the sampling, coordinates relative to the coordinate magnitude |origin| + extent of that axis
    cs, es, ss = _ax_scales(o0, s0, shape)
    exp_s = np.array([s0[i] * a2f.get(i, 1) for i in range(len(shape))])
    ctx.close(float(np.max(np.abs(s1 - exp_s) / np.abs(exp_s))), CAL_TOL, "bin_sampling", lambda: "%s: sampling %r -> %r, expected %r" % (what(), s0.tolist(), s1.tolist(), exp_s.tolist()), **fields)
    # origin = mean coordinate of the first block (explicit mean over the block's pixel coordinates)
    exp_o = np.array([np.mean(o0[i] + s0[i] * np.arange(a2f.get(i, 1))) for i in range(len(shape))])
    ctx.close(float(np.max(np.abs(o1 - exp_o) / cs)), CAL_TOL, "bin_origin", lambda: "%s: origin %r -> %r, expected %r" % (what(), o0.tolist(), o1.tolist(), exp_o.tolist()), **fields)
    # every block centre keeps its physical coordinate
    worst = 0.0
    for i in range(len(shape)):
        f = a2f.get(i, 1)
        nb = shape[i] // f
        if nb == 0:
            continue
        j = np.arange(nb)
        old = np.array([np.mean(o0[i] + s0[i] * (jj * f + np.arange(f))) for jj in j])
        new = o1[i] + s1[i] * j
        worst = max(worst, float(np.max(np.abs(old - new))) / cs[i])
    ctx.close(worst, 10 * CAL_TOL, "bin_block_centre", lambda: "%s: block-centre coordinate moved" % what(), **fields)
    if not ok_shape:
        return
    # --- block values ---
    ref = _block_sum_ref(a, a2f)
    vol = 1
    for f in factors:
        vol *= f
    got = np.asarray(res.array)
    tol = TOL[prec]
    if a.dtype.kind in "iu" and reducer == "sum":
        same = got.shape == ref.shape and bool(np.all(got.astype(object) == ref)) if ref.size else True
        ctx.close(0.0 if same else 1.0, 0.0, _m("bin_block_values", prec), lambda: "%s: integer block sums differ from the exact sums" % what(), **fields)
        tot_ok = (int(np.sum(got.astype(object))) if got.size else 0) == (int(np.sum(ref)) if ref.size else 0)
        ctx.close(0.0 if tot_ok else 1.0, 0.0, _m("bin_count_conservation", prec), lambda: "%s: sum(binned) != sum(covered region)" % what(), **fields)
    else:
        reff = np.asarray(ref, dtype=np.complex128 if a.dtype.kind == "c" else np.float64)
        sc = _scale(a) * (vol if reducer == "sum" else 1)
        exp = reff / vol if reducer == "mean" else reff
        res_v = float(np.max(np.abs(got - exp))) / sc if exp.size else 0.0
        ctx.close(res_v, tol, _m("bin_block_values", prec), lambda: "%s: block %s differs from the float64 block oracle" % (what(), reducer), **fields)
        # counts over the covered region
        cov = _exact(a)
        for ax, f in a2f.items():
            cov = _take(cov, slice(0, (shape[ax] // f) * f), ax)
        tot_ref = complex(np.sum(np.asarray(cov, dtype=np.complex128))) if cov.size else 0j
        tot_got = complex(np.sum(got.astype(np.complex128))) * (vol if reducer == "mean" else 1) if got.size else 0j
        ctx.close(abs(tot_got - tot_ref) / (_scale(a) * max(1, cov.size)), tol, _m("bin_count_conservation", prec), lambda: "%s: sum(binned)=%r sum(covered)=%r" % (what(), tot_got, tot_ref), **fields)


# ------------------------------------------------------------------------------------------------
# fourier_resample


def _centred_k(L):
    return np.arange(-(L // 2), (L - 1) // 2 + 1)


def _spectrum(x, axes):
    """Explicit-matrix DFT (no np.fft), normalised by the length, frequencies centred, along `axes`."""
    y = np.asarray(x).astype(np.complex128)
    for ax in axes:
        L = y.shape[ax]
        k = _centred_k(L)
        E = np.exp(-2j * np.pi * np.outer(k, np.arange(L)) / L) / L
        y = np.moveaxis(np.tensordot(E, y, axes=(1, ax)), 0, ax)
    return y


def _pick_out_lens(rng, shape, axes, mode):
    lens = []
    for ax in axes:
        N = shape[ax]
        if mode == "up":
            lens.append(int(rng.integers(N, min(3 * N, N + 14) + 1)))
        else:
            lo = max(1, int(np.ceil(0.3 * N)))
            hi = min(3 * N, N + 14)
            lens.append(int(rng.integers(lo, hi + 1)))
    if all(m == shape[ax] for m, ax in zip(lens, axes)):
        j = int(rng.integers(len(axes)))
        lens[j] = shape[axes[j]] + int(rng.integers(1, 4))
    return lens


def _rs_shape(rng, ndim):
    # keep the up-sampled arrays small: the explicit DFT oracle is O(size * length)
    return G.rand_shape(rng, ndim, max_len={1: 24, 2: 12, 3: 7, 4: 5}[ndim], max_total=1500)


def _rs_call(ds, lens, axes_arg, arg_form, shape, axes, inplace, ctx, fields, free=None, warm=False):
    kw = {}
    if axes_arg is not None:
        kw["axes"] = axes_arg
    if arg_form == "out_shape":
        kw["out_shape"] = tuple(lens)
    elif arg_form == "out_shape_list":
        kw["out_shape"] = [np.int64(m) for m in lens]
    else:
        kw["factors"] = tuple(m / shape[ax] for m, ax in zip(lens, axes)) if free is None else (free if len(set(free)) > 1 else free[0])
    if inplace:
        r = ds.fourier_resample(modify_in_place=True, **kw)
        ctx.check(r is None, "inplace_returns_value", "fourier_resample(modify_in_place=True) returned %r" % type(r).__name__, **fields)
        return ds
    if warm:
        ds.fourier_resample(**kw)  # history: an earlier copying call on the same source must not change the outcome of the next one
        ctx.count("copying_call_repeated_on_same_source")
    return ds.fourier_resample(**kw)


def _rs_calibration_laws(ctx, o0, s0, shape, res, axes, fields, what):
    o1, s1 = _cal(res)
    nd = len(shape)
    if not ctx.check(len(o1) == nd and len(s1) == nd, "rs_calibration_length", what, **fields):
        return
    M = tuple(res.shape)
    N = np.array(shape, dtype=np.float64)
    # per axis: the centre is a coordinate (judged relative to |origin| + extent of that axis), the extent does not depend on the origin
    # and is judged relative to itself -- also when the axis sits 1e3 .. 1e12 fields of view away from zero
    cs, es, ss = _ax_scales(o0, s0, shape)
    c0 = o0 + (N - 1) / 2.0 * s0
    c1 = o1 + (np.array(M, dtype=np.float64) - 1) / 2.0 * s1
    ctx.close(float(np.max(np.abs(c1 - c0) / cs)), 10 * CAL_TOL, "rs_centre", lambda: "%s: centre %r -> %r" % (what(), c0.tolist(), c1.tolist()), **fields)
    e0 = N * s0
    e1 = np.array(M, dtype=np.float64) * s1
    ctx.close(float(np.max(np.abs(e1 - e0) / es)), CAL_TOL, "rs_extent", lambda: "%s: extent %r -> %r (origin %r)" % (what(), e0.tolist(), e1.tolist(), o0.tolist()), **fields)
    rest = [i for i in range(nd) if i not in axes]
    if rest:
        d = max(float(np.max(np.abs(o1[rest] - o0[rest]) / cs[rest])), float(np.max(np.abs(s1[rest] - s0[rest]) / ss[rest])))
        ctx.close(d, CAL_TOL, "rs_untouched_axis_calibration", lambda: "%s: calibration of a non-resampled axis changed" % what(), **fields)


def _judge_rs_laws(ctx, a, o0, s0, res, axes, prec, fields, what):
    """mean / centre / extent / explicit-DFT laws of one fourier_resample call relative to the state read just before it"""
    shape = tuple(a.shape)
    ndim = a.ndim
    tol, tolc = TOL[prec], TOL_RS[prec]
    out = np.asarray(res.array)
    sc = _scale(a)
    ax_t = tuple(axes)
    m0 = np.mean(a.astype(np.complex128), axis=ax_t)
    m1 = np.mean(out.astype(np.complex128), axis=ax_t)
    ctx.close(float(np.max(np.abs(m1 - m0))) / sc, tol, _m("rs_mean", prec), lambda: "%s: mean over the resampled axes changed" % what(), **fields)
    _rs_calibration_laws(ctx, o0, s0, shape, res, axes, fields, what)
    # explicit DFT oracle: amplitudes inside the common band, zeros beyond the input band
    Gin = _spectrum(a, axes)
    Gout = _spectrum(out, axes)
    sel_in, sel_out = [slice(None)] * ndim, [slice(None)] * ndim
    outside = np.zeros(out.shape, dtype=bool)
    for ax in axes:
        N, M = shape[ax], out.shape[ax]
        kin, kout = _centred_k(N), _centred_k(M)
        band = min(N, M)
        sel_in[ax] = np.flatnonzero(2 * np.abs(kin) < band)
        sel_out[ax] = np.flatnonzero(2 * np.abs(kout) < band)
        o_ax = 2 * np.abs(kout) > N
        shp = [1] * ndim
        shp[ax] = M
        outside |= o_ax.reshape(shp)
    Bin, Bout = Gin, Gout
    for ax in axes:
        Bin = np.take(Bin, sel_in[ax], axis=ax)
        Bout = np.take(Bout, sel_out[ax], axis=ax)
    ctx.close(float(np.max(np.abs(np.abs(Bout) - np.abs(Bin)))) / sc, tolc, _m("rs_spectrum_band", prec), lambda: "%s: spectral amplitude inside the common band changed" % what(), **fields)
    if outside.any():
        ctx.close(float(np.max(np.abs(Gout[outside]))) / sc, tolc, _m("rs_spectrum_outside", prec), lambda: "%s: content beyond the input band" % what(), **fields)
    ex = ctx.state["evidence_extra"]
    ex["rs_phase_exact_worst"] = max(ex["rs_phase_exact_worst"], float(np.max(np.abs(Bout - Bin))) / sc)
    ex["rs_phase_exact_n"] += 1


def _case_rs(spec, idx, ctx):
    rng = ctx.rng(idx)
    sub = spec["kind"][3:]
    dtype = G.pick_dtype(rng, spec["dkind"])
    ndim = spec["ndim"]
    shape = _rs_shape(rng, ndim)
    form, axes, axes_arg = _pick_axes(rng, ndim)
    prec = G.precision(dtype)
    inplace = bool(rng.random() < 0.35)
    fields = {"op": "resample_" + sub, "dkind": spec["dkind"], "prec": prec, "ndim": ndim, "axes_form": form, "inplace": inplace}
    tol, tolc = TOL[prec], TOL_RS[prec]
    if sub == "identity":
        lens = [shape[ax] for ax in axes]
    elif sub == "updown":
        lens = _pick_out_lens(rng, shape, axes, "up")
    else:
        lens = _pick_out_lens(rng, shape, axes, "any")
    arg_form = ["out_shape", "out_shape", "out_shape_list", "factors"][int(rng.integers(4))]
    free_factors = None
    if arg_form == "factors" and sub == "laws" and rng.random() < 0.6:
        # factors that are not the ratio of two lengths: length*factor is generally not an integer, the library rounds, and the
        # calibration must follow the *realised* ratio (extent and centre laws are evaluated on the actual result shape)
        free_factors = tuple(float(rng.choice([0.5, 1.5, 0.3, 0.7, 2.0, 1.0 / 3.0, 0.75, 1.25, 2.5, 0.45])) for _ in axes)
        lens = [max(1, int(round(shape[ax] * f))) for ax, f in zip(axes, free_factors)]
    a2m = dict(zip(axes, lens))
    exp_shape = tuple(a2m.get(i, shape[i]) for i in range(ndim))
    ctx.count("combo:resample_%s:axes=%s:%s:%s" % (sub, form, arg_form if free_factors is None else "free_factors", "inplace" if inplace else "copying"))
    what = lambda: "shape=%s dtype=%s axes=%r -> %s via %s inplace=%s" % (shape, dtype, axes_arg, exp_shape, arg_form, inplace)

    def shape_ok(res, tag=""):
        got = tuple(res.shape)
        if arg_form != "factors":
            return ctx.check(got == exp_shape, "rs_shape", lambda: "%s%s: result shape %s" % (what(), tag, got), **fields)
        # factors: any rounding of length*factor is accepted
        good = len(got) == ndim and all((abs(got[i] - exp_shape[i]) <= 1 if i in a2m else got[i] == shape[i]) for i in range(ndim))
        return ctx.check(good, "rs_shape", lambda: "%s%s: result shape %s" % (what(), tag, got), **fields)

    small = spec["dkind"] == "int" and sub in ("linear", "updown")
    a = G.rand_data(rng, shape, dtype, small=small)

    if sub == "laws":
        ds = _make(ctx, rng, a)
        o0, s0 = _cal(ds)
        res = _rs_call(ds, lens, axes_arg, arg_form, shape, axes, inplace, ctx, fields, free=free_factors, warm=bool(idx % 2))
        if not shape_ok(res):
            return
        _judge_rs_laws(ctx, a, o0, s0, res, axes, prec, fields, what)
        out = np.asarray(res.array)
        nontriv = any(out.shape[ax] != shape[ax] for ax in axes)
    elif sub == "linear":
        b = G.rand_data(rng, shape, dtype, small=small)
        if spec["dkind"] == "int":
            ca, cb = int(rng.integers(-3, 4)) or 2, int(rng.integers(-3, 4)) or -1
            if np.dtype(dtype).kind == "u":
                ca, cb = abs(ca), abs(cb)
            z = (ca * a.astype(np.int64) + cb * b.astype(np.int64)).astype(dtype)
        elif spec["dkind"] == "float":
            ca, cb = float(rng.normal()), float(rng.normal())
            z = (ca * a.astype(np.float64) + cb * b.astype(np.float64)).astype(dtype)
        else:
            ca, cb = complex(rng.normal(), rng.normal()), complex(rng.normal(), rng.normal())
            z = (ca * a.astype(np.complex128) + cb * b.astype(np.complex128)).astype(dtype)
        outs = []
        for arr in (a, b, z):
            ds = _make(ctx, rng, arr)
            res = _rs_call(ds, lens, axes_arg, arg_form, shape, axes, inplace, ctx, fields)
            if not shape_ok(res):
                return
            outs.append(np.asarray(res.array).astype(np.complex128))
        sc = abs(ca) * _scale(a) + abs(cb) * _scale(b)
        ctx.close(float(np.max(np.abs(outs[2] - (ca * outs[0] + cb * outs[1])))) / sc, tolc, _m("rs_linear", prec), lambda: "%s: R(aX+bY) != aR(X)+bR(Y), a=%r b=%r" % (what(), ca, cb), **fields)
        nontriv = any(m != shape[ax] for m, ax in zip(lens, axes))
    elif sub == "identity":
        ds = _make(ctx, rng, a)
        o0, s0 = _cal(ds)
        res = _rs_call(ds, lens, axes_arg, arg_form, shape, axes, inplace, ctx, fields)
        if not shape_ok(res):
            return
        out = np.asarray(res.array)
        if tuple(out.shape) == tuple(shape):
            ctx.close(float(np.max(np.abs(out.astype(np.complex128) - a.astype(np.complex128)))) / _scale(a), tolc, _m("rs_identity", prec), lambda: "%s: resampling to the same shape changed the data" % what(), **fields)
        _rs_calibration_laws(ctx, o0, s0, shape, res, axes, fields, what)
        nontriv = a.size > 1
    else:  # updown
        # remove Nyquist content on every even resampled axis: x[n] + x[n-1] has a zero alternating sum
        x = a.astype(np.int64) if a.dtype.kind in "iu" else a
        for ax in axes:
            if shape[ax] % 2 == 0:
                x = x + np.roll(x, 1, axis=ax)
        x = np.asarray(x).astype(dtype)
        # verify the premise with the explicit DFT (guards the generator, not the library)
        Gx = _spectrum(x, axes)
        for ax in axes:
            if shape[ax] % 2 == 0:
                ny = np.abs(np.take(Gx, 0, axis=ax))  # centred k starts at -N/2 for even N
                if float(np.max(ny)) > (1e-12 if prec == "64" else 1e-6) * _scale(x):
                    from vf.core import HarnessError

                    raise HarnessError("up-down generator left Nyquist content")
        ds = _make(ctx, rng, x)
        o0, s0 = _cal(ds)
        up = _rs_call(ds, lens, axes_arg, arg_form, shape, axes, inplace, ctx, fields)
        if not shape_ok(up, " (up)"):
            return
        up_shape = tuple(up.shape)
        kw = {"axes": axes_arg} if axes_arg is not None else {}
        back_lens = tuple(shape[ax] for ax in axes)
        if inplace:
            up.fourier_resample(out_shape=back_lens, modify_in_place=True, **kw)
            back = up
        else:
            back = up.fourier_resample(out_shape=back_lens, **kw)
        if not ctx.check(tuple(back.shape) == tuple(shape), "rs_shape", lambda: "%s (down): result shape %s" % (what(), tuple(back.shape)), **fields):
            return
        out = np.asarray(back.array)
        ctx.close(float(np.max(np.abs(out.astype(np.complex128) - x.astype(np.complex128)))) / _scale(x), tolc, _m("rs_updown", prec), lambda: "%s: up %s then down did not return the original" % (what(), up_shape), **fields)
        o1, s1 = _cal(back)
        cs, es, ss = _ax_scales(o0, s0, shape)
        ctx.close(max(float(np.max(np.abs(o1 - o0) / cs)), float(np.max(np.abs(s1 - s0) / ss))), 10 * CAL_TOL, "rs_updown_calibration", lambda: "%s: calibration after up->down %r/%r vs %r/%r" % (what(), o1.tolist(), s1.tolist(), o0.tolist(), s0.tolist()), **fields)
        nontriv = up_shape != tuple(shape) and x.size > 1 and len(np.unique(x)) > 1
        a = x
    ctx.nontrivial(("rs_" + sub, ndim, G.parity_pattern(shape), spec["dkind"], len(axes)), bool(nontriv))
    ctx.observe(shape=shape, dtype=dtype, axes=repr(axes_arg), out_lens=lens, arg_form=arg_form, inplace=inplace)


# ------------------------------------------------------------------------------------------------
# pad -> crop


def _case_padcrop(spec, idx, ctx):
    rng = ctx.rng(idx)
    dtype = G.pick_dtype(rng, spec["dkind"])
    ndim = spec["ndim"]
    shape = G.rand_shape(rng, ndim)
    a = G.rand_data(rng, shape, dtype)
    ds = _make(ctx, rng, a)
    o0, s0 = _cal(ds)
    out_shape = []
    for n in shape:
        u = rng.random()
        out_shape.append(n if u < 0.15 else (max(1, n - int(rng.integers(1, 3))) if u < 0.25 else n + int(rng.integers(1, 8))))
    if all(m <= n for m, n in zip(out_shape, shape)):
        out_shape[int(rng.integers(ndim))] += int(rng.integers(1, 6))
    inplace = bool(rng.random() < 0.4)
    mode = ["default", "default", "edge", "constant_values"][int(rng.integers(4))]
    kw = {} if mode == "default" else ({"mode": "edge"} if mode == "edge" else {"constant_values": 3})
    fields = {"op": "padcrop", "dkind": spec["dkind"], "prec": G.precision(dtype), "ndim": ndim, "inplace": inplace, "pad_mode": mode}
    what = lambda: "shape=%s dtype=%s output_shape=%s mode=%s inplace=%s" % (shape, dtype, tuple(out_shape), mode, inplace)
    osh = tuple(out_shape) if rng.random() < 0.7 else list(out_shape)
    if inplace:
        r = ds.pad(output_shape=osh, modify_in_place=True, **kw)
        ctx.check(r is None, "inplace_returns_value", "pad(modify_in_place=True) returned %r" % type(r).__name__, **fields)
        padded = ds
    else:
        if idx % 2:
            ds.pad(output_shape=osh, **kw)  # history: see bin
            ctx.count("copying_call_repeated_on_same_source")
        padded = ds.pad(output_shape=osh, **kw)
    # the pad widths of "symmetric padding to output_shape": floor before, ceil after
    before = [max(0, (m - n) // 2) for m, n in zip(out_shape, shape)]
    after = [max(0, (m - n) - (m - n) // 2) if m > n else 0 for m, n in zip(out_shape, shape)]
    exp_shape = tuple(n + b + c for n, b, c in zip(shape, before, after))
    if not ctx.check(tuple(padded.shape) == exp_shape, "pad_shape", lambda: "%s: padded shape %s, expected %s" % (what(), tuple(padded.shape), exp_shape), **fields):
        return
    pa = np.asarray(padded.array)
    inner = pa[tuple(slice(b, b + n) for b, n in zip(before, shape))]
    ctx.check(inner.dtype == a.dtype and np.array_equal(inner, a), "pad_placement", lambda: "%s: original block not found at offset %s" % (what(), before), **fields)
    # crop the pad widths, in one of the spellings the API accepts
    spell = ["start_stop", "negative_stop", "axes_subset"][int(rng.integers(3))]
    padded_axes = [i for i in range(ndim) if before[i] + after[i] > 0]
    if spell == "start_stop":
        cw, ckw = tuple((b, b + n) for b, n in zip(before, shape)), {}
    elif spell == "negative_stop":
        cw, ckw = tuple((b, -c) for b, c in zip(before, after)), {}  # stop 0 means "to the end" in this API
    else:
        cw = tuple((before[i], before[i] + shape[i]) for i in padded_axes)
        ckw = {"axes": padded_axes[0] if (len(padded_axes) == 1 and rng.random() < 0.5) else tuple(padded_axes)}
    if rng.random() < 0.3:
        cw = [[np.int64(lo), np.int32(hi)] for lo, hi in cw]  # list of lists with NumPy integers instead of a tuple of tuples
        spell += "_lists_npint"
    fields["crop_spelling"] = spell
    ctx.count("combo:padcrop:%s:%s:%s" % (mode, spell, "inplace" if inplace else "copying"))
    if inplace:
        r = padded.crop(cw, modify_in_place=True, **ckw)
        ctx.check(r is None, "inplace_returns_value", "crop(modify_in_place=True) returned %r" % type(r).__name__, **fields)
        back = padded
    else:
        if idx % 2:
            padded.crop(cw, **ckw)
        back = padded.crop(cw, **ckw)
    ba = np.asarray(back.array)
    ctx.check(ba.shape == a.shape and ba.dtype == a.dtype and np.array_equal(ba, a), "padcrop_roundtrip", lambda: "%s: crop %r %r returned shape %s" % (what(), cw, ckw, ba.shape), **fields)
    o1, s1 = _cal(back)
    if ctx.check(len(o1) == ndim and len(s1) == ndim, "padcrop_calibration_length", what, **fields):
        cs, es, ss = _ax_scales(o0, s0, shape)
        ctx.close(max(float(np.max(np.abs(o1 - o0) / cs)), float(np.max(np.abs(s1 - s0) / ss))), CAL_TOL, "padcrop_calibration", lambda: "%s: calibration after pad->crop differs" % what(), **fields)
    ctx.nontrivial(("padcrop", ndim, G.parity_pattern(shape), spec["dkind"], len(padded_axes)), a.size > 1 and len(padded_axes) > 0)
    ctx.observe(shape=shape, dtype=dtype, output_shape=tuple(out_shape), before=before, after=after, mode=mode, crop=repr(cw), inplace=inplace)


# ------------------------------------------------------------------------------------------------
# histories: several operations on ONE dataset object, every step judged against the state read just before it


def _case_history(spec, idx, ctx):
    """3-6 operations (bin / pad / crop / fourier_resample incl. the same-shape resample), in place or copying, on one object.
    Before every call the array and calibration are read through the public attributes; the laws of that call are judged
    relative to that state, so anything an earlier call left behind on the object (stale caches, half-updated fields) shows."""
    rng = ctx.rng(idx)
    ndim, dk = spec["ndim"], spec["dkind"]
    dtype = G.pick_dtype(rng, dk)
    shape0 = _rs_shape(rng, ndim)
    ds = _make(ctx, rng, G.rand_data(rng, shape0, dtype))
    nops = int(rng.integers(3, 7))
    trail, done, ip_done = [], [], set()
    for step in range(nops):
        a = np.array(ds.array, copy=True)
        o0, s0 = _cal(ds)
        shp = tuple(a.shape)
        prec = G.precision(a.dtype)
        w = np.array([0.2, 0.22, 0.15, 0.3, 0.13])  # bin pad crop resample resample_same
        if a.size > 2500:
            w = np.array([0.4, 0.0, 0.4, 0.1, 0.1])
        if a.size <= 2:
            w = np.array([0.05, 0.5, 0.0, 0.3, 0.15])
        k = ["bin", "pad", "crop", "resample", "resample_same"][int(rng.choice(5, p=w / w.sum()))]
        inplace = bool(rng.random() < 0.55)
        fields = {"op": "history", "step_op": k, "inplace": inplace, "dkind": dk, "prec": prec, "ndim": ndim,
                  "earlier_inplace_ops": "+".join(sorted(ip_done)) or "none", "earlier_resample": any(d.startswith("resample") for d in done)}
        desc = {}
        what = lambda: "history on one %s%s %s: [%s] then %s %r%s" % (type(ds).__name__, shape0, dtype, " ; ".join(trail), k, desc, " in place" if inplace else "")
        call = None
        judge = None
        if k == "bin":
            form, axes, axes_arg = _pick_axes(rng, ndim)
            factors = [_pick_factor(rng, shp[ax]) for ax in axes]
            reducer = "sum" if rng.random() < 0.6 else "mean"
            kw = {"reducer": reducer}
            if axes_arg is not None:
                kw["axes"] = axes_arg
            desc.update(factors=tuple(factors), axes=axes_arg, reducer=reducer)
            fields["axes_form"] = form
            a2f = dict(zip(axes, factors))
            call = lambda ip: ds.bin(tuple(factors), modify_in_place=ip, **kw)
            judge = lambda res: _judge_bin(ctx, a, o0, s0, res, a2f, reducer, prec, fields, what)
        elif k == "pad":
            if rng.random() < 0.55:
                osh = tuple(int(n + rng.integers(-1, 5)) if n > 1 else int(n + rng.integers(0, 4)) for n in shp)
                pairs = [((m - n) // 2, (m - n) - (m - n) // 2) if m > n else (0, 0) for m, n in zip(osh, shp)]
                kw = {"output_shape": osh}
            else:
                pairs = [(int(rng.integers(0, 3)), int(rng.integers(0, 3))) for _ in shp]
                kw = {"pad_width": tuple(pairs)}
            desc.update(kw)
            call = lambda ip: ds.pad(modify_in_place=ip, **kw)

            def judge(res, pairs=pairs):
                exp_shape = tuple(n + b + c for n, (b, c) in zip(shp, pairs))
                if ctx.check(tuple(res.shape) == exp_shape, "pad_shape", lambda: "%s: padded shape %s, expected %s" % (what(), tuple(res.shape), exp_shape), **fields):
                    inner = np.asarray(res.array)[tuple(slice(b, b + n) for n, (b, c) in zip(shp, pairs))]
                    ctx.check(inner.dtype == a.dtype and np.array_equal(inner, a), "pad_placement", lambda: "%s: original block not found at offset %s" % (what(), [b for b, c in pairs]), **fields)
        elif k == "crop":
            form, axes, axes_arg = _pick_axes(rng, ndim)
            sl = [slice(None)] * ndim
            cw = []
            for ax in axes:
                n = shp[ax]
                lo = int(rng.integers(0, n))
                hi = int(rng.integers(lo + 1, n + 1))
                sl[ax] = slice(lo, hi)
                u = rng.random()
                cw.append((lo, 0) if (hi == n and u < 0.5) else ((lo, hi - n) if (hi < n and u < 0.4) else (lo, hi)))
            kw = {} if axes_arg is None else {"axes": axes_arg}
            if isinstance(axes_arg, (int, np.integer)):
                cw = cw[:1]
            desc.update(crop_widths=tuple(cw), axes=axes_arg)
            fields["axes_form"] = form
            call = lambda ip: ds.crop(tuple(cw), modify_in_place=ip, **kw)

            def judge(res, sl=tuple(sl)):
                got = np.asarray(res.array)
                exp = a[sl]
                ctx.check(got.shape == exp.shape and got.dtype == exp.dtype and np.array_equal(got, exp), "crop_slice", lambda: "%s: cropped data is not the [min, max) block; shape %s, expected %s" % (what(), got.shape, exp.shape), **fields)
        else:
            form, axes, axes_arg = _pick_axes(rng, ndim)
            if k == "resample_same":
                lens = [shp[ax] for ax in axes]
            else:
                lens = []
                for ax in axes:
                    n = shp[ax]
                    lens.append(int(rng.integers(max(1, int(np.ceil(0.4 * n))), min(2 * n, n + 6) + 1)))
                if all(m == shp[ax] for m, ax in zip(lens, axes)):
                    lens[0] = shp[axes[0]] + 1
            kw = {} if axes_arg is None else {"axes": axes_arg}
            if rng.random() < 0.75:
                kw["out_shape"] = tuple(lens)
            else:
                kw["factors"] = tuple(m / shp[ax] for m, ax in zip(lens, axes))
            desc.update(kw)
            fields["axes_form"] = form
            a2m = dict(zip(axes, lens))
            exp_shape = tuple(a2m.get(i, shp[i]) for i in range(ndim))
            call = lambda ip: ds.fourier_resample(modify_in_place=ip, **kw)

            def judge(res, axes=axes, exp_shape=exp_shape, same=(k == "resample_same")):
                if not ctx.check(tuple(res.shape) == exp_shape, "rs_shape", lambda: "%s: result shape %s, expected %s" % (what(), tuple(res.shape), exp_shape), **fields):
                    return
                if same:
                    out = np.asarray(res.array)
                    ctx.close(float(np.max(np.abs(out.astype(np.complex128) - a.astype(np.complex128)))) / _scale(a), TOL_RS[prec], _m("rs_identity", prec), lambda: "%s: resampling to the same shape changed the data" % what(), **fields)
                    _rs_calibration_laws(ctx, o0, s0, shp, res, axes, fields, what)
                else:
                    _judge_rs_laws(ctx, a, o0, s0, res, axes, prec, fields, what)
        ctx.count("history_step:" + k + ("_ip" if inplace else ""))
        if inplace:
            r = call(True)
            ctx.check(r is None, "inplace_returns_value", lambda: "%s returned %r" % (what(), type(r).__name__), **fields)
            judge(ds)
            ip_done.add(k)
        else:
            res = call(False)
            judge(res)
            o0b, s0b = _cal(ds)
            same_src = np.array_equal(np.asarray(ds.array), a) and ds.array.dtype == a.dtype and np.array_equal(o0b, o0) and np.array_equal(s0b, s0)
            ctx.check(same_src, "copying_call_changed_source", lambda: "%s: the source object changed" % what(), **fields)
            if rng.random() < 0.3:
                ds = res  # continue on the returned dataset (it inherits whatever copy() carries over)
                trail.append("(continue on the copy)")
        done.append(k + ("_ip" if inplace else ""))
        trail.append("%s %r%s" % (k, desc, " in place" if inplace else ""))
        if rng.random() < 0.4 and ds.array.size:
            # a neutral call between two steps (repr, str, discarded copy / index, property reads, reductions, calibration written back)
            b_arr, (b_o, b_s), b_u = np.array(ds.array, copy=True), _cal(ds), list(ds.units)
            nc = G.neutral_call(rng, ds)
            a_o, a_s = _cal(ds)
            same = np.array_equal(np.asarray(ds.array), b_arr) and ds.array.dtype == b_arr.dtype and np.array_equal(a_o, b_o) and np.array_equal(a_s, b_s) and list(ds.units) == b_u
            ctx.check(same, "neutral_call_changed_state", lambda: "%s: then %s changed the dataset" % (what(), nc), neutral=nc, **{k2: v2 for k2, v2 in fields.items() if k2 in ("dkind", "prec", "ndim")})
            trail.append("(%s)" % nc)
        if not ds.array.size:
            break
    ctx.nontrivial(("history", ndim, dk, tuple(done)), len(set(d.split("_ip")[0] for d in done)) >= 2 and bool(ip_done))
    ctx.observe(start_shape=shape0, dtype=dtype, ops=trail, final_shape=tuple(ds.shape))


# ------------------------------------------------------------------------------------------------
# big arrays: > 2**22 (one ~2**24) elements, judged by the cheap laws only (no O(size x length) explicit DFT)

# (op, ndim, axes operated on, dtype, in place, size class[, reducer])
# size classes: e22 / e24 = more than 2**22 / 2**24 elements; b24 = more than 2**24 bytes (16 MiB) and more than 2**22 elements
BIG_MENU = [
    ("rs_laws", 3, (1, 2), "int16", False, "e22"),
    ("rs_laws", 4, (2, 3), "uint8", True, "e22"),
    ("rs_laws", 3, (1, 2), "uint8", False, "e24"),
    ("rs_laws", 2, None, "int16", False, "e22"),
    ("rs_laws", 3, (0,), "float32", True, "e22"),
    ("rs_laws", 4, (1, 3), "complex64", False, "e22"),
    ("rs_linear", 3, (1, 2), "int16", False, "e22"),
    ("rs_identity", 3, (1, 2), "int16", True, "e22"),
    ("bin", 3, (1, 2), "int16", False, "e22"),
    ("bin", 4, (0, 3), "uint8", True, "e22"),
    ("bin", 4, (2, 3), "uint16", False, "b24", "sum"),
    ("bin", 3, (0, 1), "uint8", True, "b24", "mean"),
    ("bin", 3, None, "int32", False, "b24", "sum"),
    ("bin", 3, (1, 2), "bool", False, "b24", "sum"),
    ("bin", 3, (0,), "int16", True, "b24", "mean"),
    ("bin", 3, (1, 2), "float32", False, "b24", "sum"),
    ("bin", 4, (1, 2), "uint16", True, "b24", "mean"),
    ("padcrop", 3, (0, 2), "uint8", False, "e22"),
    ("padcrop", 3, (1,), "uint16", True, "b24"),
    ("padcrop", 4, (0, 3), "bool", False, "b24"),
]


def _big_target(size_class, dtype):
    if size_class == "e22":
        return (1 << 22) + 1
    if size_class == "e24":
        return (1 << 24) + 1
    # 20 % above the byte threshold: what is left after bin() drops the remainders must still be above it
    return int(1.2 * max(1 << 22, (1 << 24) // np.dtype(dtype).itemsize)) + 1


def _big_shape(rng, ndim, axes, target):
    """frames of 200..330 pixels a side, as many of them as needed to reach `target` elements"""
    if ndim == 2:
        h = int(rng.integers(2049, 2100))
        return (h, target // h + 1 + int(rng.integers(0, 40)))
    h, w = int(rng.integers(200, 331)), int(rng.integers(200, 331))
    nb = -(-target // (h * w)) + int(rng.integers(0, 4))
    if ndim == 3:
        dims = {"b": [nb]}
    else:
        b1 = int(rng.integers(2, 8))
        dims = {"b": [b1, -(-nb // b1)]}
    # big frame axes go where the menu operates (or does not operate), the batch axes take the remaining positions
    frame_axes = list(axes) if (axes is not None and len(axes) == 2) else [a for a in range(ndim)][-2:]
    if axes is not None and len(axes) == 1:
        frame_axes = [a for a in range(ndim) if a not in axes][-2:]
    shape = [0] * ndim
    for ax, n in zip(frame_axes, (h, w)):
        shape[ax] = n
    rest = [a for a in range(ndim) if a not in frame_axes]
    for ax, n in zip(rest, dims["b"]):
        shape[ax] = n
    return tuple(shape)


def _big_data(rng, shape, dtype, full=False):
    """full=True: values over the whole range of the dtype, so that block sums leave the range of every narrow integer type"""
    dt = np.dtype(dtype)
    if dt.kind == "b":
        return rng.random(size=shape, dtype=np.float32) < 0.6
    if dt.kind in "iu":
        info = np.iinfo(dt)
        lo, hi = (int(info.min), int(info.max)) if full else (max(info.min, -2000), min(info.max, 2000))
        if dt.itemsize <= 4:
            return rng.integers(lo, hi + 1, size=shape, dtype=np.int64 if dt.itemsize == 4 else np.int32).astype(dt)
        return rng.integers(max(lo, -(2**40)), min(hi, 2**40) + 1, size=shape, dtype=np.int64)
    if dt.kind == "f":
        return rng.standard_normal(size=shape, dtype=np.float32).astype(dt) * dt.type(50) + dt.type(10)
    return (rng.standard_normal(size=shape, dtype=np.float32) + 1j * rng.standard_normal(size=shape, dtype=np.float32)).astype(dt) * dt.type(20)


def _block_sum_fast(a, a2f):
    """vectorised strided block sums accumulated in int64 / float64 / complex128 (independent of the library's reshape-and-sum)"""
    acc_dt = np.int64 if a.dtype.kind in "iub" else (np.complex128 if a.dtype.kind == "c" else np.float64)
    out = a
    for ax, f in a2f.items():
        nb = out.shape[ax] // f
        acc = _take(out, slice(0, nb * f, f), ax).astype(acc_dt)
        for k in range(1, f):
            acc += _take(out, slice(k, nb * f, f), ax)
        out = acc
    return out.astype(acc_dt, copy=False)


def _case_big(spec, idx, ctx):
    rng = ctx.rng(idx)
    entry = BIG_MENU[spec["variant"]]
    op, ndim, axes_t, dtype, inplace, size_class = entry[:6]
    target = _big_target(size_class, dtype)
    shape = _big_shape(rng, ndim, axes_t, target)
    axes = list(range(ndim)) if axes_t is None else list(axes_t)
    prec = G.precision(dtype)
    dkind = {"i": "int", "u": "int", "f": "float", "c": "complex", "b": "bool"}[np.dtype(dtype).kind]
    fields = {"op": "big_" + op, "dkind": dkind, "dtype": dtype, "prec": prec, "ndim": ndim, "axes_form": "all" if axes_t is None else "subset", "inplace": inplace, "size_class": size_class}
    Dataset = ctx.state["cls"][0]
    cal = G.rand_calibration(rng, ndim, form="float_array")
    frng = _side_rng(rng, 0xFA5)
    far = None
    if frng.random() < 0.5:
        o_far, far = _far_origin(frng, cal[0], cal[1], shape)
        cal = (o_far, cal[1], cal[2])
    fields["far_origin"] = far is not None
    ctx.count("far_origin:" + ("no" if far is None else "1e%d" % (3 * int(far // 3))))
    a = _big_data(rng, shape, dtype, full=not op.startswith("rs_"))
    size = int(np.prod(shape))
    if size < target or (size_class == "b24" and a.nbytes <= (1 << 24)):
        from vf.core import HarnessError

        raise HarnessError("big case below its size class: %s" % (shape,))
    kw_axes = {} if axes_t is None else {"axes": axes_t}
    rest = [i for i in range(ndim) if i not in axes]
    desc = {}
    what = lambda: "big %s shape=%s (%d elements, %.1f MiB) dtype=%s axes=%r %r inplace=%s" % (op, shape, size, a.nbytes / 2.0**20, dtype, axes_t, desc, inplace)

    def make(arr):
        return Dataset.from_array(arr, name="c06big", origin=cal[0], sampling=cal[1], units=cal[2])

    def frames(n_other):
        """a few index tuples along the non-operated axes (first / middle / last)"""
        if not rest:
            return []
        picks = []
        for frac in (0.0, 0.5, 1.0):
            picks.append(tuple(int(round(frac * (shape[i] - 1))) for i in rest))
        return list(dict.fromkeys(picks))

    def sub_stack(arr, pick):
        """the frame at `pick` as a small stack (length-1 batch axes), same dimensionality"""
        sel = [slice(None)] * ndim
        for i, p in zip(rest, pick):
            sel[i] = slice(p, p + 1)
        return tuple(sel)

    def run(ds, call):
        if inplace:
            r = call(ds, True)
            ctx.check(r is None, "inplace_returns_value", lambda: "%s returned %r" % (what(), type(r).__name__), **fields)
            return ds
        return call(ds, False)

    if op.startswith("rs_"):
        sub = op[3:]
        if sub == "identity":
            lens = [shape[ax] for ax in axes]
        else:
            lens = [max(1, int(round(shape[ax] * float(rng.uniform(0.55, 1.3))))) for ax in axes]
            if all(m == shape[ax] for m, ax in zip(lens, axes)):
                lens[0] -= 1
        desc["out_shape"] = tuple(lens)
        a2m = dict(zip(axes, lens))
        exp_shape = tuple(a2m.get(i, shape[i]) for i in range(ndim))
        call = lambda d, ip: d.fourier_resample(out_shape=tuple(lens), modify_in_place=ip, **kw_axes)
        tol, tolc = TOL[prec], TOL_RS[prec]
        ds = make(a.copy() if inplace else a)
        o0, s0 = _cal(ds)
        res = run(ds, call)
        if not ctx.check(tuple(res.shape) == exp_shape, "rs_shape", lambda: "%s: result shape %s" % (what(), tuple(res.shape)), **fields):
            return
        out = np.asarray(res.array)
        sc = _scale(a)
        cdt = np.complex128 if a.dtype.kind == "c" else np.float64
        m0 = np.mean(a, axis=tuple(axes), dtype=cdt)
        m1 = np.mean(out, axis=tuple(axes), dtype=cdt)
        ctx.close(float(np.max(np.abs(m1 - m0))) / sc, tol, _m("rs_mean", prec), lambda: "%s: mean over the resampled axes changed (worst frame: %r -> %r)" % (what(), np.ravel(m0)[int(np.argmax(np.abs(np.ravel(m1 - m0))))], np.ravel(m1)[int(np.argmax(np.abs(np.ravel(m1 - m0))))]), **fields)
        _rs_calibration_laws(ctx, o0, s0, shape, res, axes, fields, what)
        if sub == "identity":
            ctx.close(float(np.max(np.abs(out.astype(cdt) - a.astype(cdt)))) / sc, tolc, _m("rs_identity", prec), lambda: "%s: resampling to the same shape changed the data" % what(), **fields)
        # frame k of the big stack == the same frame processed as a small stack
        worst = 0.0
        for pick in frames(len(rest)):
            sel = sub_stack(a, pick)
            small = make(a[sel].copy()).fourier_resample(out_shape=tuple(lens), **kw_axes)
            worst = max(worst, float(np.max(np.abs(out[sel].astype(cdt) - np.asarray(small.array).astype(cdt)))))
            ctx.count("big_frames_compared")
        if rest:
            ctx.close(worst / sc, tolc, _m("big_frame_consistency", prec), lambda: "%s: a frame of the big result differs from the same frame resampled as a small stack" % what(), **fields)
        if sub == "linear":
            b = _big_data(rng, shape, dtype)
            ca, cb = 2, -1
            z = (ca * a.astype(np.int32) + cb * b.astype(np.int32)).astype(dtype) if a.dtype.kind in "iu" else (ca * a + cb * b).astype(dtype)
            rb = np.asarray(run(make(b), call).array)
            rz = np.asarray(run(make(z), call).array)
            lin = float(np.max(np.abs(rz.astype(cdt) - (ca * out.astype(cdt) + cb * rb.astype(cdt)))))
            ctx.close(lin / (abs(ca) * sc + abs(cb) * _scale(b)), tolc, _m("rs_linear", prec), lambda: "%s: R(2X-Y) != 2R(X)-R(Y)" % what(), **fields)
    elif op == "bin":
        factors = [int(rng.integers(2, 8)) for _ in axes]
        reducer = entry[6] if len(entry) > 6 else ("sum" if rng.random() < 0.6 else "mean")
        desc.update(factors=tuple(factors), reducer=reducer)
        fields["reducer"] = reducer
        a2f = dict(zip(axes, factors))
        call = lambda d, ip: d.bin(tuple(factors), modify_in_place=ip, reducer=reducer, **kw_axes)
        ds = make(a.copy() if inplace else a)
        o0, s0 = _cal(ds)
        res = run(ds, call)
        exp_shape = tuple(shape[i] // a2f[i] if i in a2f else shape[i] for i in range(ndim))
        if not ctx.check(tuple(res.shape) == exp_shape, "bin_shape", lambda: "%s: result shape %s, expected %s" % (what(), tuple(res.shape), exp_shape), **fields):
            return
        o1, s1 = _cal(res)
        cs, es, ss = _ax_scales(o0, s0, shape)
        exp_s = np.array([s0[i] * a2f.get(i, 1) for i in range(ndim)])
        exp_o = np.array([o0[i] + s0[i] * (a2f.get(i, 1) - 1) / 2.0 for i in range(ndim)])
        ctx.close(float(np.max(np.abs(s1 - exp_s) / np.abs(exp_s))), CAL_TOL, "bin_sampling", lambda: "%s: sampling %r, expected %r" % (what(), s1.tolist(), exp_s.tolist()), **fields)
        ctx.close(float(np.max(np.abs(o1 - exp_o) / cs)), CAL_TOL, "bin_origin", lambda: "%s: origin %r, expected %r" % (what(), o1.tolist(), exp_o.tolist()), **fields)
        ref = _block_sum_fast(a, a2f)
        vol = int(np.prod(factors))
        got = np.asarray(res.array)
        exact = a.dtype.kind in "iub"
        ctx.observe(block_sum_range=[int(ref.min()), int(ref.max())] if exact else None, result_dtype=str(got.dtype))
        if exact and reducer == "sum":
            same = got.dtype.kind in "iu" and bool(np.array_equal(got.astype(np.int64), ref))
            ctx.close(0.0 if same else 1.0, 0.0, "bin_block_values", lambda: "%s: integer block sums (result dtype %s) differ from the exact sums; exact range [%d, %d], result range [%s, %s]" % (what(), got.dtype, int(ref.min()), int(ref.max()), got.min(), got.max()), **fields)
            # counts over the covered region, in Python integers
            t_got, t_ref = int(np.sum(got, dtype=np.int64)) if got.dtype.kind in "iub" else float(np.sum(got)), int(ref.sum())
            ctx.close(0.0 if t_got == t_ref else 1.0, 0.0, "bin_count_conservation", lambda: "%s: sum(binned)=%r sum(covered region)=%r" % (what(), t_got, t_ref), **fields)
        else:
            exp = ref / vol if reducer == "mean" else ref
            sc = _scale(a) * (vol if reducer == "sum" else 1)
            ctx.close(float(np.max(np.abs(got - exp))) / sc, TOL[prec], _m("bin_block_values", prec), lambda: "%s: block %s differs from the block oracle" % (what(), reducer), **fields)
            t_got = complex(np.sum(got, dtype=np.complex128)) * (vol if reducer == "mean" else 1)
            t_ref = complex(np.sum(ref, dtype=np.complex128)) if not exact else complex(int(ref.sum()))
            ctx.close(abs(t_got - t_ref) / (_scale(a) * max(1, ref.size * vol)), TOL[prec], _m("bin_count_conservation", prec), lambda: "%s: sum(binned)=%r sum(covered region)=%r" % (what(), t_got, t_ref), **fields)
        # a small sub-block of whole bins, binned as a small dataset of its own, must give the same numbers
        worst = 0.0
        for frac in (0.0, 0.5, 1.0):
            sel_in, sel_out = [], []
            for i in range(ndim):
                f = a2f.get(i, 1)
                nb = exp_shape[i]
                w = min(nb, 6)
                j0 = int(round(frac * (nb - w)))
                sel_out.append(slice(j0, j0 + w))
                sel_in.append(slice(j0 * f, (j0 + w) * f))
            small = make(a[tuple(sel_in)].copy()).bin(tuple(factors), reducer=reducer, **kw_axes)
            sa = np.asarray(small.array)
            gs = got[tuple(sel_out)]
            cdt = np.complex128 if a.dtype.kind == "c" else np.float64
            d = float(np.max(np.abs(gs.astype(cdt) - sa.astype(cdt)))) if gs.shape == sa.shape else float("inf")
            worst = max(worst, d)
            ctx.count("big_frames_compared")
        sc = _scale(a) * (vol if reducer == "sum" else 1)
        ctx.close(worst / sc, 0.0 if exact else TOL[prec], _m("big_frame_consistency", prec), lambda: "%s: a sub-block of the big result differs from the same sub-block binned as a small dataset" % what(), **fields)
    else:  # padcrop
        out_shape = list(shape)
        for ax in axes:
            out_shape[ax] = shape[ax] + int(rng.integers(1, 8))
        desc["output_shape"] = tuple(out_shape)
        ds = make(a.copy() if inplace else a)
        padded = run(ds, lambda d, ip: d.pad(output_shape=tuple(out_shape), modify_in_place=ip))
        before = [(m - n) // 2 for m, n in zip(out_shape, shape)]
        if not ctx.check(tuple(padded.shape) == tuple(out_shape), "pad_shape", lambda: "%s: padded shape %s" % (what(), tuple(padded.shape)), **fields):
            return
        inner = np.asarray(padded.array)[tuple(slice(b, b + n) for b, n in zip(before, shape))]
        ctx.check(inner.dtype == a.dtype and np.array_equal(inner, a), "pad_placement", lambda: "%s: original block not found at offset %s" % (what(), before), **fields)
        cw = tuple((b, b + n) for b, n in zip(before, shape))
        back = padded.crop(cw)
        ba = np.asarray(back.array)
        ctx.check(ba.shape == a.shape and ba.dtype == a.dtype and np.array_equal(ba, a), "padcrop_roundtrip", lambda: "%s: crop %r returned shape %s" % (what(), cw, ba.shape), **fields)
        # a plain crop of the big array along the same axes is the [min, max) block
        sl = [slice(None)] * ndim
        cw2 = []
        for ax in axes:
            lo = int(rng.integers(0, shape[ax] // 2))
            hi = int(rng.integers(lo + 1, shape[ax] + 1))
            sl[ax] = slice(lo, hi)
            cw2.append((lo, hi))
        src = make(a.copy() if inplace else a)
        cr = run(src, lambda d, ip: d.crop(tuple(cw2), axes=tuple(axes), modify_in_place=ip))
        ca = np.asarray(cr.array)
        ctx.check(ca.shape == a[tuple(sl)].shape and ca.dtype == a.dtype and np.array_equal(ca, a[tuple(sl)]), "crop_slice", lambda: "%s: crop %r is not the [min, max) block" % (what(), cw2), **fields)
    ctx.nontrivial(("big", op, ndim, dtype, repr(axes_t), size_class, inplace), True)
    ctx.observe(op=op, shape=shape, elements=size, dtype=dtype, axes=repr(axes_t), inplace=inplace, **{k: repr(v) for k, v in desc.items()})


def run_case(spec, idx, ctx):
    import warnings

    # process-global state a user may have set: applied around every library call of this case (outermost method wrapper), restored after it
    ctx.state["gstate"] = "none" if spec["kind"] == "big" else G.GSTATES[idx % len(G.GSTATES)]
    ctx.state["last_make"] = {}
    try:
        _run_case(spec, idx, ctx)
    finally:
        tags = dict(ctx.state.get("last_make") or {}, gstate=ctx.state["gstate"])
        for rec in ctx._case["viol"]:
            for k2, v2 in tags.items():
                rec.setdefault(k2, v2)
        ctx.observe(**tags)
        ctx.state["gstate"] = "none"


def _run_case(spec, idx, ctx):
    import warnings

    with warnings.catch_warnings():
        warnings.simplefilter("ignore")
        with np.errstate(all="ignore"):
            k = spec["kind"]
            if k == "bin":
                _case_bin(spec, idx, ctx)
            elif k == "padcrop":
                _case_padcrop(spec, idx, ctx)
            elif k == "history":
                _case_history(spec, idx, ctx)
            elif k == "big":
                _case_big(spec, idx, ctx)
            else:
                _case_rs(spec, idx, ctx)


def summarize(all_cases, counters, extras):
    worst, n = 0.0, 0
    for e in extras:
        worst = max(worst, float(e.get("rs_phase_exact_worst", 0.0)))
        n += int(e.get("rs_phase_exact_n", 0))
    return {
        "tolerances": {"float64_paths": TOL["64"], "float32_bin_mean": TOL["32"], "float32_resample_content": TOL_RS["32"], "calibration": "per axis: 1e-12 of the extent / sampling, 1e-12..1e-11 of |origin| + extent for coordinates"},
        "observation_only": {
            "resample_exact_phase_vs_trig_interpolant_worst": worst,
            "n": n,
            "note": "not judged: agreement of in-band complex spectra (sample 0 stays sample 0); recorded to document the library's convention",
        },
    }
