"""C15 — drift correction starts from an exact, shape-independent resampling geometry.

Monitors over real `DriftCorrection.from_data(...).preprocess(...)` / `align_translation(...)` runs:

* closed-form oracle (vf.imgtruth.scan_geometry, written from the property text, no quantem code):
  pixel (r, c) -> canvas centre + R(theta) (r - (R-1)/2, c - (C-1)/2), compared with
  - the initial knots stored by preprocess,
  - `DriftInterpolator.transform_coordinates(knots)` for 1, 2, 3 and 4 knots (and the four against
    each other),
  - the coordinates that preprocess itself passed to the resampler (post-hook on transform_coordinates);
* weight map: sum == number of image pixels (also for warp_image(upsample_factor=2) and another
  KDE width); when the footprint lies inside the canvas its centroid is the canvas centre and its
  row/column cross moment is (V_r - V_c) sin(theta) cos(theta), V = (n^2-1)/12 (exact for a bilinear
  splat followed by a symmetric filter) — an end-to-end check that the *resampled output* sits where
  the geometry says;
* identical stack, same scan direction: every shift returned by cross_correlation_shift inside
  align_translation (post-hook) is zero and the knots do not move.
"""
from __future__ import annotations

import itertools
import warnings

import numpy as np

from vf import imgtruth as T
from vf.core import HarnessError

PROPERTY = "C15"
LEVEL = "exploration"
ANCHOR_FILES = [
    "quantem/imaging/drift.py",
    "quantem/core/utils/imaging_utils.py",
    "quantem/core/utils/compound_validators.py",
]
RULE = (
    "every stack is handed over in one of 6 input forms (list of ndarrays, the same in 7 non-default memory layouts: Fortran / transposed / rot90 / strided / "
    "read-only / flipped / offset views, 3-D array, 3-D array in other layouts, Dataset3d and list of Dataset2d with arbitrary anisotropic sampling, origin, units); a third "
    "of the geometry cases are mixed-shape list stacks (HxW and WxH frames, unrelated sizes); frames are intensity ramps in canvas coordinates so the resampled "
    "intensities are judged too; geometry cases: seeded matrix shape class{square even/odd, tall, wide, mixed parity, tiny 6..9} x scan-angle class{0,90,180,270,random "
    "in [0,360), per-image different angles} x pad class{0, 0.1, 0.25, 0.5, random 0..0.5}, stacks of 2..4 images, KDE sigma 0.3..2, every case "
    "preprocessed with 1, 2, 3 and 4 knots and followed by a history on the same object (2..4 of: warp_image with upsample_factor 2/3, "
    "generate_corrected_image, plain warp_image, repeated transform_coordinates) with closed form, weights and previously returned arrays re-checked after every step; half of all cases run on a re-used DriftCorrection object (it first served another acquisition, is re-configured through the public "
    "setters scan_direction_degrees / images / pad_fraction / kde_sigma, hits one of 13 invalid calls that raise, and is preprocessed again); "
    "fixed-point cases: pad_value in every accepted form, identical stacks of 2..4 x upsample_factor{1,2,3,4,5,7,8,16} x knots{1..4} x "
    "angle class x image family{uniform noise, zero-mean noise, blobs+noise, band-limited}. non-trivial = rows != cols or angle not a "
    "multiple of 90 degrees; distinct = (kind, shape class, angle class, pad class | upsample factor, knots, family)"
)
ASSUMPTIONS = [
    "the property is stated in pixels: calibration carried by Dataset2d/Dataset3d inputs (sampling, origin, units) and the container type / memory layout of the frames must not change knots, coordinates, weights or resampled intensities (compared with the list-of-C-contiguous-float64-arrays result, bound 1e-6 relative, measured 0)",
    "mixed-shape list stacks are judged frame by frame against the closed form for that frame's own shape; the canvas size (which the library derives from the first two frames) is read from the object",
    "intensity placement: frames are linear ramps in canvas coordinates; inside the fully supported part of a frame (more than 4 sigma + 1.5 px from its edges, footprint not touching the canvas border) the resampled value must be the ramp value within the equivalent of 0.5 px (measured <= 0.07 px at scale 1 and <= 0.2 px for upsampled warps: the kernel-weighted mean offset of the contributing samples, which cannot exceed half the sample spacing)",
    "rotation convention pinned from the property text and the theta=0 case: offsets (d_row, d_col) map to (cos*d_row - sin*d_col, sin*d_row + cos*d_col); theta = scan_direction_degrees",
    "the canvas shape is read from the object (DriftCorrection.shape); the property fixes the placement relative to the canvas centre, not the canvas size",
    "coordinates are float64: bound 1e-9 px (measured <= 1e-14); weight maps are accumulated in float32: sum bound 1e-4 relative (measured <= 1e-6), centroid bound 1e-5 px (measured 2e-8), cross moment bound 1e-5*(V_r+V_c)+1e-5 px^2 (measured 3e-7)",
    "weight centroid / cross moment are judged only when every pixel lands at least int(4*sigma+0.5)+1 px inside the canvas (no wrap-around, no boundary reflection of the Gaussian filter)",
    "fixed point: warped images are float32, so the parabolic peak refinement sees rounding noise; bound 1e-2 px (measured <= 5e-5 px for images whose contrast is comparable to their mean; the C13 defect moves the knots by 0.1..0.7 px). "
    "Images with |mean| >> std are not generated: their float32 auto-correlation is flat to within rounding, which is a conditioning limit of float32, not the geometry claim",
    "the fixed-point claim depends on the numpy cross_correlation_shift defect of C13 (fixes/C13-1): it is judged on a tree with that repair",
]
BUDGET = {"quick": {"soft_s": 300}, "thorough": {"soft_s": 1200}}
MIN_EVALUATIONS = {"quick": 500, "thorough": 6000}
REQUIRED_COUNTERS = [
    "eval:coords_not_closed_form",
    "eval:initial_knots_not_closed_form",
    "eval:coords_differ_between_knot_counts",
    "eval:weight_sum_not_pixel_count",
    "eval:fixed_point_knots_moved",
    "eval:coords_not_closed_form_after_history",
    "eval:input_form_changes_result",
    "eval:intensity_not_at_closed_form_position",
]

SHAPES = ["sq_even", "sq_odd", "tall", "wide", "mixed", "tiny"]
ANGLES = ["a0", "a90", "a180", "a270", "rand", "per_image"]
PADS = ["p0", "p10", "p25", "p50", "prand"]
UPS = [1, 2, 3, 4, 5, 7, 8, 16]  # odd factors too: patch radius ceil(1.5*up) vs int(1.5*up) only differ there
FAMILIES = ["noise01", "noise0", "blobs", "bandlimited"]

TOL_COORD = 1e-9
TOL_WSUM = 1e-4
TOL_CENTROID = 1e-5
TOL_FIXED = 1e-2


def plan(tier, seed):
    geom, fixed = [], []
    reps = 2 if tier == "quick" else 50
    for rep in range(reps):
        for shp, ang, pad in itertools.product(SHAPES, ANGLES, PADS):
            g = len(geom)
            geom.append({"kind": "geom", "shape": shp, "angle": ang, "pad": pad, "reused": (g + rep) % 2 == 1, "form": FORMS[(g // 2 + rep) % len(FORMS)], "mixed": (g // 3 + rep) % 3 == 0})
    reps = 3 if tier == "quick" else 50
    k = 0
    for rep in range(reps):
        for up, K, ang in itertools.product(UPS, [1, 2, 3, 4], ANGLES[:5]):
            k += 1
            fixed.append({"kind": "fixed", "up": up, "knots": K, "angle": ang, "shape": SHAPES[(k + rep) % len(SHAPES)], "pad": PADS[(k // 2 + rep) % len(PADS)], "family": FAMILIES[(k // 3 + rep) % len(FAMILIES)], "reused": (k + rep) % 2 == 1, "form": FORMS[(k // 2 + rep) % len(FORMS)]})
    # interleave the two kinds so that a time-budget cut on a loaded machine trims both evenly
    specs = []
    for i in range(max(len(geom), len(fixed))):
        if i < len(geom):
            specs.append(geom[i])
        if i < len(fixed):
            specs.append(fixed[i])
    return specs


def setup(ctx):
    from vf import hook

    from quantem.core.utils import imaging_utils as iu
    from quantem.imaging import drift as D

    ctx.state["D"] = D
    from quantem.core.datastructures.dataset2d import Dataset2d
    from quantem.core.datastructures.dataset3d import Dataset3d

    ctx.state["Dataset2d"], ctx.state["Dataset3d"] = Dataset2d, Dataset3d
    ctx.state["iu"] = iu
    ctx.state["tc_log"] = None
    ctx.state["cc_log"] = None

    def tc_post(tok, a, k, res):
        log = ctx.state.get("tc_log")
        if log is not None:
            try:
                log.append((np.array(res[0], dtype=np.float64), np.array(res[1], dtype=np.float64)))
            except Exception:  # noqa: BLE001
                ctx.count("hook_result_unreadable:transform_coordinates")

    def cc_post(tok, a, k, res):
        log = ctx.state.get("cc_log")
        if log is not None:
            try:
                sh = res[0] if isinstance(res, tuple) else res
                log.append(np.array(sh, dtype=np.float64).ravel())
            except Exception:  # noqa: BLE001
                ctx.count("hook_result_unreadable:cross_correlation_shift")

    if hasattr(D, "DriftInterpolator"):
        hook.wrap(D.DriftInterpolator, "transform_coordinates", post=tc_post, ctx=ctx)
    else:
        ctx.hooks_missing.append("drift.DriftInterpolator")
    hook.wrap(iu, "cross_correlation_shift", post=cc_post, ctx=ctx)


# ------------------------------------------------------------------------------------------------
# generators


def gen_shape(rng, cls):
    if cls == "sq_even":
        n = int(rng.integers(5, 21)) * 2
        return n, n
    if cls == "sq_odd":
        n = int(rng.integers(5, 20)) * 2 + 1
        return n, n
    if cls == "tall":
        c = int(rng.integers(8, 28))
        return c + int(rng.integers(3, 13)), c
    if cls == "wide":
        r = int(rng.integers(8, 28))
        return r, r + int(rng.integers(3, 13))
    if cls == "mixed":
        r = int(rng.integers(5, 20)) * 2
        c = int(rng.integers(5, 20)) * 2 + 1
        return (r, c) if rng.random() < 0.5 else (c, r)
    if cls == "tiny":
        r, c = int(rng.integers(6, 10)), int(rng.integers(6, 10))
        if r == c:
            c += 1
        return r, c
    raise ValueError(cls)


def gen_angles(rng, cls, n):
    if cls == "per_image":
        pool = [0.0, 90.0, 180.0, 270.0, float(rng.uniform(0, 360)), float(rng.uniform(0, 360)), float(rng.uniform(-180, 0))]
        return [float(pool[int(rng.integers(len(pool)))]) for _ in range(n)]
    a = {"a0": 0.0, "a90": 90.0, "a180": 180.0, "a270": 270.0}.get(cls)
    if a is None:
        a = float(rng.uniform(0, 360))
    return [a] * n


def gen_pad(rng, cls):
    return {"p0": 0.0, "p10": 0.1, "p25": 0.25, "p50": 0.5}.get(cls, float(rng.uniform(0, 0.5)))


def gen_image(rng, shape, family):
    R, C = shape
    if family == "noise01":
        return rng.random(shape)
    if family == "noise0":
        return rng.normal(size=shape)
    if family == "blobs":
        rr, cc = np.mgrid[:R, :C].astype(np.float64)
        im = 0.1 * rng.random(shape)
        for _ in range(int(rng.integers(3, 7))):
            im += rng.uniform(0.4, 1.0) * np.exp(-((rr - rng.uniform(0, R)) ** 2 + (cc - rng.uniform(0, C)) ** 2) / (2 * rng.uniform(0.8, 2.5) ** 2))
        return im
    if family == "bandlimited":
        return T.band_limited_image(rng, shape, float(rng.uniform(0.5, 0.9)), "gauss", float(rng.choice([0.0, 1.0])))
    raise ValueError(family)


def angle_is_nontrivial(a):
    return abs(((a + 45.0) % 90.0) - 45.0) > 1e-9


# ------------------------------------------------------------------------------------------------


def _weights_checks(ctx, w, shape, canvas, angle, sigma, xa_e, ya_e, common, what, scale=1.0):
    """w: weight map on a canvas scaled by `scale` (warp_image(upsample_factor=scale))."""
    R, C = shape
    w = np.asarray(w, dtype=np.float64)
    tot = float(w.sum())
    ctx.close((tot - R * C) / (R * C), TOL_WSUM, "weight_sum_not_pixel_count", lambda: "%s: sum(weights)=%r for a %dx%d image (expected %d)" % (what, tot, R, C, R * C), stage=what, **common)
    H, W = w.shape
    m = int(4.0 * sigma * scale + 0.5) + 1
    xs, ys = xa_e * scale, ya_e * scale
    inside = xs.min() >= m and xs.max() <= H - 2 - m and ys.min() >= m and ys.max() <= W - 2 - m
    if not inside or not tot > 0:
        ctx.count("weight_moments_not_judged_footprint_touches_border")
        return
    rr = np.arange(H, dtype=np.float64)[:, None]
    cc = np.arange(W, dtype=np.float64)[None, :]
    cr = float((w * rr).sum() / tot)
    cq = float((w * cc).sum() / tot)
    er, ec = float(xs.mean()), float(ys.mean())  # = scaled canvas centre by symmetry of the closed form
    ctx.close(max(abs(cr - er), abs(cq - ec)) / scale, TOL_CENTROID, "weight_centroid_off_centre", lambda: "%s: centroid (%.6f, %.6f) expected (%.6f, %.6f)" % (what, cr, cq, er, ec), stage=what, **common)
    cross = float((w * (rr - cr) * (cc - cq)).sum() / tot) / scale**2
    th = np.deg2rad(angle)
    Vr, Vc = (R * R - 1) / 12.0, (C * C - 1) / 12.0
    exp_cross = (Vr - Vc) * np.sin(th) * np.cos(th)
    ctx.close(cross - exp_cross, 1e-5 * (Vr + Vc) + 1e-5, "weight_cross_moment", lambda: "%s: cov(row,col) of the weight map %.6f expected %.6f (shape %s angle %.3f)" % (what, cross, exp_cross, shape, angle), stage=what, **common)


def _sh(shape, i):
    """shape = one (rows, cols) for the whole stack, or a list with one shape per frame (mixed-shape list stacks)."""
    return tuple(shape[i]) if isinstance(shape[0], (tuple, list)) else tuple(shape)


def ramp_image(shape, angle_deg, coef):
    """Frame whose intensity is a *linear function of the canvas position* its pixels are supposed to land on:
    v(r, c) = a*X + b*Y + g with (X, Y) = R(theta)(r - (R-1)/2, c - (C-1)/2) the closed-form offset from the canvas centre.
    Wherever the resampled frame is fully supported, the normalised KDE estimate at canvas pixel q is then a*(q_r - centre_r) +
    b*(q_c - centre_c) + g up to the kernel-weighted mean offset of the contributing samples (measured <= 0.2 px)."""
    R, C = shape
    th = np.deg2rad(angle_deg)
    dr = np.arange(R, dtype=np.float64)[:, None] - (R - 1) / 2.0
    dc = np.arange(C, dtype=np.float64)[None, :] - (C - 1) / 2.0
    a, b, g = coef
    return a * (np.cos(th) * dr - np.sin(th) * dc) + b * (np.sin(th) * dr + np.cos(th) * dc) + g


LAYOUTS = ["C", "F", "T_view", "rot90_view", "strided", "readonly", "flipped_view", "offset_view"]


def with_layout(arr, kind):
    """The same 2-D values in another memory layout (every variant compares equal to `arr`)."""
    arr = np.ascontiguousarray(arr)
    if kind == "C":
        out = arr.copy()
    elif kind == "F":
        out = np.asfortranarray(arr)
    elif kind == "T_view":
        out = np.ascontiguousarray(arr.T).T
    elif kind == "rot90_view":
        out = np.rot90(np.ascontiguousarray(np.rot90(arr, -1)))
    elif kind == "strided":
        big = np.zeros((2 * arr.shape[0], 3 * arr.shape[1]), dtype=arr.dtype)
        out = big[::2, 1::3]
        out[...] = arr
    elif kind == "readonly":
        out = arr.copy()
        out.setflags(write=False)
    elif kind == "flipped_view":
        out = np.ascontiguousarray(arr[::-1, ::-1])[::-1, ::-1]
    elif kind == "offset_view":
        big = np.zeros((arr.shape[0] + 3, arr.shape[1] + 5), dtype=arr.dtype)
        out = big[2 : 2 + arr.shape[0], 4 : 4 + arr.shape[1]]
        out[...] = arr
    else:
        raise ValueError(kind)
    if not (out.shape == arr.shape and np.array_equal(out, arr)):
        raise HarnessError("layout variant %s does not reproduce the frame" % kind)
    return out


FORMS = ["list_ndarray", "list_ndarray_layouts", "array3d", "array3d_layouts", "dataset3d", "list_dataset2d"]


def make_container(ctx, rng, frames, form):
    """The stack in one of the documented input forms; calibration (sampling / origin / units) is arbitrary and anisotropic:
    the property is stated in pixels, so the pixel geometry must equal that of bare arrays.  Returns (container, description)."""
    Dataset2d, Dataset3d = ctx.state["Dataset2d"], ctx.state["Dataset3d"]
    same = all(f.shape == frames[0].shape for f in frames)
    if form in ("array3d", "array3d_layouts", "dataset3d") and not same:
        form = "list_dataset2d" if form == "dataset3d" else "list_ndarray_layouts"
    if form == "list_ndarray":
        return [np.ascontiguousarray(f).copy() for f in frames], form
    if form == "list_ndarray_layouts":
        kinds = [LAYOUTS[int(rng.integers(1, len(LAYOUTS)))] for _ in frames]
        return [with_layout(f, k) for f, k in zip(frames, kinds)], form + ":" + ",".join(kinds)
    stack = np.stack([np.ascontiguousarray(f) for f in frames]) if same else None
    if form == "array3d":
        return stack, form
    if form in ("array3d_layouts", "dataset3d"):
        k3 = ["C", "F", "T_view", "readonly", "strided"][int(rng.integers(5))]
        if k3 == "F":
            st = np.asfortranarray(stack)
        elif k3 == "T_view":
            st = np.ascontiguousarray(stack.transpose(2, 1, 0)).transpose(2, 1, 0)
        elif k3 == "readonly":
            st = stack.copy()
            st.setflags(write=False)
        elif k3 == "strided":
            big = np.zeros((stack.shape[0], 2 * stack.shape[1], 2 * stack.shape[2] + 1))
            st = big[:, 1::2, 1::2]
            st[...] = stack
        else:
            st = stack.copy()
        if not np.array_equal(st, stack):
            raise HarnessError("3-D layout variant does not reproduce the stack")
        if form == "array3d_layouts":
            return st, form + ":" + k3
        samp = (1.0, float(rng.choice([0.1, 0.25, 2.0])), float(rng.choice([0.2, 0.5, 3.0])))
        return Dataset3d.from_array(st, name="stack", origin=(0.0, float(rng.uniform(-5, 5)), float(rng.uniform(-5, 5))), sampling=samp, units=["index", "nm", "nm"]), form + ":" + k3 + ":sampling=%s" % (samp,)
    if form == "list_dataset2d":
        out, desc = [], []
        for f in frames:
            k2 = LAYOUTS[int(rng.integers(len(LAYOUTS)))]
            samp = (float(rng.choice([0.1, 0.2, 1.0, 2.5])), float(rng.choice([0.1, 0.4, 1.0, 0.05])))
            if samp[0] == samp[1]:
                samp = (samp[0], samp[0] * 2.0)
            out.append(Dataset2d.from_array(with_layout(f, k2), name="frame", origin=(float(rng.uniform(-9, 9)), float(rng.uniform(-9, 9))), sampling=samp, units=[["nm", "nm"], ["A", "A"], ["pixels", "nm"]][int(rng.integers(3))]))
            desc.append("%s/%s" % (k2, samp))
        return out, form + ":" + ",".join(desc)
    raise ValueError(form)


def _ramp_check(ctx, img, shape, canvas, angle, sigma, coef, common, what, scale=1.0):
    """End-to-end intensity placement: where the resampled frame is fully supported its value is the ramp at that canvas pixel."""
    if coef is None:
        return
    R, C = shape
    H, W = img.shape
    xa_e, ya_e = T.scan_geometry(shape, canvas, angle)
    m = int(4.0 * sigma * scale + 0.5) + 1
    xs, ys = xa_e * scale, ya_e * scale
    if not (xs.min() >= m and xs.max() <= H - 2 - m and ys.min() >= m and ys.max() <= W - 2 - m):
        ctx.count("intensity_placement_not_judged_footprint_touches_border")
        return
    a, b, g = coef
    cr, cc = (canvas[0] - 1) / 2.0, (canvas[1] - 1) / 2.0
    qr = np.arange(H, dtype=np.float64)[:, None] / scale - cr  # canvas offsets from the centre in un-scaled pixels
    qc = np.arange(W, dtype=np.float64)[None, :] / scale - cc
    th = np.deg2rad(angle)
    dr = np.cos(th) * qr + np.sin(th) * qc  # back-rotated: position in the frame's own axes
    dcl = -np.sin(th) * qr + np.cos(th) * qc
    mm = 4.0 * sigma + 1.5
    inside = (np.abs(dr) <= (R - 1) / 2.0 - mm) & (np.abs(dcl) <= (C - 1) / 2.0 - mm)
    if int(inside.sum()) < 4:
        ctx.count("intensity_placement_not_judged_no_interior")
        return
    expect = a * qr + b * qc + g
    err = float(np.max(np.abs(np.asarray(img, dtype=np.float64) - expect)[inside])) / (abs(a) + abs(b))
    ctx.close(err, 0.5, "intensity_not_at_closed_form_position", lambda: "%s: frame %s angle %.3f ramp (%.3f, %.3f, %.2f): resampled intensities are off by the equivalent of %.3f px" % (what, shape, angle, a, b, g, err), stage=what, **common)


def _recheck_geometry(ctx, dc, shape, canvas, angles, common, returned, after):
    """The undrifted knots are unchanged, so at any later time the same object must still give the closed form, the same
    values as before, and arrays it handed out earlier must not have been modified behind the caller's back."""
    for i in range(len(angles)):
        xa_e, ya_e = T.scan_geometry(_sh(shape, i), canvas, angles[i])
        xr, yr = dc.interpolator[i].transform_coordinates(dc.knots[i])
        xa, ya = np.array(xr, dtype=np.float64, copy=True), np.array(yr, dtype=np.float64, copy=True)
        if xa.shape != _sh(shape, i) or ya.shape != _sh(shape, i):
            ctx.check(False, "coords_bad_shape", "coords shape %s/%s for image %s after %s" % (xa.shape, ya.shape, shape, after), stage="after:" + after[-1], **common)
            continue

        def detail(i=i, xa=xa, ya=ya, xa_e=xa_e, ya_e=ya_e):
            p = np.unravel_index(np.argmax(np.abs(xa - xa_e) + np.abs(ya - ya_e)), xa.shape)
            return "after %s on the same object: image %d shape %s angle %.4f knots %d: pixel %s -> (%.6f, %.6f), closed form (%.6f, %.6f)" % (after, i, shape, angles[i], common["knots"], tuple(int(v) for v in p), xa[p], ya[p], xa_e[p], ya_e[p])

        ctx.close(max(np.abs(xa - xa_e).max(), np.abs(ya - ya_e).max()), TOL_COORD, "coords_not_closed_form_after_history", detail, stage="after:" + after[-1], **common)
        returned.append((i, "after " + after[-1], xr, yr, xa, ya))
    worst, who = 0.0, None
    for i, when, xr, yr, xs, ys in returned:
        try:
            d = max(float(np.abs(np.asarray(xr, dtype=np.float64) - xs).max()), float(np.abs(np.asarray(yr, dtype=np.float64) - ys).max()))
        except Exception:  # noqa: BLE001  (shape changed in place)
            d = float("inf")
        if d > worst:
            worst, who = d, (i, when)
    ctx.close(worst, 0.0, "returned_coords_changed_by_later_call", lambda: "coordinate arrays returned for image %s were modified in place by later calls %s" % (who, after), stage="after:" + after[-1], **common)


def _object_history(ctx, rng, dc, shape, canvas, angles, sigma, common, returned, ramps=None):
    """History on one DriftCorrection / its interpolators with unchanged (undrifted) knots: upsampled warps, corrected-image
    generation, plain warps and repeated coordinate evaluations in random order; geometry and weights re-checked after each."""
    n = len(angles)
    ops = ["warp_upsampled", "generate_corrected_image", "warp_plain", "coords_again", "warp_upsampled"]
    order = ["warp_upsampled"] + [ops[k] for k in rng.permutation(len(ops))][: int(rng.integers(1, 4))]
    done = []
    for op in order:
        done.append(op)
        if op in ("warp_upsampled", "warp_plain"):
            for i in ([int(rng.integers(n))] if rng.random() < 0.5 else range(n)):
                xa_e, ya_e = T.scan_geometry(_sh(shape, i), canvas, angles[i])
                s2 = float(rng.uniform(0.3, 0.7))
                up2 = 1 if op == "warp_plain" else int(rng.choice([2, 3]))
                kw = {} if op == "warp_plain" and rng.random() < 0.5 else {"kde_sigma": s2, "upsample_factor": up2}
                img2, w2 = dc.interpolator[i].warp_image(dc.images[i].array, dc.knots[i], **kw)
                _weights_checks(ctx, w2, _sh(shape, i), canvas, angles[i], s2 if kw else sigma, xa_e, ya_e, dict(common), op + ":" + ">".join(done[:-1][-2:]), scale=float(up2))
                if ramps is not None:
                    _ramp_check(ctx, np.asarray(img2), _sh(shape, i), canvas, angles[i], s2 if kw else sigma, ramps[i], dict(common), op, scale=float(up2))
        elif op == "generate_corrected_image":
            try:
                with warnings.catch_warnings():
                    warnings.simplefilter("ignore")
                    dc.generate_corrected_image(upsample_factor=int(rng.choice([2, 2, 3, 1])), show_image=False, output_original_shape=bool(rng.random() < 0.5), fourier_filter=bool(rng.random() < 0.5), mask_output=bool(rng.random() < 0.5))
            except Exception:  # noqa: BLE001  (the merged image itself is not part of this property; only its side effects on the geometry are)
                ctx.count("observed:generate_corrected_image_raised")
        elif op == "coords_again":
            pass
        _recheck_geometry(ctx, dc, shape, canvas, angles, common, returned, list(done))
    ctx.count("history_ops", len(done))


ERROR_STEPS = ["knots_none", "knots_str", "knots_zero", "knots_negative", "pad_value_2", "pad_value_dict", "pad_value_long_list", "pad_fraction_str", "kde_sigma_none", "too_few_directions", "align_bad_factor", "directions_2d", "images_1d"]


def _error_step(ctx, rng, dc, n, valid_kw, directions, name=None):
    """A public call that raises on the unchanged code (bad argument), caught here; the object must stay usable and a later
    valid preprocess must give the same geometry as on a fresh object.  `directions` = the scan directions the object is
    supposed to have afterwards (restored when the step had to change them)."""
    name = name or ERROR_STEPS[int(rng.integers(len(ERROR_STEPS)))]
    kw = dict(valid_kw)
    raised = False
    try:
        with warnings.catch_warnings():
            warnings.simplefilter("ignore")
            if name == "knots_none":
                kw["number_knots"] = None
                dc.preprocess(**kw)
            elif name == "knots_str":
                kw["number_knots"] = "x"
                dc.preprocess(**kw)
            elif name == "knots_zero":
                kw["number_knots"] = 0
                dc.preprocess(**kw)
            elif name == "knots_negative":
                kw["number_knots"] = -1
                dc.preprocess(**kw)
            elif name == "pad_value_2":
                kw["pad_value"] = 2.0
                dc.preprocess(**kw)
            elif name == "pad_value_dict":
                kw["pad_value"] = {}
                dc.preprocess(**kw)
            elif name == "pad_value_long_list":
                kw["pad_value"] = [0.1] * (n + 1)
                dc.preprocess(**kw)
            elif name == "pad_fraction_str":
                kw["pad_fraction"] = "a"
                dc.preprocess(**kw)
            elif name == "kde_sigma_none":
                kw["kde_sigma"] = None
                dc.preprocess(**kw)
            elif name == "too_few_directions":
                dc.scan_direction_degrees = list(directions)[: n - 1]
                dc.preprocess(**kw)
            elif name == "align_bad_factor":
                dc.align_translation(upsample_factor="x", show_merged=False)
            elif name == "directions_2d":
                dc.scan_direction_degrees = [[1.0, 2.0], [3.0, 4.0]]
            elif name == "images_1d":
                dc.images = [np.zeros(5)]
    except Exception:  # noqa: BLE001  (expected: invalid argument)
        raised = True
    if not raised:
        ctx.count("observed:invalid_call_did_not_raise:" + name)
    ctx.count("error_step:" + name)
    if name in ("too_few_directions", "directions_2d"):
        dc.scan_direction_degrees = list(directions)
    return name


def _previous_life(D, rng, shape, n, same_n=True):
    """A DriftCorrection that has already been used for *another* acquisition: other frames (different medians), other scan
    directions, other padding / KDE width / knot count; sometimes another frame shape or frame count."""
    shp = shape if rng.random() < 0.7 else (shape[0] + int(rng.integers(1, 4)), max(6, shape[1] - int(rng.integers(1, 3))))
    m = n if (same_n or rng.random() < 0.7) else int(rng.integers(2, 5))
    frames = [rng.random(shp) * float(rng.uniform(0.5, 2.0)) + float(rng.uniform(0.0, 3.0)) for _ in range(m)]
    dirs = [float(rng.choice([0.0, 90.0, 180.0, 270.0, rng.uniform(0, 360)])) for _ in range(m)]
    dc = D.DriftCorrection.from_data(frames, dirs)
    return dc, m


def _run_geom(spec, idx, ctx):
    D = ctx.state["D"]
    rng = ctx.rng(idx)
    shape0 = gen_shape(rng, spec["shape"])
    n = int(rng.integers(2, 5))
    angles = gen_angles(rng, spec["angle"], n)
    pad = gen_pad(rng, spec["pad"])
    sigma = float(rng.uniform(0.3, 2.0))
    # frame shapes: one shape for the whole stack, or a mixed-shape list stack (the same region acquired as HxW and WxH, or unrelated sizes)
    mixed = bool(spec.get("mixed")) and shape0[0] != shape0[1]
    if mixed:
        shapes = [shape0 if rng.random() < 0.5 else (shape0[1], shape0[0]) for _ in range(n)]
        if rng.random() < 0.3:
            shapes[int(rng.integers(n))] = (shape0[0] + int(rng.integers(1, 4)), max(6, shape0[1] - int(rng.integers(1, 4))))
        if all(sh == shapes[0] for sh in shapes):
            shapes[-1] = (shapes[0][1], shapes[0][0])
    else:
        shapes = [shape0] * n
    ramps = [(float(rng.uniform(0.2, 1.0) * rng.choice([-1, 1])), float(rng.uniform(0.2, 1.0) * rng.choice([-1, 1])), float(rng.uniform(40.0, 60.0))) for _ in range(n)]
    images = [ramp_image(shapes[i], angles[i], ramps[i]) for i in range(n)]  # canonical frames: float64, C-contiguous
    pad_value = [("median"), ("mean"), ("min"), ("max"), 0.25, None][int(rng.integers(6))]
    if pad_value is None:
        pad_value = [float(np.median(im)) for im in images]
    form = spec.get("form", "list_ndarray")
    square = all(sh[0] == sh[1] for sh in shapes)
    coords = {}
    canvas0 = None
    reused = bool(spec.get("reused"))
    dc_life = None
    K_eq = int(rng.integers(1, 5))  # knot count at which the result is also compared with the canonical input form
    form_desc = form
    for K in (1, 2, 3, 4):
        common = {"knots": K, "reused_object": reused, "square": square, "mixed_shapes": mixed, "input_form": form, "angle_class": spec["angle"], "pad_class": spec["pad"], "right_angle": not any(angle_is_nontrivial(a) for a in angles)}
        valid_kw = dict(pad_fraction=pad, pad_value=pad_value, kde_sigma=sigma, number_knots=K)
        container, form_desc = make_container(ctx, rng, images, form)
        if reused:
            # the same object is re-configured through its public setters, hits an invalid call, and is preprocessed again
            if dc_life is None or rng.random() < 0.5:
                if dc_life is None:
                    dc_life, _m = _previous_life(D, rng, shape0, n)
                else:  # detour: another acquisition on the same object between two knot counts
                    dc_life.scan_direction_degrees = [float(rng.uniform(0, 360)) for _ in range(n)]
                with warnings.catch_warnings():
                    warnings.simplefilter("ignore")
                    dc_life.preprocess(pad_fraction=float(rng.uniform(0, 0.5)), pad_value=["median", "mean", "max", 0.5][int(rng.integers(4))], kde_sigma=float(rng.uniform(0.3, 2.0)), number_knots=int(rng.integers(1, 5)))
                    if rng.random() < 0.3:
                        dc_life.align_translation(upsample_factor=1, show_merged=False)
                dc_life.scan_direction_degrees = list(angles)
                dc_life.images = container
                if rng.random() < 0.5:
                    dc_life.pad_fraction = pad
                    dc_life.kde_sigma = sigma
            err = _error_step(ctx, rng, dc_life, n, valid_kw, angles, name=ERROR_STEPS[(idx + K) % len(ERROR_STEPS)] if rng.random() < 0.6 else None)
            common["after_error"] = err
        ctx.state["tc_log"] = []
        try:
            if reused:
                dc = dc_life.preprocess(**valid_kw)
            else:
                dc = D.DriftCorrection.from_data(container, np.array(angles) if rng.random() < 0.3 else list(angles)).preprocess(**valid_kw)
        finally:
            tc_log, ctx.state["tc_log"] = ctx.state["tc_log"], None
        canvas = tuple(int(v) for v in dc.shape[1:])
        if canvas0 is None:
            canvas0 = canvas
        if canvas != canvas0:
            ctx.count("observed:canvas_depends_on_knot_count")  # not judged by itself: the coordinate comparison below decides
        ctx.check(len(dc.knots) == n and all(np.asarray(k).shape == (2, shapes[i][0], K) for i, k in enumerate(dc.knots)), "knots_bad_shape", lambda: "knots shapes %s for frames %s, %d knots" % ([np.asarray(k).shape for k in dc.knots], shapes, K), **common)
        returned = []  # (image, when, returned xa, returned ya, snapshot xa, snapshot ya): values handed out must stay what they were
        for i in range(min(n, len(dc.knots))):
            shape = shapes[i]
            xa_e, ya_e = T.scan_geometry(shape, canvas, angles[i])
            # initial knot placement: the K control points of row r lie on the scan line at evenly spaced columns
            kn = np.asarray(dc.knots[i], dtype=np.float64)
            cols = np.linspace(0, shape[1] - 1, K) if K > 1 else np.array([0.0])
            ke_x = np.stack([np.interp(cols, np.arange(shape[1]), xa_e[r]) for r in range(shape[0])])
            ke_y = np.stack([np.interp(cols, np.arange(shape[1]), ya_e[r]) for r in range(shape[0])])
            if kn.shape == (2, shape[0], K):
                ctx.close(max(np.abs(kn[0] - ke_x).max(), np.abs(kn[1] - ke_y).max()), TOL_COORD, "initial_knots_not_closed_form", lambda: "image %d of %s (%s) angle %.4f pad %.3f knots %d canvas %s" % (i, shapes, form_desc, angles[i], pad, K, canvas), **common)
            xa_ret, ya_ret = dc.interpolator[i].transform_coordinates(dc.knots[i])
            xa, ya = np.array(xa_ret, dtype=np.float64, copy=True), np.array(ya_ret, dtype=np.float64, copy=True)  # snapshots
            returned.append((i, "first call", xa_ret, ya_ret, xa, ya))
            okshape = ctx.check(xa.shape == tuple(shape) and ya.shape == tuple(shape), "coords_bad_shape", lambda: "coords shape %s/%s for image %s" % (xa.shape, ya.shape, shape), **common)
            if not okshape:
                continue
            err = max(np.abs(xa - xa_e).max(), np.abs(ya - ya_e).max())

            def detail(i=i, xa=xa, ya=ya, xa_e=xa_e, ya_e=ya_e, shape=shape):
                p = np.unravel_index(np.argmax(np.abs(xa - xa_e) + np.abs(ya - ya_e)), xa.shape)
                return "image %d shape %s of stack %s (%s) angle %.4f pad %.3f knots %d canvas %s: pixel %s -> (%.6f, %.6f), closed form (%.6f, %.6f)" % (i, shape, shapes if mixed else "uniform", form_desc, angles[i], pad, K, canvas, tuple(int(v) for v in p), xa[p], ya[p], xa_e[p], ya_e[p])

            ctx.close(err, TOL_COORD, "coords_not_closed_form", detail, **common)
            coords[(K, i)] = (xa, ya)
            if K > 1 and (1, i) in coords:
                x1, y1 = coords[(1, i)]
                ctx.close(max(np.abs(xa - x1).max(), np.abs(ya - y1).max()), 2 * TOL_COORD, "coords_differ_between_knot_counts", lambda: "image %d shape %s angle %.4f: %d knots vs 1 knot" % (i, shape, angles[i], K), **common)
            # the coordinates preprocess itself handed to the resampler
            if tc_log:
                best = min((max(np.abs(lx - xa_e).max(), np.abs(ly - ya_e).max()) for lx, ly in tc_log if lx.shape == xa_e.shape), default=None)
                if best is not None:
                    ctx.close(best, TOL_COORD, "preprocess_resampled_with_other_coords", lambda: "image %d shape %s angle %.4f knots %d: no transform_coordinates call made by preprocess returned the closed form" % (i, shape, angles[i], K), **common)
            # weight map and intensities of the initial resampling
            _weights_checks(ctx, dc.weights_warped.array[i], shape, canvas, angles[i], sigma, xa_e, ya_e, dict(common), "preprocess")
            _ramp_check(ctx, np.asarray(dc.images_warped.array[i]), shape, canvas, angles[i], sigma, ramps[i], dict(common), "preprocess")
        if K == K_eq and form != "list_ndarray":
            # metamorphic: the input form (container type, calibration, memory layout) must not change the result
            ref = D.DriftCorrection.from_data([np.ascontiguousarray(im).copy() for im in images], list(angles)).preprocess(**valid_kw)
            okn = len(ref.knots) == len(dc.knots) and all(np.asarray(p).shape == np.asarray(q).shape for p, q in zip(ref.knots, dc.knots))
            dk = max(float(np.max(np.abs(np.asarray(p) - np.asarray(q)))) for p, q in zip(ref.knots, dc.knots)) if okn else float("inf")
            Wv, Wr = np.asarray(dc.images_warped.array, dtype=np.float64), np.asarray(ref.images_warped.array, dtype=np.float64)
            di = float(np.max(np.abs(Wv - Wr))) / max(float(np.max(np.abs(Wr))), 1e-300) if Wv.shape == Wr.shape else float("inf")
            Cv, Cr = np.asarray(dc.weights_warped.array, dtype=np.float64), np.asarray(ref.weights_warped.array, dtype=np.float64)
            dw = float(np.max(np.abs(Cv - Cr))) if Cv.shape == Cr.shape else float("inf")
            ctx.close(max(dk, di, dw), 1e-6, "input_form_changes_result", lambda: "input form %s vs list of C-contiguous float64 arrays (frames %s, angles %s, knots %d): knots differ by %.3g, warped images by %.3g (relative), weights by %.3g" % (form_desc, shapes, angles, K, dk, di, dw), **common)
        _object_history(ctx, rng, dc, shapes, canvas, angles, sigma, common, returned, ramps=ramps)
    nontriv = (not square) or any(angle_is_nontrivial(a) for a in angles)
    ctx.nontrivial(("geom", spec["shape"], spec["angle"], spec["pad"], reused, form, mixed), nontriv)
    ctx.observe(shapes=[list(sh) for sh in shapes], angles=angles, pad=pad, canvas=list(canvas0), sigma=sigma, n=n, input_form=form_desc)


def _run_fixed(spec, idx, ctx):
    D = ctx.state["D"]
    rng = ctx.rng(idx)
    shape = gen_shape(rng, spec["shape"])
    n = int(rng.integers(2, 5))
    angle = gen_angles(rng, spec["angle"], 1)[0]
    pad = gen_pad(rng, spec["pad"])
    sigma = float(rng.uniform(0.3, 2.0))
    K, up = spec["knots"], spec["up"]
    im = gen_image(rng, shape, spec["family"])
    # every accepted form of pad_value; a list must hold the same value for every (identical) frame or the stack is no fixed point
    pv_form = ["median", "mean", "min", "max", "quantile_float", "quantile_int", "list"][int(rng.integers(7))]
    pad_value = {"quantile_float": float(rng.choice([0.25, 0.5, 0.9])), "quantile_int": int(rng.integers(0, 2)), "list": [float(np.median(im))] * n}.get(pv_form, pv_form)
    reused = bool(spec.get("reused"))
    common = {"knots": K, "up": up, "upsampled": up > 1, "square": shape[0] == shape[1], "family": spec["family"], "angle_class": spec["angle"], "reused_object": reused, "pad_value_form": pv_form}
    valid_kw = dict(pad_fraction=pad, pad_value=pad_value, kde_sigma=sigma, number_knots=K)
    form = spec.get("form", "list_ndarray")
    common["input_form"] = form

    def stack_in():  # the identical stack in the requested input form (container type, calibration, memory layout)
        return make_container(ctx, rng, [im] * n, form)[0]

    if reused:
        # the object first serves a different stack (frames with different statistics) with the same arguments, then receives the
        # identical stack through the public setters and is preprocessed again
        dc, m = _previous_life(D, rng, shape, n)  # same frame count: the public images setter re-validates the stored per-image pad values and refuses another count
        kw0 = dict(valid_kw)
        if pv_form == "list":
            kw0["pad_value"] = [float(rng.uniform(0, 3)) for _ in range(m)]
        with warnings.catch_warnings():
            warnings.simplefilter("ignore")
            dc.preprocess(**kw0)
            if rng.random() < 0.5:
                dc.align_translation(upsample_factor=int(rng.choice([1, 2, 4])), show_merged=False)
        if rng.random() < 0.5:
            dc.images = stack_in()
            dc.scan_direction_degrees = [angle] * n
        else:
            dc.scan_direction_degrees = [angle] * n
            dc.images = stack_in()
        if rng.random() < 0.35:
            common["after_error"] = _error_step(ctx, rng, dc, n, valid_kw, [angle] * n)
        dc.preprocess(**valid_kw)
    else:
        dc = D.DriftCorrection.from_data(stack_in(), [angle] * n).preprocess(**valid_kw)
    # identical frames resampled with the same geometry must give identical canvases (premise of the fixed point)
    W = np.asarray(dc.images_warped.array, dtype=np.float64)
    ctx.close(float(np.max(np.abs(W - W[0]))) / max(float(np.max(np.abs(W[0]))), 1e-300), 1e-6, "identical_frames_resampled_differently", lambda: "identical stack n=%d shape %s pad_value=%r (object reused: %s): the initial warped images differ; pad values %r" % (n, shape, pad_value, reused, list(getattr(dc, "pad_value", []))), **common)
    before = [np.array(k, dtype=np.float64, copy=True) for k in dc.knots]
    kw = {}
    r = rng.random()
    if r < 0.3:
        kw["max_image_shift"] = float(rng.choice([6.0, 12.0, 1000.0]))
    ctx.state["cc_log"] = []
    try:
        with warnings.catch_warnings():
            warnings.simplefilter("ignore")
            dc.align_translation(upsample_factor=up, show_merged=False, show_images=False, **kw)
    finally:
        cc_log, ctx.state["cc_log"] = ctx.state["cc_log"], None
    after = [np.asarray(k, dtype=np.float64) for k in dc.knots]
    moved = max(float(np.max(np.abs(a - b))) if np.all(np.isfinite(a)) else float("nan") for a, b in zip(after, before))
    ctx.close(moved, TOL_FIXED, "fixed_point_knots_moved", lambda: "identical stack n=%d shape %s angle %.4f pad %.3f knots %d sigma %.2f up %d %s: knots moved by %.4g px" % (n, shape, angle, pad, K, sigma, up, kw, moved), **common)
    if cc_log:
        ctx.count("observed:registrations_per_alignment=%d_for_n=%d" % (len(cc_log), n))
        worst = max(float(np.max(np.abs(s))) if np.all(np.isfinite(s)) else float("nan") for s in cc_log)
        ctx.close(worst, TOL_FIXED, "fixed_point_measured_shift_nonzero", lambda: "identical stack n=%d shape %s up %d: measured relative shifts %s" % (n, shape, up, [s.tolist() for s in cc_log]), **common)
    else:
        ctx.count("fixed_point_shift_hook_not_reached")
    # history on the same object: corrected-image generation (upsampled warps), then a second alignment
    try:
        with warnings.catch_warnings():
            warnings.simplefilter("ignore")
            dc.generate_corrected_image(upsample_factor=int(rng.choice([2, 3])), show_image=False)
    except Exception:  # noqa: BLE001
        ctx.count("observed:generate_corrected_image_raised")
    with warnings.catch_warnings():
        warnings.simplefilter("ignore")
        dc.align_translation(upsample_factor=up, show_merged=False, show_images=False, **kw)
    after2 = [np.asarray(k, dtype=np.float64) for k in dc.knots]
    moved2 = max(float(np.max(np.abs(a - b))) if np.all(np.isfinite(a)) else float("nan") for a, b in zip(after2, before))
    ctx.close(moved2, TOL_FIXED, "fixed_point_knots_moved", lambda: "identical stack n=%d shape %s knots %d up %d: after generate_corrected_image + second align_translation the knots moved by %.4g px" % (n, shape, K, up, moved2), stage="second_alignment", **common)
    canvas = tuple(int(v) for v in dc.shape[1:])
    xa_e, ya_e = T.scan_geometry(shape, canvas, angle)
    for i in range(n):
        xr, yr = dc.interpolator[i].transform_coordinates(dc.knots[i])
        xr, yr = np.asarray(xr, dtype=np.float64), np.asarray(yr, dtype=np.float64)
        if xr.shape == tuple(shape):
            ctx.close(max(np.abs(xr - xa_e).max(), np.abs(yr - ya_e).max()), 2 * TOL_FIXED, "fixed_point_coords_left_closed_form", lambda: "identical stack shape %s angle %.4f knots %d up %d: coordinates of image %d after align/generate/align differ from the closed form" % (shape, angle, K, up, i), **common)
    ctx.nontrivial(("fixed", spec["shape"], spec["angle"], up, K, spec["family"], reused, form), shape[0] != shape[1] or angle_is_nontrivial(angle))
    ctx.observe(shape=list(shape), angle=angle, pad=pad, n=n, sigma=sigma, knots_moved=moved, measured_shifts=[s.tolist() for s in (cc_log or [])], kwargs=kw)


def run_case(spec, idx, ctx):
    with np.errstate(all="ignore"):
        if spec["kind"] == "geom":
            _run_geom(spec, idx, ctx)
        else:
            _run_fixed(spec, idx, ctx)


def summarize(all_cases, counters, extras):
    return {
        "tolerances": {"coordinates_px": TOL_COORD, "weight_sum_relative": TOL_WSUM, "weight_centroid_px": TOL_CENTROID, "fixed_point_px": TOL_FIXED},
        "measured_noise_floor": {"coordinates_px": 1e-14, "weight_sum_relative": 1e-6, "fixed_point_px": 5e-5},
        "depends_on": "fixes/C13-1 (numpy cross_correlation_shift upsampling) for the fixed-point sub-claim at upsample_factor > 1",
    }
