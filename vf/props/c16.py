"""C16 — forward-model operators obey energy, adjoint and projection identities.

Oracle: the algebraic identities themselves, evaluated (a) on the outputs of the real operators for random complex128/float64
inputs (complex64 with float32 bounds where the code hard-casts) and (b) in situ by wrappers on the same operators while real
`Ptychography.reconstruct()` runs (autograd and analytic-gradient paths) execute on hostile models.
"""
from __future__ import annotations

import numpy as np

PROPERTY = "C16"
LEVEL = "exploration"
ANCHOR_FILES = [
    "quantem/diffractive_imaging/ptycho_utils.py", "quantem/diffractive_imaging/ptychography_base.py", "quantem/diffractive_imaging/ptychography.py",
    "quantem/diffractive_imaging/probe_models.py", "quantem/diffractive_imaging/detector_models.py", "quantem/diffractive_imaging/object_models.py",
]
RULE = (
    "seeded cases per operator: translate (fourier_shift_expand / fourier_translation_operator, numpy+torch, complex128/complex64/real, ROI 4..32 odd/even/non-square, "
    "1-4 modes, batch 1-6, shifts in +-2N incl. integers), propagate (_compute_propagator_arrays with signed thicknesses 0.1..50 A, tilts 0..30 mrad, 30-300 keV, sampling 0.1..0.6 A, and both "
    "_propagate_array implementations), adjoint (sum_patches / sum_patches_base vs _get_obj_patches on wrap-around patch index sets with repeats and on arbitrary index sets), "
    "detector (Parseval), projection (fourier_projection single/mixed state on a real Ptychography instance, measured amplitudes with exact zeros, read back through "
    "DetectorPixelated.forward), chain (explicit forward chain on a scene with hostile raw pure-phase/potential object and random probe) and insitu (reconstruct() with "
    "hostile learning rates, autograd and analytic paths, wrappers on detector.forward, fourier_shift_expand, _propagate_array, sum_patches, fourier_projection); "
    "integer shifts are additionally handed over as numpy/torch float64/32/16(/bfloat16) and int64/32/16/8 vectors (every accepted form); two thirds of the projection cases, half of the chain cases and "
    "two thirds of the in-situ cases first make 1-4 public calls that are rejected with an exception (probe setter with wrong ROI / ndim / mode count, invalid constraint keys, masks, thicknesses, "
    "reconstruct() with bad arguments, ...), catch it, check that mode count / shapes / raw values are unchanged and then judge the same identities; "
    "half of the projection / chain cases and 60% of the in-situ cases carry a user detector mask (dead column / row, beam stop, dead pixels, half plane, edge band; at construction or through "
    "the public setter, also between two reconstruct() calls) and the projection is judged on the pixels the user did not exclude; a quarter of the adjoint cases use realistic sizes (object 30..256 px, "
    "8..80 patches of 12..48 px), 70% of them non-zero-mean patch values, and the adjoint identity is additionally judged pixel by pixel (single-pixel objects) for complex64 / complex128 / float32 "
    "patches; the operator calls of ~40% of the direct cases and some chain / in-situ cases run under process-global torch state a user may have set (use_deterministic_algorithms(True), no_grad, "
    "inference_mode, default dtype float64), restored afterwards; "
    "a third of the propagate cases and a third of the multislice chain cases sit in the corners of the physical parameter space: beam energy 100 eV .. 1 MeV (log-uniform and the values 100, 300, 1e3, 5e3, 2e4, 1e6) "
    "crossed with real-space sampling 0.01 .. 5 A per axis (wavelength / sampling 1e-3 .. 10, i.e. including grids whose Nyquist frequency lies beyond 1 / wavelength), slice thicknesses 0.01 .. 1e4 A, tilts up to 100 mrad, "
    "non-square ROIs and pixels (chain: set through ProbeBase.probe_params / Ptychography.slice_thicknesses on the real model); every propagate case uses waves with white spectral content (random complex field, delta function) and "
    "additionally runs a direct 2-5 slice pure-phase multislice through both _propagate_array implementations and DetectorPixelated.forward; "
    "a third of the chain and in-situ cases share the process with sibling ObjectPixelated / ProbePixelated models of another reconstruction that are configured through the public constraint setters "
    "(gaussian_sigma, q_lowpass / q_highpass, apply_fov_mask, identical_slices, tv weights, baseline; center_probe ...) before and / or after the case's own models are built, and between two reconstruct() calls; "
    "non-trivial = non-zero shift / thickness with phase >= 0.5 rad / >= 1 repeated index / measured != predicted amplitudes / raw object off the unit circle by >= 0.5; "
    "distinct = (operator, ROI parity+squareness, modes, dtype/backend or object type)"
)
ASSUMPTIONS = [
    "float64 paths: 1e-10; integer shift = roll: 5e-5*(1+|s|) relative to max|x| (ramp built from float32-rounded frequencies, measured 1.8e-7*(1+|s|)); complex64: 1e-4*(1+|s|)",
    "float32 paths: 1e-4 relative (measured <= 4.6e-7); pure-phase intensity conservation through the whole chain 2e-4 (measured 8.4e-7); propagator additivity 5e-5*(1+max phase) (float32 phase rounding grows with the phase, measured 1.9e-7*(1+phase))",
    "energy of a sub-pixel translation is judged on complex arrays (for real input the library returns the real part, which is not unitary at the Nyquist frequency)",
    "projection inputs have a predicted far field >= 0.5 (the mixed-state code adds eps=1e-9 and maps exact zeros of the prediction to zero); measured amplitudes contain exact zeros; in situ the mixed-state projection is judged where the predicted amplitude is >= 1e-3",
    "the amplitudes produced by the projection are read in the detector layout, i.e. through DetectorPixelated.forward (zero frequency at n//2), the layout of the measured data",
    "with a non-trivial dset.detector_mask the projected amplitudes are compared with the measured ones only where the mask is 1 (read in the detector layout); on the unchanged tree the projection ignores the mask, an implementation that leaves excluded pixels at their predicted values satisfies the same check",
    "per-pixel adjoint identity: |sum_patches(P)[p] - float64 sum of the patch values extracted from p| <= tol * sum of their magnitudes (1e-4 for 32-bit, 1e-10 for 64-bit patches; measured 4.4e-7 / 0), pixels no patch covers are exactly zero",
    "process-global torch state is varied only around the operator calls (scenes are built in the default state) and always restored; in situ only use_deterministic_algorithms(True) is used",
    "in-situ events whose inputs are not finite (optimiser diverged) are counted, not judged; pure-phase conservation is judged with apply_fov_mask and identical_slices off",
    "the Fresnel kernel exp(-i pi lambda z k^2) (and the tilt ramp) is a pure phase at every frequency of the grid for every energy, sampling and thickness: unit modulus / inverse / energy are judged with the same float32 bounds "
    "in the corners of the parameter space (measured <= 3.8e-7 with phases up to ~1e8 rad); additivity stays relative to 1 + max phase",
    "the cases never set an amplitude-changing object constraint on their own model, so whether a case is energy-conserving is decided by its object type, not read back from the model's constraint dict; "
    "sibling models are only configured (constraint setters), never evaluated or judged",
]
BUDGET = {"quick": {"soft_s": 300, "workers": 14}, "thorough": {"soft_s": 1200, "workers": 14}}
MIN_EVALUATIONS = {"quick": 3000, "thorough": 30000}
REQUIRED_COUNTERS = [
    "eval:translation_energy", "eval:translation_additivity", "eval:integer_shift_not_roll", "eval:propagator_not_unit_modulus", "eval:propagator_additivity",
    "eval:propagation_energy", "eval:propagation_inverse", "eval:scatter_not_adjoint", "eval:pure_phase_intensity_not_conserved",
    "eval:projection_amplitude_mismatch", "eval:projection_not_idempotent", "eval:detector_parseval", "insitu_cases_completed",
    "rejected_calls_caught", "eval:translation_depends_on_shift_dtype",
    "propagate_corner:nyquist_gt_inv_wavelength", "propagate_corner:nyquist_le_inv_wavelength", "chain_corner_energy_thickness", "sibling_object_with_amplitude_changing_constraint",
]

T64 = 1e-10
T32 = 1e-4
ROLL_TOL = 5e-5  # x (1+|s|): the ramp is built from float32-rounded frequencies (measured 1.8e-7 x (1+|s|))
CONS_TOL = 2e-4  # per-pattern sum I / sum|probe|^2 - 1 through up to 4 slices and 4 modes in complex64 (measured 8.4e-7)
PHASE_TOL = 5e-5  # x (1+max phase): float32 rounding of the propagator phase (measured 1.9e-7 x (1+phase))


def plan(tier, seed):
    q = tier == "quick"
    n = {"insitu": 196 if q else 2240, "chain": 420 if q else 8400, "projection": 840 if q else 25200, "translate": 2100 if q else 63000,
         "propagate": 1400 if q else 42000, "adjoint": 1400 if q else 42000, "detector": 420 if q else 12600}
    rest = []
    for kind in ("projection", "translate", "propagate", "adjoint", "detector", "chain"):
        rest += [{"kind": kind, "i": i} for i in range(n[kind])]
    # deterministic interleave so every worker sees every kind; the cheap direct cases come first (seconds in total), the
    # in-situ reconstructions last, spread evenly over the workers (round-robin sharding)
    order = np.random.default_rng([seed, 16, 4242]).permutation(len(rest))
    return [rest[j] for j in order] + [{"kind": "insitu", "i": i} for i in range(n["insitu"])]


# ------------------------------------------------------------------------------------------------
# helpers


def _par(shape):
    h, w = int(shape[0]), int(shape[1])
    return ("o" if h % 2 else "e") + ("o" if w % 2 else "e") + ("sq" if h == w else "ns")


def _parity(shape):
    return "odd" if (int(shape[0]) % 2 or int(shape[1]) % 2) else "even"


def _np(x):
    import torch

    if isinstance(x, torch.Tensor):
        return x.detach().cpu().numpy()
    return np.asarray(x)


def _finite(*ts):
    import torch

    for t in ts:
        if t is None:
            continue
        if isinstance(t, torch.Tensor):
            if not bool(torch.isfinite(t.detach().abs() if t.is_complex() else t.detach()).all()):
                return False
        elif not np.isfinite(np.abs(t)).all():
            return False
    return True


def setup(ctx):
    import warnings

    warnings.filterwarnings("ignore")
    import torch

    from quantem.diffractive_imaging import detector_models, object_models, probe_models, ptycho_utils, ptychography, ptychography_base
    from vf import hook, insitu, scenes

    st = ctx.state
    st.update(torch=torch, pu=ptycho_utils, pm=probe_models, om=object_models, dm=detector_models, pb=ptychography_base, pty=ptychography, scenes=scenes, insitu=insitu)
    st["live"] = None  # dict describing the scene currently executing (None: wrappers only count)
    st["busy"] = False  # re-entrancy guard (wrappers call library code themselves)

    def live():
        return st["live"] if (st["live"] is not None and not st["busy"]) else None

    # ---- probe constraint: remember the total intensity of the probe handed to the forward model -------
    def post_probe_constraint(tok, a, k, res):
        L = live()
        if L is None:
            return
        with torch.no_grad():
            L["probe_total"] = float((res.detach().abs().double() ** 2).sum()) if _finite(res) else float("nan")

    hook.wrap(probe_models.ProbeConstraints, "apply_hard_constraints", post=post_probe_constraint, ctx=ctx)

    # ---- detector: Parseval and (pure-phase objects) conservation of the probe intensity ---------------
    def post_detector(tok, a, k, res):
        L = live()
        if L is None:
            return
        exit_waves = a[1] if len(a) > 1 else k.get("exit_waves")
        with torch.no_grad():
            if not _finite(exit_waves, res):
                ctx.count("insitu_nonfinite_not_judged:detector")
                return
            f = dict(where=L["where"], dtype=str(exit_waves.dtype).replace("torch.", ""), parity=_parity(res.shape[-2:]), modes="single" if exit_waves.shape[0] == 1 else "mixed")
            tot = res.detach().double().sum((-2, -1))
            ew = (exit_waves.detach().abs().double() ** 2).sum((0, -2, -1))
            scale = float(ew.max())
            if scale > 0:
                ctx.close(float((tot - ew).abs().max()) / scale, T32, "detector_parseval", "in situ: sum_k I(k) vs sum_r |exit wave|^2 per pattern", track="insitu", operator="detector", **f)
            pt_total = L.get("probe_total")
            if L.get("conserving") and pt_total is not None and pt_total == pt_total and pt_total > 0:
                L["n_conservation"] = L.get("n_conservation", 0) + 1
                ctx.close(float((tot / pt_total - 1).abs().max()), CONS_TOL, "pure_phase_intensity_not_conserved",
                          lambda: "in situ (%s object, %d slices, %d modes): per-pattern sum I / sum |probe|^2 - 1, probe total %.6g" % (L["obj_type"], L["slices"], exit_waves.shape[0], pt_total),
                          track="insitu", operator="chain", obj_type=L["obj_type"], **f)

    hook.wrap(detector_models.DetectorPixelated, "forward", post=post_detector, ctx=ctx)

    # ---- sub-pixel translation in situ ----------------------------------------------------------------
    def post_shift(tok, a, k, res):
        L = live()
        if L is None:
            return
        arr = a[0] if a else k.get("array")
        pos = a[1] if len(a) > 1 else k.get("positions")
        expand = a[2] if len(a) > 2 else k.get("expand_dim", True)
        if not isinstance(arr, torch.Tensor) or not arr.is_complex() or not expand:
            return
        with torch.no_grad():
            if not _finite(arr, pos, res):
                ctx.count("insitu_nonfinite_not_judged:translation")
                return
            e0 = (arr.detach().abs().double() ** 2).sum((-2, -1))
            e1 = (res.detach().abs().double() ** 2).sum((-2, -1))
            scale = float(e0.max())
            if scale > 0:
                ctx.close(float((e1 - e0[None]).abs().max()) / scale, T32, "translation_energy", "in situ: energy of every shifted probe mode vs the unshifted mode", track="insitu",
                          operator="translate", where=L["where"], dtype=str(arr.dtype).replace("torch.", ""), backend="torch", parity=_parity(arr.shape[-2:]))

    hook.wrap(ptycho_utils, "fourier_shift_expand", post=post_shift, ctx=ctx)

    # ---- free-space propagation in situ -----------------------------------------------------------------
    def post_propagate(tok, a, k, res):
        L = live()
        if L is None:
            return
        arr, prop = a[1], a[2]
        with torch.no_grad():
            if not _finite(arr, prop, res):
                ctx.count("insitu_nonfinite_not_judged:propagation")
                return
            e0 = float((arr.detach().abs().double() ** 2).sum())
            e1 = float((res.detach().abs().double() ** 2).sum())
            # the analytic back-propagation multiplies by conj(P): also unit modulus
            if e0 > 0:
                ctx.close(e1 / e0 - 1, T32, "propagation_energy", "in situ: total intensity after vs before _propagate_array", track="insitu", operator="propagate", where=L["where"],
                          dtype=str(arr.dtype).replace("torch.", ""), parity=_parity(arr.shape[-2:]))

    hook.wrap(ptychography_base.PtychographyBase, "_propagate_array", post=post_propagate, ctx=ctx)
    hook.wrap(object_models.ObjectBase, "_propagate_array", post=post_propagate, ctx=ctx)

    # ---- scatter in situ: adjoint identity against a fixed pseudo-random real object -------------------------
    def post_sum_patches(tok, a, k, res):
        L = live()
        if L is None:
            return
        patches, indices, shape = a[0], a[1], a[2]
        with torch.no_grad():
            if not _finite(patches, res):
                ctx.count("insitu_nonfinite_not_judged:scatter")
                return
            n = int(np.prod([int(s) for s in shape]))
            g = torch.Generator().manual_seed(1234 + n)
            O = torch.randn(n, generator=g, dtype=torch.float64)
            P = patches.detach().to(torch.complex128 if patches.is_complex() else torch.float64)
            R = res.detach().to(P.dtype).reshape(-1)
            idx = indices.reshape(-1)
            lhs = (O[idx] * P.reshape(-1)).sum()
            rhs = (O * R).sum()
            scale = float(torch.sqrt((O[idx] ** 2).sum() * (P.abs() ** 2).sum()))
            if scale > 0:
                ctx.close(float((lhs - rhs).abs()) / scale, T32, "scatter_not_adjoint", "in situ: <gather(O),P> vs <O,sum_patches(P)> for a fixed random real O", track="insitu",
                          operator="adjoint", where=L["where"], dtype=str(patches.dtype).replace("torch.", ""), repeats="insitu")

    hook.wrap(ptycho_utils, "sum_patches", post=post_sum_patches, ctx=ctx)

    # ---- Fourier projection in situ (analytic-gradient path) ----------------------------------------------
    def post_projection(tok, a, k, res):
        L = live()
        if L is None:
            return
        self_, meas, overlap = a[0], a[1], a[2]
        st["busy"] = True
        try:
            with torch.no_grad():
                if not _finite(meas, overlap, res):
                    ctx.count("insitu_nonfinite_not_judged:projection")
                    return
                _judge_projection(ctx, self_, meas, overlap, res, where=L["where"], insitu=True)
        finally:
            st["busy"] = False

    hook.wrap(ptychography.Ptychography, "fourier_projection", post=post_projection, ctx=ctx)


def _orig(f):
    return getattr(f, "__vf_wrapped__", f)


GLOBAL_STATES = ("default", "default", "default", "deterministic", "no_grad", "default_float64", "default", "deterministic", "inference_mode", "default")


class _global_state:
    """Process-global torch state a user may have set before calling the library; always restored."""

    def __init__(self, ctx, name):
        self.ctx, self.name, self.cm = ctx, name, None

    def __enter__(self):
        torch = self.ctx.state["torch"]
        self.prev_det = torch.are_deterministic_algorithms_enabled()
        self.prev_warn = torch.is_deterministic_algorithms_warn_only_enabled()
        self.prev_dtype = torch.get_default_dtype()
        self.ctx.state["gs"] = self.name
        if self.name == "deterministic":
            torch.use_deterministic_algorithms(True)
        elif self.name == "no_grad":
            self.cm = torch.no_grad()
        elif self.name == "inference_mode":
            self.cm = torch.inference_mode()
        elif self.name == "default_float64":
            torch.set_default_dtype(torch.float64)
        if self.cm is not None:
            self.cm.__enter__()
        self.ctx.count("global_state:" + self.name)
        return self

    def __exit__(self, *exc):
        torch = self.ctx.state["torch"]
        try:
            if self.cm is not None:
                self.cm.__exit__(*exc)
        finally:
            torch.use_deterministic_algorithms(self.prev_det, warn_only=self.prev_warn)
            torch.set_default_dtype(self.prev_dtype)
            self.ctx.state["gs"] = "default"
        return False


def _detector_mask(rng, roi):
    """a user detector mask (1 = used, 0 = excluded): dead column / row, beam stop, dead pixels, half plane; not fftshift-invariant in general."""
    h, w = roi
    m = np.ones((h, w), np.float32)
    kind = ["dead_column", "dead_row", "beam_stop", "dead_pixels", "half_plane", "edge_band"][int(rng.integers(6))]
    if kind == "dead_column":
        m[:, int(rng.integers(w))] = 0
    elif kind == "dead_row":
        m[int(rng.integers(h)), :] = 0
    elif kind == "beam_stop":
        yy, xx = np.meshgrid(np.arange(h) - (h // 2 + rng.integers(-2, 3)), np.arange(w) - (w // 2 + rng.integers(-2, 3)), indexing="ij")
        m[yy**2 + xx**2 <= float(rng.uniform(1.0, max(2.0, min(h, w) / 4.0))) ** 2] = 0
    elif kind == "dead_pixels":
        m[rng.random((h, w)) < 0.15] = 0
    elif kind == "half_plane":
        m[: int(rng.integers(1, max(2, h // 2)))] = 0
    else:
        m[:, : int(rng.integers(1, max(2, w // 4)))] = 0
    if m.sum() < 4:
        m[:] = 1
        m[0, 0] = 0
    return m, kind


def _judge_projection(ctx, pt, meas, overlap, res, where, insitu=False):
    """|F(Pi x)| read in the detector layout equals the measured amplitudes; Pi(Pi x) = Pi x."""
    torch = ctx.state["torch"]
    M = int(overlap.shape[0])
    c64 = overlap.dtype == torch.complex64
    f = dict(global_state=ctx.state.get("gs", "default"), operator="projection", where=where, dtype=str(overlap.dtype).replace("torch.", ""), parity=_parity(overlap.shape[-2:]), modes="single" if M == 1 else "mixed")
    det = pt.detector_model.forward(res)
    amp = torch.sqrt(det.detach().double())
    m64 = meas.detach().double()
    scale = float(m64.max())
    if scale <= 0:
        return
    sel = None
    if M > 1:
        # mixed state: exact zeros / values comparable to the code's eps=1e-9 in the *predicted* far field are outside the claim
        pred = torch.sqrt(pt.detector_model.forward(overlap).detach().double())
        thr = 1e-3 if insitu else 1e-2
        sel = pred >= thr
        if not bool(sel.any()):
            return
    err = (amp - m64).abs()
    # a user detector mask excludes pixels from the data; the claim is judged on the pixels the user did not exclude (detector layout)
    dmask = getattr(pt.dset, "detector_mask", None)
    if dmask is not None and tuple(dmask.shape) == tuple(err.shape[-2:]) and bool((dmask != 1).any()):
        used = (dmask.detach().double() == 1).expand_as(err)
        f["detector_mask"] = "user"
        sel = used if sel is None else (sel & used)
        if not bool(sel.any()):
            return
    if sel is not None:
        err = err[sel]
    b_amp = T32 if c64 else (T64 if M == 1 else 1e-6)
    ctx.close(float(err.max()) / scale, b_amp, "projection_amplitude_mismatch",
              lambda: "%s: max | sqrt(detector.forward(fourier_projection(a, x))) - a | / max a, roi=%s modes=%d" % (where, tuple(overlap.shape[-2:]), M), track=("insitu" if insitu else "direct") + ":" + f["dtype"] + ":" + f["modes"], **f)
    res2 = _orig(type(pt).fourier_projection)(pt, meas, res)
    sc2 = float(res.detach().abs().max())
    if sc2 > 0:
        d = (res2 - res).detach().abs()
        if sel is not None and (insitu or f.get("detector_mask") == "user"):
            # compare in Fourier space where judged
            F1 = torch.fft.fftshift(torch.fft.fft2(res.detach(), norm="ortho"), dim=(-2, -1))
            F2 = torch.fft.fftshift(torch.fft.fft2(res2.detach(), norm="ortho"), dim=(-2, -1))
            d = (F2 - F1).abs()[:, sel] if bool(sel.any()) else d
            sc2 = float(F1.abs().max())
        ctx.close(float(d.max()) / sc2, b_amp, "projection_not_idempotent", lambda: "%s: max |Pi(Pi x) - Pi x| / max |Pi x|, roi=%s modes=%d" % (where, tuple(overlap.shape[-2:]), M),
                  track=("insitu" if insitu else "direct") + ":" + f["dtype"] + ":" + f["modes"], **f)


# ------------------------------------------------------------------------------------------------
# translate


def _shape(rng, lo=4, hi=33):
    k = int(rng.integers(4))
    if k == 0:
        n = int(rng.integers(lo, hi))
        return n, n
    return int(rng.integers(lo, hi)), int(rng.integers(lo, hi))


def _run_translate(spec, idx, ctx):
    st = ctx.state
    torch, pu = st["torch"], st["pu"]
    rng = ctx.rng(idx)
    h, w = _shape(rng)
    M, B = int(rng.integers(1, 5)), int(rng.integers(1, 7))
    backend = "np" if rng.random() < 0.5 else "torch"
    integer = spec["i"] % 3 == 0
    N = max(h, w)
    s = rng.uniform(-2 * N, 2 * N, size=(B, 2))
    if integer:
        s = np.rint(s)
    if B > 1 and rng.random() < 0.3:
        s[0] = 0.0
    s2 = rng.uniform(-N, N, size=(B, 2))
    x = (rng.normal(size=(M, h, w)) + 1j * rng.normal(size=(M, h, w))) * 10.0 ** rng.uniform(-3, 3)
    xmax = float(np.abs(x).max())
    conv = (lambda a: a) if backend == "np" else (lambda a: torch.tensor(a))
    f = dict(global_state=ctx.state.get("gs", "default"), operator="translate", where="direct", dtype="complex128", backend=backend, parity=_parity((h, w)))
    y = pu.fourier_shift_expand(conv(x), conv(s))
    yn = _np(y)
    ctx.check(yn.shape == (B, M, h, w) and yn.dtype == np.complex128, "translation_shape_dtype", "output %s %s for input %s, %d positions" % (yn.shape, yn.dtype, x.shape, B), **f)
    if yn.shape != (B, M, h, w):
        return
    e0 = (np.abs(x) ** 2).sum((-2, -1))
    e1 = (np.abs(yn) ** 2).sum((-2, -1))
    ctx.close(np.abs(e1 / e0[None] - 1).max(), T64, "translation_energy", lambda: "sum|T_s x|^2 / sum|x|^2 - 1, shape %s shifts %s" % ((M, h, w), s[:2].tolist()), track="c128", **f)
    # operator level: unit modulus, additivity
    ra = _np(pu.fourier_translation_operator(conv(s), (M, h, w)))
    rb = _np(pu.fourier_translation_operator(conv(s2), (M, h, w)))
    rab = _np(pu.fourier_translation_operator(conv(s + s2), (M, h, w)))
    ctx.close(np.abs(np.abs(ra) - 1).max(), T64, "translation_not_unit_modulus", lambda: "| |ramp| - 1 |, shape %s" % ((h, w),), **f)
    ctx.close(np.abs(ra * rb - rab).max(), T64, "translation_additivity", lambda: "ramp(a) ramp(b) - ramp(a+b), a=%s b=%s" % (s[0].tolist(), s2[0].tolist()), track="operator", **f)
    # array level: T_b T_a x = T_{a+b} x ; T_{-a} T_a x = x
    y1 = pu.fourier_shift_expand(conv(x), conv(s[:1]))[0]
    y2 = _np(pu.fourier_shift_expand(y1, conv(s2[:1]))[0])
    y12 = _np(pu.fourier_shift_expand(conv(x), conv((s + s2)[:1]))[0])
    ctx.close(np.abs(y2 - y12).max() / xmax, T64, "translation_additivity", lambda: "T_b T_a x - T_{a+b} x, a=%s b=%s shape %s" % (s[0].tolist(), s2[0].tolist(), (h, w)), track="array", **f)
    yb = _np(pu.fourier_shift_expand(y1, conv(-s[:1]))[0])
    ctx.close(np.abs(yb - x).max() / xmax, T64, "translation_inverse", lambda: "T_{-a} T_a x - x, a=%s" % (s[0].tolist(),), **f)
    if integer:
        worst = 0.0
        for b in range(B):
            r = np.roll(x, (int(s[b, 0]), int(s[b, 1])), axis=(-2, -1))
            worst = max(worst, np.abs(yn[b] - r).max() / xmax / (1 + np.abs(s[b]).max()))
        ctx.close(worst, ROLL_TOL, "integer_shift_not_roll", lambda: "max |T_s x - roll(x, s)| / max|x| / (1+|s|), shifts %s shape %s" % (s[:3].tolist(), (h, w)), track="c128", **f)
        # the same integer shifts handed over in every dtype / container form the functions accept (probed on the unchanged tree:
        # numpy float64/32/16 and int64/32/16/8, torch float64/32/16/bfloat16 and int64/32/16/8, numpy shifts with a torch array;
        # Python lists and torch shifts with a numpy array are rejected with TypeError): an integer translation is a roll whatever the
        # dtype the caller's shift vector happens to have, T_a T_b = T_{a+b}, and ints give what the same floats give
        si = np.clip(s, -120, 120)  # representable in int8 / float16 / bfloat16
        si2 = np.rint(np.clip(s2, -60, 60))
        ref = np.stack([np.roll(x, (int(si[b, 0]), int(si[b, 1])), axis=(-2, -1)) for b in range(B)])
        scale_s = 1 + np.abs(si).max(axis=1)[:, None, None, None]
        forms = [("np", "np." + np.dtype(d).name, (lambda a, d=d: a.astype(d))) for d in (np.float64, np.float32, np.float16, np.int64, np.int32, np.int16, np.int8)]
        forms += [("torch", str(d).replace("torch.", "torch_"), (lambda a, d=d: torch.tensor(a).to(d))) for d in (torch.float64, torch.float32, torch.float16, torch.bfloat16, torch.int64, torch.int32, torch.int16, torch.int8)]
        forms += [("torch_array_np_shifts", "np.int64", (lambda a: a.astype(np.int64))), ("torch_array_np_shifts", "np.int32", (lambda a: a.astype(np.int32)))]
        pick = [forms[j] for j in rng.permutation(len(forms))[:6]] + [fm for fm in forms if fm[1] in ("np.int64", "torch_int64")]
        for bk, name, cast in pick:
            arr = x if bk == "np" else torch.tensor(x)
            g = dict(f, backend=bk, shift_dtype=name)
            exact = name in ("np.float64", "np.int64", "np.int32", "torch_float64")  # float64 arithmetic on float32-rounded frequencies; the others run in float32
            tol = ROLL_TOL if exact else T32
            yi = _np(pu.fourier_shift_expand(arr, cast(si)))
            if not ctx.check(yi.shape == (B, M, h, w), "translation_shape_dtype", "shift dtype %s: output %s" % (name, yi.shape), **g):
                continue
            ctx.close(float((np.abs(yi - ref) / xmax / scale_s).max()), tol, "integer_shift_not_roll", lambda: "shift vector given as %s (%s backend): max |T_s x - roll(x, s)| / max|x| / (1+|s|), shifts %s" % (name, bk, si[:3].tolist()),
                      track="shift_dtype:" + ("f64" if exact else "f32"), **g)
            oa, ob, oab = (_np(pu.fourier_translation_operator(cast(v), (M, h, w))).astype(np.complex128) for v in (si, si2, si + si2))
            ctx.close(float(np.abs(oa * ob - oab).max()) / (1 + float(np.abs(si).max() + np.abs(si2).max())), tol, "translation_additivity", lambda: "shift vectors given as %s: ramp(a) ramp(b) - ramp(a+b)" % name, track="shift_dtype", **g)
            of = _np(pu.fourier_translation_operator(si.astype(np.float64) if bk != "torch" else torch.tensor(si), (M, h, w))).astype(np.complex128)
            ctx.close(float(np.abs(oa - of).max()) / (1 + float(np.abs(si).max())), tol, "translation_depends_on_shift_dtype", lambda: "ramp for shifts given as %s vs the same shifts given as float64" % name, **g)
    # (real-valued input arrays are outside the property's quantifier "for all complex arrays/probe stacks" and are not generated)
    # expand_dim=False: one shift per mode (used by the probe centring constraint)
    sm = rng.uniform(-N, N, size=(M, 2))
    if integer:
        sm = np.rint(sm)
    ym = _np(pu.fourier_shift_expand(conv(x), conv(sm), expand_dim=False))
    if ctx.check(ym.shape == (M, h, w), "translation_shape_dtype", "expand_dim=False output %s" % (ym.shape,), **f):
        ctx.close(np.abs((np.abs(ym) ** 2).sum((-2, -1)) / e0 - 1).max(), T64, "translation_energy", "expand_dim=False", track="c128", **f)
        if integer:
            worst = max(np.abs(ym[m] - np.roll(x[m], (int(sm[m, 0]), int(sm[m, 1])), axis=(-2, -1))).max() / xmax / (1 + np.abs(sm[m]).max()) for m in range(M))
            ctx.close(worst, ROLL_TOL, "integer_shift_not_roll", "expand_dim=False (one shift per mode)", track="c128", **f)
    # the precision the pipeline uses: complex64 probe, float32 positions
    f32 = dict(f, dtype="complex64", backend="torch")
    x32 = torch.tensor(x.astype(np.complex64))
    y32 = pu.fourier_shift_expand(x32, torch.tensor(s.astype(np.float32)))
    ctx.check(y32.dtype == torch.complex64, "translation_shape_dtype", "complex64 input returned %s" % y32.dtype, **f32)
    e32 = (np.abs(_np(y32).astype(np.complex128)) ** 2).sum((-2, -1))
    ctx.close(np.abs(e32 / e0[None] - 1).max(), T32, "translation_energy", "complex64", track="c64", **f32)
    if integer:
        worst = 0.0
        for b in range(B):
            r = np.roll(x, (int(s[b, 0]), int(s[b, 1])), axis=(-2, -1))
            worst = max(worst, np.abs(_np(y32)[b] - r).max() / xmax / (1 + np.abs(s[b]).max()))
        ctx.close(worst, T32, "integer_shift_not_roll", "complex64", track="c64", **f32)
    ctx.nontrivial(("translate", _par((h, w)), M, backend, "int" if integer else "frac"), bool(np.abs(s).max() > 0))
    ctx.observe(shape=[M, h, w], batch=B, backend=backend, integer=integer, max_shift=float(np.abs(s).max()))


# ------------------------------------------------------------------------------------------------
# propagate


CORNER_ENERGIES = (100.0, 300.0, 1e3, 5e3, 20e3, 1e6)  # eV: LEEM / low-voltage SEM ... high-voltage TEM


def _corner_parameters(rng, lam_of):
    """Corners of the physical parameter space: energy 100 eV .. 1 MeV crossed with sampling 0.01 .. 5 A per axis (wavelength / sampling
    spans 1e-3 .. 10, so the Nyquist frequency of the grid may lie beyond 1 / wavelength), slice thicknesses 0.01 .. 1e4 A, tilts up to 100 mrad.
    Nothing in the property (or in the Fresnel kernel exp(-i pi lambda z k^2)) singles out a sub-domain of these."""
    E = float(rng.choice(CORNER_ENERGIES)) if rng.random() < 0.4 else float(10 ** rng.uniform(2, 6))
    lam = float(lam_of(E))

    def axis():
        if rng.random() < 0.5:
            return float(10 ** rng.uniform(-2, np.log10(5.0)))
        return float(np.clip(lam / 10 ** rng.uniform(-3, 1), 0.01, 5.0))  # wavelength / sampling log-uniform on 1e-3 .. 10

    a = axis()
    samp = (a, a) if rng.random() < 0.4 else (a, axis())
    z = [float(10 ** rng.uniform(-2, 4)) for _ in range(2)]
    return E, samp, z


def _run_propagate(spec, idx, ctx):
    st = ctx.state
    torch = st["torch"]
    from quantem.core.utils.utils import electron_wavelength_angstrom

    rng = ctx.rng(idx)
    h, w = _shape(rng)
    corner = spec["i"] % 3 == 2
    tilted = spec["i"] % 2 == 1
    if corner:
        E, samp, (z1, z2) = _corner_parameters(rng, electron_wavelength_angstrom)
        tmax = 100.0
    else:
        E = float(rng.uniform(30e3, 300e3))
        tmax = 30.0
    tilt = (float(rng.uniform(-tmax, tmax)), float(rng.uniform(-tmax, tmax))) if tilted else (0.0, 0.0)
    if tilted and rng.random() < 0.3:
        tilt = (tilt[0], 0.0)
    pm = st["pm"].ProbePixelated.from_params({"energy": E, "semiangle_cutoff": 20.0, "defocus": 0.0}, num_probes=1, roi_shape=(h, w), probe_tilt=tilt)
    if not corner:
        samp = (float(rng.uniform(0.1, 0.6)), float(rng.uniform(0.1, 0.6)))
        z1, z2 = (float(10 ** rng.uniform(-1, np.log10(50.0))) for _ in range(2))
    th = np.array([z1, z2, z1 + z2, -z1, -z2, -(z1 + z2)])
    P = pm._compute_propagator_arrays(samp, len(th) + 1, th)
    lam = float(electron_wavelength_angstrom(E))
    # the joint regime no single parameter reveals: the largest spatial frequency of the grid exceeds 1 / wavelength
    beyond = bool(max(0.5 / samp[0], 0.5 / samp[1]) * lam > 1.0)
    regime = "nyquist_gt_inv_wavelength" if beyond else "nyquist_le_inv_wavelength"
    if corner:
        ctx.count("propagate_corner:" + regime)
    f = dict(global_state=ctx.state.get("gs", "default"), operator="propagate", where="direct", dtype=str(P.dtype).replace("torch.", ""), parity=_parity((h, w)), tilted=tilted, domain="corner" if corner else "tem", regime=regime)
    if not ctx.check(tuple(P.shape) == (6, h, w) and P.is_complex(), "propagator_shape_dtype", "propagators %s %s for roi %s and 6 thicknesses" % (tuple(P.shape), P.dtype, (h, w)), **f):
        return
    Pn = _np(P).astype(np.complex128)
    kmax2 = (0.5 / samp[0]) ** 2 + (0.5 / samp[1]) ** 2
    phimax = np.pi * lam * (z1 + z2) * kmax2 + 2 * np.pi * (z1 + z2) * (abs(np.tan(tilt[0] / 1e3)) * 0.5 / samp[0] + abs(np.tan(tilt[1] / 1e3)) * 0.5 / samp[1])
    par = lambda: "z=%s tilt=%s E=%.6g sampling=%s roi=%s k_max*lambda=%.3g" % (th[:2].tolist(), tilt, E, samp, (h, w), max(0.5 / samp[0], 0.5 / samp[1]) * lam)  # noqa: E731
    ctx.close(np.abs(np.abs(Pn) - 1).max(), T32, "propagator_not_unit_modulus", lambda: "| |P_z| - 1 | over every frequency of the grid, " + par(), **f)
    ctx.close(np.abs(Pn[0] * Pn[1] - Pn[2]).max() / (1 + phimax), PHASE_TOL, "propagator_additivity", lambda: "|P(z1)P(z2) - P(z1+z2)| / (1+max phase %.1f), " % phimax + par(), **f)
    ctx.close(max(np.abs(Pn[3 + j] - Pn[j].conj()).max() for j in range(3)), T32, "propagator_inverse", lambda: "P(-z) - conj P(z), " + par(), track="conj", **f)
    ctx.close(max(np.abs(Pn[3 + j] * Pn[j] - 1).max() for j in range(3)), T32, "propagator_inverse", lambda: "P(-z) P(z) - 1, " + par(), track="product", **f)
    nb, nm = int(rng.integers(1, 4)), int(rng.integers(1, 4))
    # white spectral content (every frequency of the grid populated): a random complex field and a delta function
    xn = (rng.normal(size=(nm, nb, h, w)) + 1j * rng.normal(size=(nm, nb, h, w))) * 10.0 ** rng.uniform(-2, 2)
    x = torch.tensor(xn)
    xmax = float(np.abs(xn).max())
    e0 = float((np.abs(xn) ** 2).sum())
    amp = complex(rng.normal(), rng.normal()) * 10.0 ** rng.uniform(-2, 2)
    dn = np.zeros((1, 1, h, w), complex)
    dn[0, 0, int(rng.integers(h)), int(rng.integers(w))] = amp
    delta = torch.tensor(dn)
    # pure-phase multislice through the same operators: S slices of unit-modulus transmission, S-1 propagations, far field
    S = int(rng.integers(2, 6))
    zs = np.array([float(10 ** rng.uniform(-2, 4)) if corner else float(rng.uniform(1.0, 30.0)) for _ in range(S - 1)])
    if S > 2 and rng.random() < 0.3:
        zs[:] = zs[0]
    Pm = pm._compute_propagator_arrays(samp, S, zs)
    trans = torch.tensor(np.exp(1j * rng.uniform(-np.pi, np.pi, size=(S, nb, h, w))))
    det = st["dm"].DetectorPixelated()
    ptot = (np.abs(xn) ** 2).sum((0, 2, 3))  # per pattern: all modes of the incoming wave
    for name, owner in (("ptychography_base", st["pb"].PtychographyBase), ("object_models", st["om"].ObjectBase)):
        fn = getattr(owner, "_propagate_array", None)
        if fn is None:
            ctx.count("missing:%s._propagate_array" % name)
            continue
        g = dict(f, impl=name, dtype="complex128")
        y = fn(None, x, P[0])
        ctx.close(float((y.abs() ** 2).sum()) / e0 - 1, T32, "propagation_energy", lambda: "sum|P_z x|^2 / sum|x|^2 - 1 (white random field), " + par(), track="c128", **g)
        ctx.close(float((fn(None, y, P[3]) - x).abs().max()) / xmax, T32, "propagation_inverse", lambda: "P_{-z} P_z x - x, " + par(), **g)
        y12 = fn(None, fn(None, x, P[0]), P[1])
        ctx.close(float((y12 - fn(None, x, P[2])).abs().max()) / xmax / (1 + phimax), PHASE_TOL, "propagation_additivity", lambda: "P_{z2} P_{z1} x - P_{z1+z2} x (per 1+max phase), " + par(), **g)
        y32 = fn(None, x.to(torch.complex64), P[0])
        ctx.close(float((y32.abs().double() ** 2).sum()) / e0 - 1, T32, "propagation_energy", lambda: "complex64, " + par(), track="c64", **dict(g, dtype="complex64"))
        # a delta function has the same magnitude at every frequency before and after propagation, and comes back exactly
        yd = fn(None, delta, P[1])
        Fd = np.abs(np.fft.fft2(_np(yd)[0, 0])) / abs(amp)
        ctx.close(float(np.abs(Fd - 1).max()), T32, "propagation_energy", lambda: "delta function: | |F(P_z delta)(k)| / |F(delta)(k)| - 1 | over every frequency, " + par(), track="delta", **g)
        ctx.close(float((fn(None, yd, P[4]) - delta).abs().max()) / abs(amp), T32, "propagation_inverse", lambda: "delta function: P_{-z} P_z delta - delta, " + par(), **g)
        for dt, tr in ((torch.complex128, "direct_multislice:c128"), (torch.complex64, "direct_multislice:c64")):
            wave = trans[0].to(dt) * x.to(dt)
            for s_ in range(1, S):
                wave = trans[s_].to(dt) * fn(None, wave, Pm[s_ - 1])
            I = det.forward(wave)
            ctx.close(float(np.abs(_np(I).astype(np.float64).sum((-2, -1)) / ptot - 1).max()), CONS_TOL, "pure_phase_intensity_not_conserved",
                      lambda: "direct multislice (%d pure-phase slices, thicknesses %s, %d modes, white random wave): per-pattern sum I / sum|wave|^2 - 1, " % (S, zs.tolist(), nm) + par(),
                      track=tr, **dict(g, operator="chain", obj_type="pure_phase", dtype=str(dt).replace("torch.", ""), modes="single" if nm == 1 else "mixed"))
    ctx.nontrivial(("propagate", _par((h, w)), "tilt" if tilted else "notilt", "E%d" % int(np.log10(E)), "corner" if corner else "tem", regime), phimax >= 0.5)
    ctx.observe(roi=[h, w], energy=E, sampling=list(samp), wavelength=lam, nyquist_times_wavelength=float(max(0.5 / samp[0], 0.5 / samp[1]) * lam), tilt=list(tilt), thicknesses=[z1, z2], multislice_thicknesses=zs.tolist(), max_phase=float(phimax), domain="corner" if corner else "tem")


# ------------------------------------------------------------------------------------------------
# adjoint


def _run_adjoint(spec, idx, ctx):
    st = ctx.state
    torch, pu = st["torch"], st["pu"]
    rng = ctx.rng(idx)
    S = int(rng.integers(1, 4))
    H, W = int(rng.integers(6, 40)), int(rng.integers(6, 40))
    B = int(rng.integers(1, 7))
    arbitrary = spec["i"] % 4 == 3
    large = spec["i"] % 4 == 2  # realistic sizes: object 30..256 px, 8..80 patches of 12..48 px
    if large:
        S = int(rng.integers(1, 3))
        H, W = int(rng.integers(30, 257)), int(rng.integers(30, 257))
        B = int(rng.integers(8, 81))
    if arbitrary:
        h, w = int(rng.integers(2, 12)), int(rng.integers(2, 12))
        idx_np = rng.integers(0, H * W, size=(B, h, w))
    else:
        h, w = int(rng.integers(2, H + 3)), int(rng.integers(2, W + 3))  # patches may be larger than the object: wrap-around with self-overlap
        if large:
            h, w = int(rng.integers(12, 49)), int(rng.integers(12, 49))
        r0 = rng.integers(-H, 2 * H, size=B)
        c0 = rng.integers(-W, 2 * W, size=B)
        if B > 1 and rng.random() < 0.5:
            r0[1], c0[1] = r0[0], c0[0]  # the same patch twice
        idx_np = ((r0[:, None, None] + np.arange(h)[None, :, None]) % H) * W + ((c0[:, None, None] + np.arange(w)[None, None, :]) % W)
    repeats = int(idx_np.size - np.unique(idx_np).size)
    wraps = bool(not arbitrary and ((r0 % H + h > H).any() or (c0 % W + w > W).any()))
    it = torch.tensor(idx_np)
    On = rng.normal(size=(S, H, W)) + 1j * rng.normal(size=(S, H, W))
    Pn = rng.normal(size=(S, B, h, w)) + 1j * rng.normal(size=(S, B, h, w))
    offset = 0.0
    if rng.random() < 0.7:
        # patch values of non-zero mean (probe intensities, exit waves of weak objects), not only zero-mean noise
        offset = complex(rng.uniform(1, 10), rng.uniform(-10, 10)) * float(rng.choice([1.0, -1.0]))
        Pn = Pn + offset
    Pn = Pn * 10.0 ** rng.uniform(-2, 2)
    O, P = torch.tensor(On), torch.tensor(Pn)
    f = dict(global_state=ctx.state.get("gs", "default"), operator="adjoint", where="direct", repeats="yes" if repeats else "no", index_kind="arbitrary" if arbitrary else "patch")
    G = st["om"].ObjectBase._get_obj_patches(None, O, it)
    if not ctx.check(tuple(G.shape) == (S, B, h, w), "gather_shape", "_get_obj_patches returned %s for indices %s" % (tuple(G.shape), tuple(it.shape)), **f):
        return
    # the gather itself against plain numpy indexing
    ctx.close(np.abs(_np(G) - On.reshape(S, -1)[:, idx_np]).max(), T64, "gather_vs_reference", "_get_obj_patches vs numpy fancy indexing", **f)
    scale = float(np.sqrt((np.abs(_np(G)) ** 2).sum() * (np.abs(Pn) ** 2).sum()))
    sc = torch.stack([pu.sum_patches(P[s], it, (H, W)) for s in range(S)])
    ctx.check(sc.dtype == torch.complex128 and tuple(sc.shape) == (S, H, W), "scatter_shape_dtype", "sum_patches returned %s %s" % (tuple(sc.shape), sc.dtype), **f)
    lhs = complex((G.conj() * P).sum())
    rhs = complex((O.conj() * sc).sum())
    ctx.close(abs(lhs - rhs) / scale, T64, "scatter_not_adjoint", lambda: "complex128: |<gather(O),P> - <O,sum_patches(P)>| / (|gather(O)| |P|), obj %s patches %s repeats %d" % ((H, W), (B, h, w), repeats), track="c128", dtype="complex128", **f)
    ref = np.zeros(H * W, complex)
    np.add.at(ref, idx_np.reshape(-1), Pn[0].reshape(-1))
    ctx.close(np.abs(_np(sc[0]).reshape(-1) - ref).max() / max(1e-300, np.abs(ref).max()), T64, "scatter_vs_reference", "sum_patches vs numpy.add.at", dtype="complex128", **f)
    # real patches through sum_patches and sum_patches_base
    Or, Pr = O.real.contiguous(), P.real.contiguous()
    Gr = Or.reshape(S, -1)[:, it]
    for nm in ("sum_patches", "sum_patches_base"):
        fn = getattr(pu, nm, None)
        if fn is None:
            ctx.count("missing:ptycho_utils.%s" % nm)
            continue
        scr = torch.stack([fn(Pr[s], it, (H, W)) for s in range(S)])
        ctx.close(abs(float((Gr * Pr).sum() - (Or * scr).sum())) / scale, T64, "scatter_not_adjoint", lambda: "float64 via %s, repeats %d" % (nm, repeats), track="f64", dtype="float64", impl=nm, **f)
    # the precision the pipeline uses
    sc32 = torch.stack([pu.sum_patches(P[s].to(torch.complex64), it, (H, W)) for s in range(S)])
    ctx.close(abs(lhs - complex((O.conj() * sc32.to(torch.complex128)).sum())) / scale, T32, "scatter_not_adjoint", "complex64 patches", track="c64", dtype="complex64", **f)
    # the identity pixel by pixel (single-pixel objects e_p): sum_patches(P)[p] is the sum of the patch values extracted from p.
    # Judged against a float64 accumulation, relative to the sum of the magnitudes that pixel receives (what bounds its rounding error)
    flat = idx_np.reshape(-1)
    for s_ in range(min(S, 2)):
        v = Pn[s_].reshape(-1)
        ref = np.bincount(flat, weights=v.real, minlength=H * W) + 1j * np.bincount(flat, weights=v.imag, minlength=H * W)
        mag = np.bincount(flat, weights=np.abs(v), minlength=H * W)
        hit = mag > 0
        for dt, tol, tr in ((torch.complex64, T32, "c64"), (torch.complex128, T64, "c128")):
            out = _np(pu.sum_patches(P[s_].to(dt), it, (H, W))).astype(np.complex128).reshape(-1)
            g = dict(f, dtype=str(dt).replace("torch.", ""), test="per_pixel")
            ctx.check(bool((out[~hit] == 0).all()), "scatter_not_adjoint", "pixels no patch covers are not zero", **g)
            ctx.close(float((np.abs(out - ref)[hit] / mag[hit]).max()), tol, "scatter_not_adjoint",
                      lambda: "per pixel: |sum_patches(P)[p] - sum of P over the patch elements extracted from p| / sum|P|, obj %s patches %s offset %s" % ((H, W), (B, h, w), offset), track="per_pixel:" + tr, **g)
        # real-valued patches (probe overlap / normalisation maps are scattered as float32 intensities)
        vr = np.abs(v) ** 2
        refr = np.bincount(flat, weights=vr, minlength=H * W)
        outr = _np(pu.sum_patches(torch.tensor(vr.reshape(B, h, w)).to(torch.float32), it, (H, W))).astype(np.float64).reshape(-1)
        ctx.close(float((np.abs(outr - refr)[hit] / refr[hit]).max()) if bool((refr[hit] > 0).all()) else 0.0, T32, "scatter_not_adjoint", "per pixel, float32 intensities |P|^2", track="per_pixel:f32", **dict(f, dtype="float32", test="per_pixel"))
    ctx.nontrivial(("adjoint", "arb" if arbitrary else "patch", "wrap" if wraps else "nowrap", S, "rep" if repeats else "norep", "large" if large else "small", "offset" if offset else "zero_mean", ctx.state.get("gs", "default")), repeats > 0)
    ctx.observe(obj=[S, H, W], patches=[B, h, w], repeats=repeats, wraps=wraps, large=large, patch_offset=str(offset), global_state=ctx.state.get("gs", "default"))


# ------------------------------------------------------------------------------------------------
# detector


def _run_detector(spec, idx, ctx):
    st = ctx.state
    torch = st["torch"]
    rng = ctx.rng(idx)
    h, w = _shape(rng)
    M, B = int(rng.integers(1, 5)), int(rng.integers(1, 7))
    det = st["dm"].DetectorPixelated()
    xn = (rng.normal(size=(M, B, h, w)) + 1j * rng.normal(size=(M, B, h, w))) * 10.0 ** rng.uniform(-3, 3)
    e = (np.abs(xn) ** 2).sum((0, 2, 3))
    for dt, tol in ((torch.complex128, T64), (torch.complex64, T32)):
        I = det.forward(torch.tensor(xn).to(dt))
        f = dict(global_state=ctx.state.get("gs", "default"), operator="detector", where="direct", dtype=str(dt).replace("torch.", ""), parity=_parity((h, w)), modes="single" if M == 1 else "mixed")
        if not ctx.check(tuple(I.shape) == (B, h, w) and not I.is_complex(), "detector_shape_dtype", "detector.forward returned %s %s" % (tuple(I.shape), I.dtype), **f):
            continue
        ctx.check(bool((I >= 0).all()), "detector_negative_intensity", "negative intensities", **f)
        ctx.close(np.abs(_np(I).astype(np.float64).sum((-2, -1)) / e - 1).max(), tol, "detector_parseval", lambda: "sum_k I(k) / sum_m sum_r |exit|^2 - 1, roi %s modes %d" % ((h, w), M), track=f["dtype"], **f)
    ctx.nontrivial(("detector", _par((h, w)), M), True)
    ctx.observe(roi=[h, w], modes=M, batch=B)


# ------------------------------------------------------------------------------------------------
# rejected public calls (behaviour after an error): a caller catches the exception and carries on with the same objects


def _rejected_calls(ctx, pt, rng, n, where):
    """Makes n public calls that the unchanged tree rejects with an exception (probed), catches them like an interactive caller, and
    checks that what the forward model / fourier_projection read (mode count, probe / object shapes and raw values) is untouched.
    The operator identities judged afterwards by the caller must hold exactly as on a fresh model."""
    torch = ctx.state["torch"]
    pm, om = pt.probe_model, pt.obj_model
    M, S = int(pt.num_probes), int(pt.num_slices)
    h, w = (int(v) for v in pt.roi_shape)
    J = int(pt.dset.num_gpts)
    one = lambda *shape: np.ones(shape, np.complex64)  # noqa: E731
    cands = {
        "probe=2d_wrong_roi": lambda: setattr(pm, "probe", one(h + 1, w)),
        "probe=1mode_wrong_roi": lambda: setattr(pm, "probe", one(1, h, w + 2)),
        "probe=wrong_roi": lambda: setattr(pm, "probe", one(M, h + 2, w)),
        "probe=wrong_mode_count": lambda: setattr(pm, "probe", torch.ones((M + 1, h, w), dtype=torch.complex64)),
        "probe=4d": lambda: setattr(pm, "probe", one(1, M, h, w)),
        "probe=str": lambda: setattr(pm, "probe", "nope"),
        "probe.add_constraint(bad_key)": lambda: pm.add_constraint("no_such_constraint", 1),
        "obj.constraints=bad_key": lambda: setattr(om, "constraints", {"no_such_constraint": 1}),
        "pt.constraints=bad_category": lambda: setattr(pt, "constraints", {"no_such_category": {}}),
        "pt.constraints=bad_key": lambda: setattr(pt, "constraints", {"object": {"no_such_constraint": 1}}),
        "obj.mask=4d": lambda: setattr(om, "mask", np.ones((2, 2, 3, 3), np.float32)),
        "pt.set_obj_type(bad)": lambda: pt.set_obj_type("no_such_type"),
        "pt.slice_thicknesses=bad_len": lambda: setattr(pt, "slice_thicknesses", [1.0] * (S + 2)),
        "pt.obj_fov_mask=4d": lambda: setattr(pt, "obj_fov_mask", np.ones((2, 2, 3, 3), np.float32)),
        "pt.obj_padding_px=bad_len": lambda: setattr(pt, "obj_padding_px", (1, 2, 3)),
        "pt.batch_size=0": lambda: setattr(pt, "batch_size", 0),
        "pt.val_ratio=1.5": lambda: setattr(pt, "val_ratio", 1.5),
        "pt.val_mode=bad": lambda: setattr(pt, "val_mode", "nope"),
        "reconstruct(bad_constraints)": lambda: pt.reconstruct(num_iters=1, constraints={"no_such_category": {}}, batch_size=J),
        "reconstruct(bad_batch_size)": lambda: pt.reconstruct(num_iters=1, batch_size=-3),
        "reconstruct(bad_optimizer_key)": lambda: pt.reconstruct(num_iters=1, optimizer_params={"no_such_model": {}}, batch_size=J),
        "reconstruct(bad_loss_type)": lambda: pt.reconstruct(num_iters=1, optimizer_params={"object": {"type": "sgd", "lr": 0.0}}, loss_type="no_such_loss", batch_size=J),
        "probe.num_probes=0": lambda: setattr(pm, "num_probes", 0),
        "probe.roi_shape=bad": lambda: setattr(pm, "roi_shape", (0, 3)),
        "pt.probe_model=3": lambda: setattr(pt, "probe_model", 3),
        "pt.obj_model=3": lambda: setattr(pt, "obj_model", 3),
        "pt.detector_model=3": lambda: setattr(pt, "detector_model", 3),
    }
    if M > 1:
        cands["probe=2d_right_roi"] = lambda: setattr(pm, "probe", one(h, w))  # (a valid assignment on a single-mode model)
    if S > 1:
        cands["pt.propagators=bad_shape"] = lambda: setattr(pt, "propagators", one(S + 1, h, w))
    names = sorted(cands)
    pw = np.array([4.0 if nm.startswith("probe=") else 1.0 for nm in names])
    done = []

    def snap():
        with torch.no_grad():
            return {"num_probes": int(pt.num_probes), "probe_model.num_probes": int(pm.num_probes), "probe.shape": tuple(pm.probe.shape), "raw_probe.shape": tuple(pm._probe.shape),
                    "num_slices": int(pt.num_slices), "obj.shape": tuple(om.obj.shape), "roi_shape": tuple(int(v) for v in pt.roi_shape), "obj_type": str(pt.obj_type),
                    "raw_probe": pm._probe.detach().clone(), "raw_obj": om._obj.detach().clone()}

    saved_live, ctx.state["live"] = ctx.state["live"], None  # (the operator wrappers judge the workload, not these rejected calls)
    try:
        for nm in rng.choice(names, size=n, p=pw / pw.sum()):
            nm = str(nm)
            before = snap()
            try:
                cands[nm]()
            except Exception:  # noqa: BLE001
                ctx.count("rejected_calls_caught")
            else:
                ctx.count("rejected_call_not_rejected:" + nm)  # accepted after all: whatever it did was a valid operation, nothing to compare
                done.append(nm + "(accepted)")
                continue
            after = snap()
            diff = [k for k in before if (not torch.equal(before[k], after[k]) if isinstance(before[k], torch.Tensor) else before[k] != after[k])]
            ctx.check(not diff, "state_changed_by_rejected_call", lambda: "after the rejected call %s: %s" % (nm, {k: (before[k], after[k]) for k in diff if not isinstance(before[k], torch.Tensor)} or diff),
                      operator="state", where=where, call=nm.split("(")[0].split("=")[0], changed=",".join(diff))
            ctx.check(after["num_probes"] == after["raw_probe.shape"][0] == after["probe.shape"][0], "mode_count_inconsistent_with_probe", lambda: "num_probes %s, probe %s after %s" % (after["num_probes"], after["probe.shape"], nm),
                      operator="state", where=where, call=nm.split("(")[0].split("=")[0])
            done.append(nm)
    finally:
        ctx.state["live"] = saved_live
    return done


# ------------------------------------------------------------------------------------------------
# projection (needs a real Ptychography instance: fourier_projection reads num_probes and calls estimate_amplitudes)


def _scene_roi(rng, i):
    # odd / even / non-square in rotation
    k = i % 4
    a, b = int(rng.integers(4, 12)), int(rng.integers(4, 12))
    if k == 0:
        return 2 * a, 2 * a
    if k == 1:
        return 2 * a + 1, 2 * a + 1
    if k == 2:
        return 2 * a, 2 * b + 1
    return 2 * a + 1, 2 * b if rng.random() < 0.5 else 2 * b + 1


def _run_projection(spec, idx, ctx):
    st = ctx.state
    torch, scenes = st["torch"], st["scenes"]
    rng = ctx.rng(idx)
    roi = _scene_roi(rng, spec["i"])
    M = 1 if spec["i"] % 8 < 4 else int(rng.integers(2, 5))
    sc = scenes.make_scene(rng, roi=roi, num_modes=M, num_slices=1, gpts=(2, 3))
    dmask, dkind = _detector_mask(rng, roi) if (spec["i"] // 3) % 2 else (None, "default")
    via_setter = dmask is not None and (spec["i"] // 6) % 2 == 1
    pt = scenes.build_library(sc, scenes.simulate_scene(sc), seed=int(rng.integers(1 << 30)), detector_mask=None if via_setter else dmask)
    if via_setter:
        pt.dset.detector_mask = dmask  # installed later through the public setter
    h, w = roi
    B = int(rng.integers(1, 6))
    F = rng.uniform(0.5, 2.0, size=(M, B, h, w)) * np.exp(2j * np.pi * rng.random((M, B, h, w)))
    xn = np.fft.ifft2(F, norm="ortho")
    meas = rng.uniform(0, 3, size=(B, h, w))
    meas[rng.random((B, h, w)) < 0.2] = 0.0
    if rng.random() < 0.5:
        meas[rng.random((B, h, w)) < 0.05] = 10.0 ** rng.uniform(-6, -3)
    nz = int((meas == 0).sum())
    # two thirds of the cases: the same identities after public calls that were rejected with an exception and caught by the caller
    rejected = _rejected_calls(ctx, pt, rng, int(rng.integers(1, 4)), "direct_after_error") if spec["i"] % 3 else []
    where = "direct_after_error" if rejected else "direct"
    st["stack"].enter_context(_global_state(ctx, GLOBAL_STATES[(spec["i"] // 2) % len(GLOBAL_STATES)]))
    for dt, rdt in ((torch.complex64, torch.float32), (torch.complex128, torch.float64)):
        x = torch.tensor(xn).to(dt)
        m = torch.tensor(meas).to(rdt)
        with torch.no_grad():
            res = pt.fourier_projection(m, x)
            f = dict(global_state=ctx.state.get("gs", "default"), operator="projection", where=where, dtype=str(dt).replace("torch.", ""), parity=_parity(roi), modes="single" if M == 1 else "mixed")
            if not ctx.check(tuple(res.shape) == tuple(x.shape) and res.is_complex(), "projection_shape_dtype", "fourier_projection returned %s %s" % (tuple(res.shape), res.dtype), **f):
                continue
            st["busy"] = True
            try:
                _judge_projection(ctx, pt, m, x, res, where=where)
            finally:
                st["busy"] = False
    ctx.nontrivial(("projection", _par(roi), "single" if M == 1 else "mixed%d" % M, "after_error" if rejected else "fresh", dkind, ctx.state.get("gs", "default")), nz > 0)
    ctx.observe(roi=list(roi), modes=M, batch=B, measured_zeros=nz, rejected_calls=rejected, detector_mask=dkind, mask_via_setter=bool(via_setter), global_state=ctx.state.get("gs", "default"))


# ------------------------------------------------------------------------------------------------
# chain / insitu


def _live(ctx, pt, sc, where):
    # the cases never configure an amplitude-changing object constraint (apply_fov_mask, identical_slices, gaussian_sigma, q_lowpass, q_highpass) on their
    # *own* model, so a pure-phase / potential object conserves the probe intensity.  Deliberately not read back from pt.obj_model.constraints: what another
    # model of the process was configured with must not decide whether this one is judged
    conserving = sc.obj_type in ("pure_phase", "potential")
    return {"where": where, "obj_type": sc.obj_type, "slices": sc.num_slices, "conserving": bool(conserving)}


AMPLITUDE_CHANGING = ("gaussian_sigma", "q_lowpass", "q_highpass", "q_band", "apply_fov_mask", "identical_slices")


def _sibling_models(ctx, rng, roi):
    """Another reconstruction's models living in the same process (a second object / probe model of the same classes), configured by their
    user through the public constraint setters with settings that are legitimate *for them* (a smoothed, band-limited, masked or slice-averaged
    object; a centred probe).  Nothing is judged on the siblings; the case's own models, left at their defaults, must obey the identities
    whatever the siblings were told.  Returns the siblings (kept alive by the caller) and the settings made."""
    st = ctx.state
    om, pmod = st["om"], st["pm"]
    made = []
    keep = []
    for _ in range(int(rng.integers(1, 3))):
        S = int(rng.integers(1, 4))
        H, W = int(roi[0] + rng.integers(2, 20)), int(roi[1] + rng.integers(2, 20))
        ot = ["pure_phase", "complex", "potential", "pure_phase"][int(rng.integers(4))]
        arr = rng.uniform(0, 1, size=(S, H, W)).astype(np.float32) if ot == "potential" else np.exp(1j * rng.uniform(-np.pi, np.pi, size=(S, H, W))).astype(np.complex64)
        sib = om.ObjectPixelated.from_array(arr, slice_thicknesses=[float(rng.uniform(2, 20))] * (S - 1) if S > 1 else None, obj_type=ot)
        menu = {
            "gaussian_sigma": {"gaussian_sigma": float(rng.uniform(0.6, 2.5))},
            "q_lowpass": {"q_lowpass": float(rng.uniform(0.2, 1.0))},
            "q_highpass": {"q_highpass": float(rng.uniform(0.02, 0.2))},
            "q_band": {"q_lowpass": float(rng.uniform(0.5, 1.0)), "q_highpass": float(rng.uniform(0.02, 0.2)), "butterworth_order": int(rng.integers(1, 7))},
            "apply_fov_mask": {"apply_fov_mask": True},
            "identical_slices": {"identical_slices": True},
            "tv": {"tv_weight_xy": float(rng.uniform(0.01, 1.0)), "tv_weight_z": float(rng.uniform(0.0, 1.0))},
            "baseline": {"fix_potential_baseline": True, "positivity": False},
        }
        names = sorted(menu)
        pw = np.array([3.0 if nm in AMPLITUDE_CHANGING else 1.0 for nm in names])
        for nm in rng.choice(names, size=int(rng.integers(1, 4)), replace=False, p=pw / pw.sum()):
            c = menu[str(nm)]
            if rng.random() < 0.5:
                sib.constraints = dict(c)
            else:
                for k, v in c.items():
                    sib.add_constraint(k, v)
            made.append("object(%s):%s" % (ot, nm))
        keep.append(sib)
    if rng.random() < 0.5:
        M = int(rng.integers(1, 4))
        prb = (rng.normal(size=(M, *roi)) + 1j * rng.normal(size=(M, *roi))).astype(np.complex64)
        sp = pmod.ProbePixelated.from_array(prb, num_probes=M, probe_params={"energy": float(rng.choice([60e3, 200e3]))})
        c = [{"center_probe": True}, {"orthogonalize_probe": False}, {"tv_weight": float(rng.uniform(0.01, 1.0))}, {"center_probe": True, "orthogonalize_probe": False}][int(rng.integers(4))]
        sp.constraints = dict(c)
        made.append("probe:" + "+".join(sorted(c)))
        keep.append(sp)
    ctx.count("sibling_models_configured")
    if any(m.split(":")[1] in AMPLITUDE_CHANGING for m in made if m.startswith("object")):
        ctx.count("sibling_object_with_amplitude_changing_constraint")
    return keep, made


def _run_chain(spec, idx, ctx):
    st = ctx.state
    torch, scenes = st["torch"], st["scenes"]
    rng = ctx.rng(idx)
    ot = "pure_phase" if spec["i"] % 3 != 2 else "potential"
    S, M = int(rng.integers(1, 5)), int(rng.integers(1, 5))
    roi = _scene_roi(rng, spec["i"] // 3)
    sc = scenes.make_scene(rng, obj_type=ot, num_slices=S, num_modes=M, roi=roi)
    dmask, dkind = _detector_mask(rng, roi) if (spec["i"] // 2) % 2 else (None, "default")
    # a third of the cases: another reconstruction's object / probe models exist in the same process, configured before and / or after this one is built
    sib_when = ("before", "after", "both")[(spec["i"] // 6) % 3] if (spec["i"] // 2) % 3 == 1 else "none"
    siblings, sib_made = [], []
    if sib_when in ("before", "both"):
        k_, m_ = _sibling_models(ctx, rng, roi)
        siblings += k_
        sib_made += m_
    pt = scenes.build_library(sc, scenes.simulate_scene(sc), seed=int(rng.integers(1 << 30)), detector_mask=dmask)
    if sib_when in ("after", "both"):
        k_, m_ = _sibling_models(ctx, rng, roi)
        siblings += k_
        sib_made += m_
    # a third of the multislice cases: corners of the physical parameter space through the public setters of the real model (beam energy 100 eV .. 1 MeV,
    # slice thicknesses 0.01 .. 1e4 A); with the scene's 0.2-0.5 A pixels the low energies put the grid's Nyquist frequency beyond 1 / wavelength.
    # The chain identities need unit-modulus propagators only, whatever energy the data were simulated at.
    corner = S > 1 and spec["i"] % 3 == 1
    corner_E = None
    if corner:
        corner_E = float(10 ** rng.uniform(2, np.log10(600.0))) if rng.random() < 0.5 else float(10 ** rng.uniform(2, 6))
        pt.probe_model.probe_params = {"energy": corner_E}
        zs = [float(10 ** rng.uniform(-2, 4)) for _ in range(S - 1)]
        pt.slice_thicknesses = zs if rng.random() < 0.7 else zs[0]
        ctx.count("chain_corner_energy_thickness")
    st["stack"].enter_context(_global_state(ctx, ("default", "deterministic", "default", "default_float64", "default", "deterministic")[(spec["i"] // 4) % 6]))
    f = dict(global_state=ctx.state.get("gs", "default"), operator="chain", where="chain", obj_type=ot, dtype="complex64", parity=_parity(roi), modes="single" if M == 1 else "mixed",
             siblings=sib_when, domain="corner" if corner else "tem")
    with torch.no_grad():
        raw = pt.obj_model._obj
        scale = float(10.0 ** rng.uniform(-1, 1.5))
        if ot == "pure_phase":
            new = (rng.normal(size=tuple(raw.shape)) + 1j * rng.normal(size=tuple(raw.shape))) * scale
        else:
            new = rng.normal(size=tuple(raw.shape)) * scale
        raw.data = torch.tensor(new).to(raw.dtype)
        pr = pt.probe_model._probe
        pr.data = torch.tensor((rng.normal(size=tuple(pr.shape)) + 1j * rng.normal(size=tuple(pr.shape))) * 10.0 ** rng.uniform(-1, 2)).to(pr.dtype)
        off_circle = float(np.abs(np.abs(new) - 1).max()) if ot == "pure_phase" else float(np.abs(new).max())
    rejected = _rejected_calls(ctx, pt, rng, int(rng.integers(1, 4)), "chain_after_error") if spec["i"] % 2 else []
    f["where"] = "chain_after_error" if rejected else "chain"
    with torch.no_grad():
        st["live"] = _live(ctx, pt, sc, f["where"])
        try:
            J = pt.dset.num_gpts
            nb = int(rng.integers(1, J + 1))
            bidx = np.sort(rng.choice(J, size=nb, replace=False))
            pt.compute_propagator_arrays()
            patch_indices, _pos, frac, descan = pt.dset.forward(bidx, pt.obj_padding_px)
            shifted = pt.probe_model.forward(frac)
            patches = pt.obj_model.forward(patch_indices)
            _pp, overlap = pt.forward_operator(patches, shifted, descan)
            pred = pt.detector_model.forward(overlap)
        finally:
            st["live"] = None
        probe = pt.probe_model.probe
        tot = float((probe.abs().double() ** 2).sum())
        # the object handed to the forward model is unit modulus (premise, C10's claim) -> conservation must follow
        ctx.close(float((pred.double().sum((-2, -1)) / tot - 1).abs().max()), CONS_TOL, "pure_phase_intensity_not_conserved",
                  lambda: "explicit chain (%s, %d slices, %d modes, roi %s): per-pattern sum I / sum|probe|^2 - 1" % (ot, S, M, roi), track="chain", **f)
        if S > 1:
            Pz = pt.propagators
            ctx.close(float((Pz.abs().double() - 1).abs().max()), T32, "propagator_not_unit_modulus", "Ptychography.propagators of the scene", **dict(f, operator="propagate"))
        fr = _np(frac)
        nfrac = int((np.abs(fr).max(axis=1) > 1e-3).sum())
        # Fourier-magnitude replacement of the real exit waves by the measured amplitudes of the same patterns
        if _finite(overlap):
            pt.dset._set_targets("l2_amplitude")
            targets = pt.dset.targets[bidx]
            res = pt.fourier_projection(targets, overlap)
            st["busy"] = True
            try:
                _judge_projection(ctx, pt, targets, overlap, res, where=f["where"], insitu=True)
            finally:
                st["busy"] = False
    ctx.nontrivial(("chain", ot, S, M, _par(roi), "after_error" if rejected else "fresh", dkind, ctx.state.get("gs", "default"), sib_when, "corner" if corner else "tem"), off_circle >= 0.5 and nfrac >= 1)
    ctx.observe(scene=sc.describe(), raw_scale=scale, off_unit_circle=off_circle, fractional_positions=nfrac, batch=nb, rejected_calls=rejected, detector_mask=dkind, global_state=ctx.state.get("gs", "default"),
                sibling_models=sib_made, siblings_when=sib_when, corner_energy=corner_E, slice_thicknesses=[float(v) for v in np.atleast_1d(pt.slice_thicknesses)] if S > 1 else [])
    del siblings


def _run_insitu(spec, idx, ctx):
    st = ctx.state
    torch, insitu = st["torch"], st["insitu"]
    rng = ctx.rng(idx)
    i = spec["i"]
    ot = ["pure_phase", "potential", "pure_phase", "complex"][i % 4]
    autograd = (i // 4) % 2 == 0
    S, M = int(rng.integers(1, 4)), int(rng.integers(1, 4))
    roi = _scene_roi(rng, i // 2)
    # a user detector mask (dead column, beam stop, ...): at construction, or installed through the public setter between two reconstruct() calls
    dmask, dkind = _detector_mask(rng, roi) if rng.random() < 0.6 else (None, "default")
    mask_late = dmask is not None and rng.random() < 0.3
    sc, sc_h, pt, _mean_I = insitu.hostile_library(rng, obj_type=ot, num_slices=S, num_modes=M, roi=roi, corr=float(rng.choice([0.0, 0.5, 0.8])), obj_scale=float(10 ** rng.uniform(0, 1)), seed=int(rng.integers(1 << 30)),
                                                   detector_mask=None if mask_late else dmask)
    # a third of the cases: another reconstruction's models are configured in the same process after this one was built (and again between the two reconstruct() calls)
    sib = (i // 2) % 3 == 0
    siblings, sib_made = _sibling_models(ctx, rng, roi) if sib else ([], [])
    gs = "deterministic" if i % 5 == 4 else "default"
    st["stack"].enter_context(_global_state(ctx, gs))
    J = pt.dset.num_gpts
    bs = int(rng.integers(1, J + 1))
    lr_o, lr_p = float(10 ** rng.uniform(-1, 1)), float(10 ** rng.uniform(-2, 0.3))
    L = _live(ctx, pt, sc, ("insitu_autograd" if autograd else "insitu_analytic") + ("" if gs == "default" else "+" + gs))
    raw0 = _np(pt.obj_model._obj)
    off_circle = float(np.abs(np.abs(raw0) - 1).max()) if ot != "potential" else float(np.abs(raw0).max())
    before = {k: ctx.counters.get(k, 0) for k in ("eval:pure_phase_intensity_not_conserved", "eval:projection_amplitude_mismatch", "eval:translation_energy", "eval:detector_parseval")}
    n_it = 5 if ctx.tier == "quick" else 8
    rejected = []
    if i % 3:
        rejected += _rejected_calls(ctx, pt, rng, int(rng.integers(1, 3)), L["where"])
        L["where"] += "_after_error"
    st["live"] = L
    try:
        insitu.run_hostile(pt, num_iters=n_it - 2, lr_obj=lr_o, lr_probe=lr_p, batch_size=bs, autograd=autograd, opt="adam" if autograd else "sgd")
        if i % 3:
            rejected += _rejected_calls(ctx, pt, rng, int(rng.integers(1, 3)), L["where"])
        if mask_late:
            pt.dset.detector_mask = dmask
        if sib and i % 4 == 0:
            st["live"] = None
            k_, m_ = _sibling_models(ctx, rng, roi)
            siblings += k_
            sib_made += m_
            st["live"] = L
        insitu.run_hostile(pt, num_iters=2, lr_obj=lr_o, lr_probe=lr_p, batch_size=bs, autograd=autograd, opt="adam" if autograd else "sgd")
    finally:
        st["live"] = None
    ctx.count("insitu_cases_completed")
    fired = {k.replace("eval:", ""): ctx.counters.get(k, 0) - v for k, v in before.items()}
    ctx.nontrivial(("insitu", ot, S, M, _par(roi), "ad" if autograd else "gd", "after_error" if rejected else "fresh", dkind, gs, "siblings" if sib else "alone"), off_circle >= 0.5 and sum(fired.values()) > 0)
    ctx.observe(scene=sc.describe(), sibling_models=sib_made, detector_mask=dkind, mask_installed_late=bool(mask_late), global_state=gs, rejected_calls=rejected, autograd=autograd, batch=bs, lr=[lr_o, lr_p], monitor_events=fired, final_loss=float(pt.iter_losses[-1]) if len(pt.iter_losses) else None,
                max_raw_obj=float(np.abs(_np(pt.obj_model._obj)).max()))


RUN = {"translate": _run_translate, "propagate": _run_propagate, "adjoint": _run_adjoint, "detector": _run_detector, "projection": _run_projection, "chain": _run_chain, "insitu": _run_insitu}


def run_case(spec, idx, ctx):
    import contextlib

    ctx.state["live"] = None
    ctx.state["busy"] = False
    ctx.state["gs"] = "default"
    kind = spec["kind"]
    with contextlib.ExitStack() as stack, np.errstate(all="ignore"):
        ctx.state["stack"] = stack  # scene kinds enter their global state after the scene is built (enter_context), left here
        if kind in ("translate", "propagate", "adjoint", "detector"):
            stack.enter_context(_global_state(ctx, GLOBAL_STATES[(spec["i"] // 4) % len(GLOBAL_STATES)]))
        RUN[kind](spec, idx, ctx)


def summarize(all_cases, counters, extras):
    sample = next(({"case": c["idx"], "observed": c["obs"]} for c in all_cases if isinstance((c.get("obs") or {}).get("monitor_events"), dict)), None)
    tot = {}
    for c in all_cases:
        ev = (c.get("obs") or {}).get("monitor_events")
        if isinstance(ev, dict):
            for k, v in ev.items():
                tot[k] = tot.get(k, 0) + v
    return {
        "insitu_sample": sample,
        "insitu_monitor_events": tot,
        "insitu_events_not_judged_nonfinite": {k.split(":", 1)[1]: v for k, v in counters.items() if k.startswith("insitu_nonfinite_not_judged:")},
        "hook_calls": {k[5:]: v for k, v in counters.items() if k.startswith("hook:")},
    }
