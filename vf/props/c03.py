"""C03 — Dataset containers stay coherent under any history of operations.

A history is executed on real Dataset objects in lock-step with `vf.refmodels.dataset_model.DModel`.
After every step the monitor
  (a) evaluates the class invariant on every live dataset of the history (and, through wrappers on the
      public methods and calibration setters, on every object those calls touch or return),
  (b) compares the result with the model (class, shape, data, origin, sampling, units),
  (c) re-hashes every earlier dataset (sources must stay bit-identical; aliasing through views),
  (d) runs the in-place / copying twin from the same source object and compares them bit for bit.
Calibration assignments the model calls invalid must raise and leave the object unchanged.
"""
from __future__ import annotations

import hashlib
import itertools
import warnings

import numpy as np

from vf import dsetgen as G
from vf.core import HarnessError
from vf.refmodels.dataset_model import FIXED_NDIM, DModel, ModelInvalid

PROPERTY = "C03"
LEVEL = "exploration"
ANCHOR_FILES = [
    "quantem/core/datastructures/dataset.py",
    "quantem/core/datastructures/dataset2d.py",
    "quantem/core/datastructures/dataset3d.py",
    "quantem/core/datastructures/dataset4d.py",
    "quantem/core/datastructures/dataset4dstem.py",
    "quantem/core/utils/validators.py",
]
RULE = (
    "bounded-exhaustive: every sequence of length <= 2 (quick) / <= 3 (thorough) over a 29-op concrete alphabet (copy; valid and invalid "
    "origin/sampling/units assignments; pad int/pairs/output_shape; crop all/int axis/axis subset; bin int/tuple/axis subset/non-dividing/mean; "
    "fourier_resample out_shape/factors/axis subset; index int/negative/numpy int/step/negative step/list/Ellipsis mixtures; in-place flag where it "
    "exists) from 6 start states (Dataset 1-D/3-D/5-D, Dataset2d, Dataset3d, Dataset4dstem; int8..complex128; length-1 axes); plus random depth-12 "
    "histories with random arguments, start states Dataset ndim 1..5 / Dataset2d/3d/4d/4dstem, and jumps back to earlier datasets. "
    "non-trivial = >= 2 distinct op kinds executed and >= 1 shape- or dimension-changing op; distinct = (start class, ndim, executed op-kind sequence)"
    " Widening classes on every case: the array argument comes in a random memory layout / ownership (C, Fortran, permuted, strided [::2], negative stride, "
    "interior view, read-only), the dataset is built through one of the equivalent public routes (from_array with calibration / bare + setters / from_shape + array "
    "setter / via copy()), float and complex data come in scale families (plain, amplitude 1e+8, 1e-8, weak contrast on a pedestal 1e3..1e6 in single and "
    "1e9..1e12 in double precision), and every library call of 4 in 8 cases runs under process-global state a user may have set (numpy errstate raise, torch default dtype "
    "float64 + grad disabled, numpy print options, quantem config dtype float64), restored afterwards; neutral calls (repr, str, discarded copy / index, property reads, "
    "reductions, calibration written back) are interleaved and must change nothing"
    "; plus 4 must-run big histories (> 2**22 elements, two > 16 MiB; uint16 / uint8 / float32 / int32 with full-range values, one Fortran-ordered) of 3-5 steps "
    "(stepped / negative-step index, bin, crop, no-op pad, in-place pad, list index, copy, write into the result, late-rejected crop) under all monitors"
)
ASSUMPTIONS = [
    "index expressions contain at most one list and leave at least one axis; no booleans / None / empty results (outside the property's domain)",
    "origin of a kept axis is the source axis' origin (not shifted by the slice start), sampling is multiplied by the slice step; a list-indexed axis keeps its calibration",
    "calibration is compared in source-axis order; when numpy moves a broadcast (int + list separated by a slice) axis to the front the data order is numpy's - counted as an observation, not judged",
    "fourier_resample content is not modelled here (C06); shape, calibration, source preservation and twin equality are",
    "float64 / integer bin results are compared with the model at 1e-10 (integers exactly), float32 / complex64 at 5e-5; everything else bit for bit",
    "an invalid assignment may raise any exception type; what is judged is that it raises and that the object is unchanged",
    "axes are spelled None / int / tuple or list of non-negative ints in any order (negative spellings are exercised by C06)",
    "expected results do not depend on memory layout, ownership (read-only input), construction route or process-global state; on /repo none of these forms raises",
    "axes=np.int64(k) (a bare NumPy integer, not inside a tuple) raises TypeError on /repo and is not generated; tuples / lists of NumPy integers are",
    "scale families are judged relative to max|data| like every other case (pedestal cases therefore test accumulation precision, not contrast recovery)",
    "class 7 of the widening list (containers with mixed members) does not apply: the Dataset operations take one array",
]
BUDGET = {"quick": {"soft_s": 300}, "thorough": {"soft_s": 1200}}
MIN_EVALUATIONS = {"quick": 3000, "thorough": 50000}
REQUIRED_COUNTERS = ["eval:write_reaches_other_dataset", "eval:invalid_call_must_raise", "eval:invalid_call_state_unchanged", "eval:class_invariant", "eval:model_data", "eval:model_origin", "eval:model_sampling", "eval:model_class", "eval:source_unchanged", "eval:twin_array", "eval:twin_calibration", "eval:invalid_must_raise", "eval:invalid_state_unchanged"]
EXHAUSTIVE = {"quick": False, "thorough": False}  # the bounded-exhaustive part is complete (see coverage.bounded_exhaustive); the random part is sampling

N_START = 6
TWIN_KINDS = ("pad", "crop", "bin", "resample")


# ------------------------------------------------------------------------------------------------
# concrete alphabet for the bounded-exhaustive part: name -> resolver(shape) -> op | None (inapplicable)


def _a_copy(sh):
    return {"k": "copy"}


def _a_set_origin_scalar(sh):
    return {"k": "set", "attr": "origin", "value": 1.5, "valid": True}


def _a_set_sampling_list(sh):
    return {"k": "set", "attr": "sampling", "value": [0.5 * (i + 1) for i in range(len(sh))], "valid": True}


def _a_set_units_tuple(sh):
    return {"k": "set", "attr": "units", "value": tuple("u%d" % i for i in range(len(sh))), "valid": True}


def _a_set_origin_intarray(sh):
    return {"k": "set", "attr": "origin", "value": np.arange(len(sh)) - 1, "valid": True}


def _a_bad_origin_len(sh):
    return {"k": "set", "attr": "origin", "value": [0.0] * (len(sh) + 1), "valid": False}


def _a_bad_sampling_str(sh):
    return {"k": "set", "attr": "sampling", "value": "fast", "valid": False}


def _a_bad_units_len(sh):
    return {"k": "set", "attr": "units", "value": ["nm"] * (len(sh) + 1), "valid": False}


def _a_pad_int(sh):
    return {"k": "pad", "kw": {"pad_width": 1}, "inplace": False}


def _a_pad_int_ip(sh):
    return {"k": "pad", "kw": {"pad_width": 1}, "inplace": True}


def _a_pad_outshape(sh):
    nd = len(sh)
    return {"k": "pad", "kw": {"output_shape": tuple(n + 3 if i == 0 else (n + 2 if i == nd - 1 else n) for i, n in enumerate(sh))}, "inplace": False}


def _a_pad_pairs_ip(sh):
    return {"k": "pad", "kw": {"pad_width": tuple((1, 0) if i % 2 == 0 else (0, 2) for i in range(len(sh)))}, "inplace": True}


def _a_crop_all(sh):
    return {"k": "crop", "kw": {"crop_widths": tuple((1, n) if n >= 2 else (0, n) for n in sh)}, "inplace": False}


def _a_crop_last_int_ip(sh):
    if sh[-1] < 2:
        return None
    return {"k": "crop", "kw": {"crop_widths": ((0, -1),), "axes": len(sh) - 1}, "inplace": True}


def _a_crop_axis0_tuple(sh):
    if sh[0] < 2:
        return None
    return {"k": "crop", "kw": {"crop_widths": ((1, 0),), "axes": (0,)}, "inplace": False}


def _bin2(sh, inplace):
    ok = [i for i, n in enumerate(sh) if n >= 2]
    if not ok:
        return None
    if len(ok) == len(sh):
        return {"k": "bin", "kw": {"bin_factors": 2}, "inplace": inplace}
    return {"k": "bin", "kw": {"bin_factors": 2, "axes": tuple(ok)}, "inplace": inplace}


def _a_bin2(sh):
    return _bin2(sh, False)


def _a_bin2_ip(sh):
    return _bin2(sh, True)


def _a_bin_last3_mean(sh):
    n = sh[-1]
    if n < 2:
        return None
    return {"k": "bin", "kw": {"bin_factors": (3 if n >= 3 else 2,), "axes": (len(sh) - 1,), "reducer": "mean"}, "inplace": False}


def _a_bin_axis0_mean_ip(sh):
    if sh[0] < 2:
        return None
    return {"k": "bin", "kw": {"bin_factors": 2, "axes": 0, "reducer": "mean"}, "inplace": True}


def _a_rs_up(sh):
    return {"k": "resample", "kw": {"out_shape": tuple(n + 1 for n in sh)}, "inplace": False}


def _a_rs_factor_ip(sh):
    return {"k": "resample", "kw": {"factors": 0.6}, "inplace": True}


def _a_rs_axis0(sh):
    return {"k": "resample", "kw": {"out_shape": (sh[0] + 2,), "axes": (0,)}, "inplace": False}


def _a_idx_int0(sh):
    return {"k": "index", "index": 0} if len(sh) >= 2 else None


def _a_idx_neg_last(sh):
    return {"k": "index", "index": (Ellipsis, -1)} if len(sh) >= 2 else None


def _a_idx_step2(sh):
    return {"k": "index", "index": slice(None, None, 2)}


def _a_idx_negstep(sh):
    if len(sh) >= 2 and sh[1] >= 2:
        return {"k": "index", "index": (slice(None, None, -1), slice(1, None))}
    return {"k": "index", "index": (slice(None, None, -1),)}


def _a_idx_list(sh):
    return {"k": "index", "index": [0, sh[0] - 1]}


def _a_idx_mixed(sh):
    nd = len(sh)
    if nd >= 3:
        return {"k": "index", "index": (np.int64(0), Ellipsis, slice(None, None, 2))}
    if nd == 2:
        return {"k": "index", "index": (np.int64(0), slice(None, None, 2))}
    return {"k": "index", "index": (Ellipsis, slice(None, None, 2))}


def _a_idx_col_list(sh):
    return {"k": "index", "index": (slice(None), [0, -1])} if len(sh) >= 2 else None


# ------------------------------------------------------------------------------------------------
# requests with one unacceptable entry (rejected late: the other entries are fine) and no-op forms


def _bad_ops(shape):
    """every (operation, argument, position, kind of bad entry) for this shape; all other entries are valid and effective"""
    nd = len(shape)
    out = []

    def add(k, kw, arg, kind, pos, n=nd):
        out.append({"k": k, "kw": kw, "invalid": True, "inplace": True, "bad": {"arg": arg, "kind": kind, "pos": pos, "n": n}})

    base_cw = [((1, n) if n >= 2 else (0, n)) for n in shape]
    for p in range(nd):
        lo, hi = base_cw[p]
        for kind, bad in (("not_a_pair", (lo,)), ("triple", (lo, hi, 1)), ("float_bound", (0.5, hi)), ("scalar", 1), ("str_bound", ("a", hi)), ("none", None)):
            cw = list(base_cw)
            cw[p] = bad
            add("crop", {"crop_widths": tuple(cw)}, "crop_widths", kind, p)
    if nd >= 2:  # axes given in descending order: the first entry belongs to the highest axis
        cw = list(reversed(base_cw))
        cw[0] = (base_cw[-1][0],)
        add("crop", {"crop_widths": tuple(cw), "axes": tuple(reversed(range(nd)))}, "crop_widths", "not_a_pair", 0)
    base_pw = [((1, 0) if i % 2 == 0 else (0, 2)) for i in range(nd)]
    for p in range(nd):
        for kind, bad in (("negative", (1, -1)), ("float", (0.5, 1)), ("str", ("a", 1))):
            pw = list(base_pw)
            pw[p] = bad
            add("pad", {"pad_width": tuple(pw)}, "pad_width", kind, p)
        for kind, bad in (("str", "a"), ("none", None)):
            osh = [n + 2 for n in shape]
            osh[p] = bad
            add("pad", {"output_shape": tuple(osh)}, "output_shape", kind, p)
    base_f = [2 if n >= 2 else 1 for n in shape]
    for p in range(nd):
        for kind, bad in (("zero", 0), ("negative", -2), ("float", 2.0), ("str", "2")):
            f = list(base_f)
            f[p] = bad
            add("bin", {"bin_factors": tuple(f)}, "bin_factors", kind, p)
        for kind, bad in (("zero", 0), ("negative", -3), ("str", "a"), ("none", None)):
            osh = [n + 1 for n in shape]
            osh[p] = bad
            add("resample", {"out_shape": tuple(osh)}, "out_shape", kind, p)
        for kind, bad in (("str", "a"), ("none", None)):
            f = [1.5] * nd
            f[p] = bad
            add("resample", {"factors": tuple(f)}, "factors", kind, p)
    return out


NOOP_FORMS = ["pad_zero", "pad_same_shape", "pad_smaller_shape", "crop_zero_zero", "crop_full_range", "bin_one", "resample_same_shape", "resample_factor_one", "copy", "index_full_slice", "index_ellipsis"]


def _noop_op(name, shape):
    """operations that leave shape and content as they are but still 'return a new dataset'"""
    nd = len(shape)
    if name == "pad_zero":
        return {"k": "pad", "kw": {"pad_width": 0}, "inplace": False}
    if name == "pad_same_shape":
        return {"k": "pad", "kw": {"output_shape": tuple(shape)}, "inplace": False}
    if name == "pad_smaller_shape":
        return {"k": "pad", "kw": {"output_shape": tuple(max(1, n - 1) for n in shape)}, "inplace": False}
    if name == "crop_zero_zero":
        return {"k": "crop", "kw": {"crop_widths": ((0, 0),) * nd}, "inplace": False}
    if name == "crop_full_range":
        return {"k": "crop", "kw": {"crop_widths": tuple((0, n) for n in shape)}, "inplace": False}
    if name == "bin_one":
        return {"k": "bin", "kw": {"bin_factors": 1}, "inplace": False}
    if name == "resample_same_shape":
        return {"k": "resample", "kw": {"out_shape": tuple(shape)}, "inplace": False}
    if name == "resample_factor_one":
        return {"k": "resample", "kw": {"factors": 1.0}, "inplace": False}
    if name == "copy":
        return {"k": "copy"}
    if name == "index_full_slice":
        return {"k": "index", "index": slice(None)}
    return {"k": "index", "index": Ellipsis}


def _a_poke(sh):
    return {"k": "poke", "form": "iadd", "target": "cur"}


def _a_pad_noop(sh):
    return _noop_op("pad_same_shape", sh)


def _a_bad_crop_late(sh):
    nd = len(sh)
    cw = [((1, n) if n >= 2 else (0, n)) for n in sh]
    cw[-1] = (cw[-1][0],)
    return {"k": "crop", "kw": {"crop_widths": tuple(cw)}, "invalid": True, "inplace": True, "bad": {"arg": "crop_widths", "kind": "not_a_pair", "pos": nd - 1, "n": nd}}


ALPHABET = {
    "copy": _a_copy, "set_origin_scalar": _a_set_origin_scalar, "set_sampling_list": _a_set_sampling_list, "set_units_tuple": _a_set_units_tuple,
    "set_origin_intarray": _a_set_origin_intarray, "bad_origin_len": _a_bad_origin_len, "bad_sampling_str": _a_bad_sampling_str, "bad_units_len": _a_bad_units_len,
    "pad_int": _a_pad_int, "pad_int_ip": _a_pad_int_ip, "pad_outshape": _a_pad_outshape, "pad_pairs_ip": _a_pad_pairs_ip,
    "crop_all": _a_crop_all, "crop_last_int_ip": _a_crop_last_int_ip, "crop_axis0_tuple": _a_crop_axis0_tuple,
    "bin2": _a_bin2, "bin2_ip": _a_bin2_ip, "bin_last3_mean": _a_bin_last3_mean, "bin_axis0_mean_ip": _a_bin_axis0_mean_ip,
    "rs_up": _a_rs_up, "rs_factor_ip": _a_rs_factor_ip, "rs_axis0": _a_rs_axis0,
    "idx_int0": _a_idx_int0, "idx_neg_last": _a_idx_neg_last, "idx_step2": _a_idx_step2, "idx_negstep": _a_idx_negstep, "idx_list": _a_idx_list,
    "idx_mixed": _a_idx_mixed, "idx_col_list": _a_idx_col_list,
    "poke": _a_poke, "pad_noop": _a_pad_noop, "bad_crop_late": _a_bad_crop_late,
}
ALPHA_NAMES = list(ALPHABET)

START_STATES = [
    ("Dataset", (7,), "float64", "float_array"),
    ("Dataset2d", (5, 6), "int16", "int_list"),
    ("Dataset3d", (3, 4, 5), "float32", "float_list"),
    ("Dataset4dstem", (2, 3, 4, 5), "float64", "mixed_tuple"),
    ("Dataset", (2, 1, 3, 2, 3), "complex128", "float_array"),
    ("Dataset", (4, 5, 3), "int8", "scalar"),
]


def plan(tier, seed):
    depth = 2 if tier == "quick" else 3
    specs = []
    for s in range(N_START):
        for d in range(1, depth + 1):
            for seq in itertools.product(range(len(ALPHA_NAMES)), repeat=d):
                specs.append({"kind": "exh", "start": s, "ops": [ALPHA_NAMES[i] for i in seq]})
    targeted = []
    for s in range(N_START):
        shape = START_STATES[s][1]
        for i in range(len(_bad_ops(shape))):
            targeted.append({"kind": "badargs", "start": s, "i": i, "_must_run": True})
        for name in NOOP_FORMS:
            for target in ("result", "source"):
                for form in ("iadd", "fill", "block"):
                    targeted.append({"kind": "noop_poke", "start": s, "noop": name, "target": target, "form": form, "_must_run": True})
    nrand = 1500 if tier == "quick" else 100000
    # interleave the random histories so that a soft-budget cut does not remove them wholesale
    step = max(1, len(specs) // nrand)
    out = []
    r = 0
    for i, sp in enumerate(specs):
        if i % step == 0 and r < nrand:
            out.append({"kind": "random", "depth": 12, "_must_run": True})
            r += 1
        out.append(sp)
    while r < nrand:
        out.append({"kind": "random", "depth": 12, "_must_run": True})
        r += 1
    big = [{"kind": "big", "variant": v, "rep": r, "_must_run": True} for r in range(1 if tier == "quick" else 4) for v in range(len(BIG_MENU))]
    return big + targeted + out


# ------------------------------------------------------------------------------------------------
# setup: classes + invariant wrappers on the public surface


def setup(ctx):
    from quantem.core.datastructures import Dataset, Dataset2d, Dataset3d, Dataset4d, Dataset4dstem

    from vf import hook

    classes = {"Dataset": Dataset, "Dataset2d": Dataset2d, "Dataset3d": Dataset3d, "Dataset4d": Dataset4d, "Dataset4dstem": Dataset4dstem}
    ctx.state["cls"] = classes
    ctx.state["Dataset"] = Dataset
    ctx.state["op_bigrams"] = set()
    ctx.state["abstract_states"] = set()
    ctx.state["evidence_extra"] = {"bigrams": "", "abstract_states": "", "numpy_transposed_advanced_index": 0}

    def inv_objs(objs, where):
        if ctx._case is None:
            return
        for o in objs:
            if isinstance(o, Dataset):
                broken = _invariant_broken(o, Dataset, partial_ok=True)
                ctx.check(not broken, "class_invariant_at_call", lambda: "%s after %s: %s" % (type(o).__name__, where, broken), where=where, broken=(broken or "")[:40].split(":")[0])

    for name in ("copy", "pad", "crop", "bin", "fourier_resample", "__getitem__"):
        def post(tok, a, k, res, _n=name):
            inv_objs([a[0] if a else None, res], _n)

        hook.wrap(Dataset, name, post=post, ctx=ctx)

    # calibration setters: the assigned attribute must have one entry per axis whenever the setter returns normally
    for attr in ("origin", "sampling", "units"):
        prop = Dataset.__dict__.get(attr)
        if not isinstance(prop, property) or prop.fset is None:
            ctx.hooks_missing.append("Dataset.%s.setter" % attr)
            continue

        def make(prop=prop, attr=attr):
            def fset(self, value):
                prop.fset(self, value)
                ctx.counters["hook:Dataset.%s.setter" % attr] += 1
                if ctx._case is not None:
                    v = prop.fget(self)
                    ctx.check(len(v) == self.array.ndim, "setter_length", lambda: "%s setter accepted %r on a %d-D dataset" % (attr, value, self.array.ndim), attr=attr)

            return property(prop.fget, fset, prop.fdel, prop.__doc__)

        setattr(Dataset, attr, make())

    G.install_state_wrappers(Dataset, ctx)


# ------------------------------------------------------------------------------------------------
# observation helpers


def _invariant_broken(ds, Dataset, partial_ok=False):
    """'' when the class invariant holds, else a short description of the first broken clause."""
    try:
        arr = ds.array
        nd = arr.ndim
        if tuple(ds.shape) != tuple(arr.shape) or ds.ndim != nd:
            return "shape_ndim: shape/ndim disagree with the array"
        for attr in ("origin", "sampling"):
            if partial_ok and not hasattr(ds, "_" + attr):
                continue
            v = getattr(ds, attr)
            if not isinstance(v, np.ndarray) or v.ndim != 1:
                return "%s_type: %r" % (attr, type(v).__name__)
            if len(v) != nd:
                return "%s_length: %d entries for %d axes" % (attr, len(v), nd)
            if v.dtype.kind not in "iuf":
                return "%s_dtype: %s" % (attr, v.dtype)
        if not (partial_ok and not hasattr(ds, "_units")):
            u = ds.units
            if not isinstance(u, list) or not all(isinstance(x, str) for x in u):
                return "units_type: %r" % (u,)
            if len(u) != nd:
                return "units_length: %d entries for %d axes" % (len(u), nd)
        want = None
        for c in type(ds).__mro__:
            if c.__name__ in FIXED_NDIM:
                want = FIXED_NDIM[c.__name__]
                break
        if want is not None and want != nd:
            return "class_ndim: %s holds a %d-D array" % (type(ds).__name__, nd)
    except Exception as e:  # noqa: BLE001
        return "invariant_raised: %r" % (e,)
    return ""


def _snapshot(ds):
    a = ds.array
    o, s = ds.origin, ds.sampling
    return {
        "array": (hashlib.sha1(np.ascontiguousarray(a).tobytes()).hexdigest(), str(a.dtype), tuple(a.shape)),
        "origin": (np.asarray(o).tobytes(), str(np.asarray(o).dtype)),
        "sampling": (np.asarray(s).tobytes(), str(np.asarray(s).dtype)),
        "units": tuple(ds.units),
        "class": type(ds).__name__,
    }


def _snap_diff(a, b):
    return [k for k in ("array", "origin", "sampling", "units", "class") if a[k] != b[k]]


def _idx_forms(index):
    tup = index if isinstance(index, tuple) else (index,)
    forms = set()
    for t in tup:
        if t is Ellipsis:
            forms.add("ellipsis")
        elif isinstance(t, list):
            forms.add("list")
        elif isinstance(t, slice):
            forms.add("slice" if t.step in (None, 1) else ("neg_step" if t.step < 0 else "step"))
        elif isinstance(t, np.integer):
            forms.add("npint")
        else:
            forms.add("neg_int" if t < 0 else "int")
    return "+".join(sorted(forms))


def _op_repr(op):
    if op["k"] == "index":
        return "index[%r]" % (op["index"],)
    if op["k"] == "set":
        return "set %s=%r%s" % (op["attr"], op["value"], "" if op["valid"] else " (invalid)")
    if op["k"] == "set_array":
        return "set array=%s%s%s" % (op["value"].dtype, op["value"].shape, "" if op["valid"] else " (invalid)")
    if op["k"] == "poke":
        return "write(%s) into the array of #%s" % (op["form"], op.get("target", "cur"))
    if op["k"] == "neutral":
        return "(neutral: %s)" % op["which"]
    if op["k"] in TWIN_KINDS:
        if op.get("invalid"):
            return "%s(%s) (invalid: %s at entry %s)" % (op["k"], ", ".join("%s=%r" % kv for kv in op["kw"].items()), op["bad"]["kind"], op["bad"]["pos"])
        return "%s(%s)%s" % (op["k"], ", ".join("%s=%r" % kv for kv in op["kw"].items()), " in place" if op["inplace"] else "")
    return op["k"]


class Hist:
    """one history: live datasets with their models and snapshots, current handle, executed ops"""

    def __init__(self, ctx, ds, model):
        self.ctx = ctx
        self.live = []  # [ds, model, snapshot, label]
        # expected buffer ownership: datasets in the same group may legitimately share memory (index results are numpy views of
        # their source); every other dataset returned by copy / pad / crop / bin / fourier_resample owns its data
        self.buf = []
        self.made_by = []
        self._nbuf = 0
        self.cur = self._add(ds, model, "start", "construct")
        self.log = []
        self.kinds = []
        self.shape_changes = 0

    def new_buf(self):
        self._nbuf += 1
        return self._nbuf

    def _add(self, ds, model, label, made_by, buf=None):
        self.live.append([ds, model, _snapshot(ds), label])
        self.buf.append(self.new_buf() if buf is None else buf)
        self.made_by.append(made_by)
        return len(self.live) - 1

    def trail(self):
        return " ; ".join(self.log[-13:])


def _close_vec(ctx, got, exp, mech, what, fields, scale):
    got = np.asarray(got, dtype=np.float64)
    exp = np.asarray(exp, dtype=np.float64)
    if got.shape != exp.shape:
        ctx.check(False, mech, lambda: "%s: %r vs model %r" % (what(), got.tolist(), exp.tolist()), **fields)
        return
    r = float(np.max(np.abs(got - exp))) / scale if got.size else 0.0
    ctx.close(r, 1e-12, mech, lambda: "%s: %r vs model %r" % (what(), got.tolist(), exp.tolist()), **fields)


def _compare_model(ctx, ds, m, kind, src_dtype, fields, what, bin_scale=None):
    """(b) result vs model"""
    ctx.check(type(ds).__name__ == m.cls, "model_class", lambda: "%s: class %s, model %s" % (what(), type(ds).__name__, m.cls), **fields)
    arr = ds.array
    ok_shape = ctx.check(tuple(arr.shape) == tuple(m.shape), "model_shape", lambda: "%s: shape %s, model %s" % (what(), tuple(arr.shape), tuple(m.shape)), **fields)
    if ok_shape and m.arr is not None:
        if kind == "bin":
            if src_dtype.kind in "iu" and m.arr.dtype.kind in "Oi":
                same = (bool(np.all(arr.astype(object) == m.arr)) if m.arr.dtype == object else (arr.dtype.kind in "iu" and bool(np.array_equal(arr.astype(np.int64), m.arr)))) if arr.size else True
                ctx.close(0.0 if same else 1.0, 0.0, "model_data", lambda: "%s: integer block sums differ from the model" % what(), **fields)
            else:
                tol = 5e-5 if G.precision(src_dtype) == "32" else 1e-10
                exp = np.asarray(m.arr, dtype=np.complex128)
                sc = bin_scale if bin_scale and bin_scale > 0 else 1.0  # block volume x max|source| (rounding noise scales with the inputs)
                r = float(np.max(np.abs(arr.astype(np.complex128) - exp))) / sc if exp.size else 0.0
                ctx.close(r, tol, "model_data" if tol == 1e-10 else "model_data_f32", lambda: "%s: block reduction differs from the model" % what(), **fields)
        else:
            same = arr.dtype == m.arr.dtype and np.array_equal(arr, m.arr, equal_nan=arr.dtype.kind in "fc")
            ctx.close(0.0 if same else 1.0, 0.0, "model_data", lambda: "%s: data (dtype %s) differ from the model (dtype %s)" % (what(), arr.dtype, m.arr.dtype), **fields)
    nd = len(m.shape)
    scale = max(1e-300, float(np.max(np.abs(m.origin)) + np.max(np.abs(np.array(m.sampling)) * np.array(m.shape)))) if nd else 1.0
    _close_vec(ctx, ds.origin, m.origin, "model_origin", what, fields, scale)
    _close_vec(ctx, ds.sampling, m.sampling, "model_sampling", what, fields, scale)
    ctx.check(list(ds.units) == list(m.units), "model_units", lambda: "%s: units %r, model %r" % (what(), ds.units, m.units), **fields)


def _check_unchanged(ctx, H, skip, fields, what, direct=None):
    """(c) every live dataset except `skip` must be bit-identical to its snapshot"""
    for i, (ds, m, snap, label) in enumerate(H.live):
        if i in skip:
            continue
        d = _snap_diff(snap, _snapshot(ds))
        role = "source" if i == direct else "earlier"
        ctx.check(not d, "source_unchanged", lambda: "%s: %s dataset #%d (%s) changed: %s" % (what(), role, i, label, d), role=role, changed="+".join(d), **fields)


def _check_invariants(ctx, H, fields, what):
    Dataset = ctx.state["Dataset"]
    for i, (ds, m, snap, label) in enumerate(H.live):
        broken = _invariant_broken(ds, Dataset)
        ctx.check(not broken, "class_invariant", lambda: "%s: dataset #%d (%s, %s): %s" % (what(), i, label, type(ds).__name__, broken), broken=broken.split(":")[0], **fields)


def _call(ds, op, inplace):
    k, kw = op["k"], dict(op.get("kw", {}))
    if inplace:
        kw["modify_in_place"] = True
    if k == "pad":
        return ds.pad(**kw)
    if k == "crop":
        return ds.crop(**kw)
    if k == "bin":
        bf = kw.pop("bin_factors")
        return ds.bin(bf, **kw)
    if k == "resample":
        return ds.fourier_resample(**kw)
    raise HarnessError("unknown op %r" % k)


def _model_apply(m, op):
    k, kw = op["k"], op.get("kw", {})
    if k == "pad":
        return m.pad(**kw)
    if k == "crop":
        return m.crop(**kw)
    if k == "bin":
        return m.bin(kw["bin_factors"], axes=kw.get("axes"), reducer=kw.get("reducer", "sum"))
    if k == "resample":
        return m.fourier_resample(**kw)
    if k == "copy":
        return m.copy()
    if k == "index":
        return m.index(op["index"])
    raise HarnessError("unknown op %r" % k)


def _step(ctx, H, op):
    """execute one operation on the current dataset of the history, with all monitors"""
    k = op["k"]
    ds, m, snap, label = H.live[H.cur]
    H.log.append(_op_repr(op))
    what = lambda: "history [%s] from %s" % (H.trail(), H.live[0][3])
    if k == "poke":
        return _step_poke(ctx, H, op, what)
    if k == "neutral":
        # repr / str / discarded copy or index / property reads / reductions / calibration written back: nothing may change
        G.neutral_call(None, ds, op["which"])
        ctx.count("op:neutral")
        _check_unchanged(ctx, H, set(), {"op": "neutral", "neutral": op["which"]}, what, direct=H.cur)
        _check_invariants(ctx, H, {"op": "neutral"}, what)
        H.kinds.append("neutral")
        return True
    if op.get("invalid"):
        return _step_invalid_call(ctx, H, op, what)
    fields = {"op": k}
    if k == "index":
        fields["index_forms"] = _idx_forms(op["index"])
    if k in TWIN_KINDS:
        fields["inplace_continues"] = bool(op["inplace"])
        ax = op["kw"].get("axes")
        axl = [] if ax is None else ([ax] if isinstance(ax, (int, np.integer)) else list(ax))
        fields["axes_form"] = "all" if ax is None else ("negative" if any(a < 0 for a in axl) else "nonnegative")
    src_dtype = ds.array.dtype
    ctx.count("op:" + k)

    if k in ("set", "set_array"):
        attr = op.get("attr", "array")
        fields["attr"] = attr
        m2 = m.clone()
        try:
            if k == "set":
                getattr(m2, "set_" + attr)(op["value"])
            else:
                m2.set_array(op["value"])
            model_valid = True
        except ModelInvalid:
            model_valid = False
        if model_valid != op["valid"]:
            raise HarnessError("generator and model disagree on validity of %s" % _op_repr(op))
        if not model_valid:
            raised = None
            try:
                setattr(ds, attr, op["value"])
            except Exception as e:  # noqa: BLE001
                raised = e
            ctx.check(raised is not None, "invalid_must_raise", lambda: "%s: invalid assignment was accepted; %s is now %r" % (what(), attr, getattr(ds, attr, None) if attr != "array" else ds.array.shape), **fields)
            d = _snap_diff(snap, _snapshot(ds))
            ctx.check(not d, "invalid_state_unchanged", lambda: "%s: rejected/invalid assignment changed %s" % (what(), d), changed="+".join(d), **fields)
            if raised is None or d:
                H.live[H.cur][2] = _snapshot(ds)  # report once, then follow the object
                # the model cannot follow an accepted invalid value: stop this history
                return False
            _check_unchanged(ctx, H, {H.cur}, fields, what)
            H.kinds.append("invalid")
            return True
        setattr(ds, attr, op["value"])
        if k == "set_array":
            H.buf[H.cur] = H.new_buf()
            H.made_by[H.cur] = "set_array"
        H.live[H.cur][1] = m2
        _compare_model(ctx, ds, m2, k, src_dtype, fields, what)
        _check_unchanged(ctx, H, {H.cur}, fields, what)
        H.live[H.cur][2] = _snapshot(ds)
        m2.arr = np.array(ds.array, copy=True)
        if k == "set_array":
            H.shape_changes += 1
        H.kinds.append(k)
        _check_invariants(ctx, H, fields, what)
        return True

    m_new = _model_apply(m, op)
    if k in ("copy", "index"):
        res = ds.copy() if k == "copy" else ds[op["index"]]
        _check_unchanged(ctx, H, set(), fields, what, direct=H.cur)
        _compare_model(ctx, res, m_new, k, src_dtype, fields, what)
        m_new.arr = np.array(res.array, copy=True)
        if tuple(res.array.shape) != tuple(m_new.shape):
            return False
        # copy() owns its data; an index result is a numpy view of its source (same group, writes propagate legitimately)
        H.cur = H._add(res, m_new, "%s #%d" % (k, len(H.live)), k, buf=(H.buf[H.cur] if k == "index" else None))
        if k == "index":
            H.shape_changes += 1
            idx = op["index"] if isinstance(op["index"], tuple) else (op["index"],)
            if any(isinstance(t, list) for t in idx) and any(isinstance(t, (int, np.integer)) for t in idx):
                ctx.state["evidence_extra"]["numpy_transposed_advanced_index"] += int(_transposed(idx))
    else:
        # (d) twin: copying variant first (source must stay bit-identical), then the in-place variant on the same object
        fc = dict(fields, variant="copy")
        fi = dict(fields, variant="inplace")
        bin_scale = None
        if k == "bin":
            kwb = op["kw"]
            nax = ds.array.ndim if kwb.get("axes") is None else (1 if isinstance(kwb["axes"], (int, np.integer)) else len(kwb["axes"]))
            bf = kwb["bin_factors"]
            vol = int(bf) ** nax if isinstance(bf, (int, np.integer)) else int(np.prod([int(f) for f in bf]))
            amax = float(np.max(np.abs(ds.array))) if ds.array.size else 0.0
            bin_scale = amax * (vol if kwb.get("reducer", "sum") == "sum" else 1)
        res = _call(ds, op, False)
        ctx.check(res is not None and res is not ds, "copy_variant_returns_new", lambda: "%s: copying variant returned %r" % (what(), type(res).__name__), **fc)
        _check_unchanged(ctx, H, set(), fc, what, direct=H.cur)
        if res is None or res is ds:
            return False
        _compare_model(ctx, res, m_new, k, src_dtype, fc, what, bin_scale)
        r = _call(ds, op, True)
        ctx.check(r is None, "inplace_returns_none", lambda: "%s: in-place variant returned %r" % (what(), type(r).__name__), **fi)
        _compare_model(ctx, ds, m_new, k, src_dtype, fi, what, bin_scale)
        _check_unchanged(ctx, H, {H.cur}, fi, what)
        # twin equality, bit for bit
        a1, a2 = res.array, ds.array
        same = a1.dtype == a2.dtype and a1.shape == a2.shape and np.ascontiguousarray(a1).tobytes() == np.ascontiguousarray(a2).tobytes()
        ctx.check(same, "twin_array", lambda: "%s: in-place array (%s %s) != copying array (%s %s)" % (what(), a2.dtype, a2.shape, a1.dtype, a1.shape), **fields)
        cal_same = (
            len(res.origin) == len(ds.origin) and len(res.sampling) == len(ds.sampling)
            and bool(np.all(np.asarray(res.origin) == np.asarray(ds.origin))) and bool(np.all(np.asarray(res.sampling) == np.asarray(ds.sampling)))
            and list(res.units) == list(ds.units)
        )
        ctx.check(cal_same, "twin_calibration", lambda: "%s: in-place calibration %r/%r/%r != copying %r/%r/%r" % (what(), ds.origin.tolist(), ds.sampling.tolist(), ds.units, res.origin.tolist(), res.sampling.tolist(), res.units), **fields)
        ctx.check(type(res) is type(ds), "twin_class", lambda: "%s: classes %s / %s" % (what(), type(res).__name__, type(ds).__name__), **fields)
        if tuple(ds.array.shape) != tuple(m_new.shape) or tuple(res.array.shape) != tuple(m_new.shape):
            return False
        # both results stay live with their own copy of the model; the history continues on one of them
        m_ip = m_new.clone()
        m_new.arr = np.array(res.array, copy=True)
        m_ip.arr = np.array(ds.array, copy=True)
        H.live[H.cur][1] = m_ip
        H.live[H.cur][2] = _snapshot(ds)
        if k != "crop":  # in-place pad / bin / resample install a freshly computed array; in-place crop keeps a view of the object's own buffer
            H.buf[H.cur] = H.new_buf()
        H.made_by[H.cur] = k + "_inplace"
        new_i = H._add(res, m_new, "%s #%d" % (k, len(H.live)), k + "_copying")
        if not op["inplace"]:
            H.cur = new_i
        if tuple(m_new.shape) != tuple(m.shape):
            H.shape_changes += 1
    H.kinds.append(k)
    _check_invariants(ctx, H, fields, what)
    if len(H.kinds) >= 2:
        ctx.state["op_bigrams"].add((H.kinds[-2], H.kinds[-1]))
    c = H.live[H.cur][0]
    ctx.state["abstract_states"].add((type(c).__name__, c.array.ndim, str(c.array.dtype)))
    return True


def _step_poke(ctx, H, op, what):
    """an in-place write into the array of one live dataset (res.array[...] = x, res.array += 1, sub-block fill).
    Datasets returned by copy / pad / crop / bin / fourier_resample own their data, so the write may only be seen by the
    dataset itself and by datasets of its own view group (index results); every other live dataset must stay bit-identical."""
    tgt = H.cur if op.get("target") in (None, "cur") else int(op["target"]) % len(H.live)
    ds = H.live[tgt][0]
    arr = ds.array
    if not arr.size or not arr.flags.writeable:
        return True
    form = op["form"]
    if form == "iadd":
        ds.array += 1  # goes through the public array setter with the same object
    elif form == "fill":
        ds.array[...] = 3
    else:
        ds.array[tuple(slice(0, max(1, n // 2)) for n in arr.shape)] = 7
    ctx.count("op:poke")
    fields = {"op": "poke", "poke_form": form, "writer_made_by": H.made_by[tgt]}
    for i, (d, m, snap, label) in enumerate(H.live):
        if H.buf[i] == H.buf[tgt]:
            H.live[i][2] = _snapshot(d)  # the written dataset and its legitimate views follow the write
            m.arr = np.array(d.array, copy=True)
            continue
        diff = _snap_diff(snap, _snapshot(d))
        ctx.check(not diff, "write_reaches_other_dataset", lambda: "%s: writing into the array of dataset #%d (%s, made by %s) changed dataset #%d (%s, made by %s): %s" % (what(), tgt, H.live[tgt][3], H.made_by[tgt], i, label, H.made_by[i], diff), victim_made_by=H.made_by[i], **fields)
        if diff:
            H.live[i][2] = _snapshot(d)
            m.arr = np.array(d.array, copy=True)
    H.kinds.append("poke")
    _check_invariants(ctx, H, fields, what)
    return True


def _step_invalid_call(ctx, H, op, what):
    """an operation whose argument list has one unacceptable entry: both variants must raise and nothing may change -
    not the target of the in-place variant (no half-applied request), not the source of the copying one, no other dataset"""
    k = op["k"]
    ds, m, snap, label = H.live[H.cur]
    try:
        _model_apply(m, op)
        model_ok = True
    except ModelInvalid:
        model_ok = False
    if model_ok:
        raise HarnessError("generator marked %s invalid but the model accepts it" % _op_repr(op))
    n = op["bad"]["n"]
    pos = op["bad"]["pos"]
    fields = {"op": k, "bad_entry": op["bad"]["kind"], "bad_position": "only" if n == 1 else ("first" if pos == 0 else ("last" if pos == n - 1 else "middle")), "arg": op["bad"]["arg"]}
    ctx.count("op:invalid_" + k)
    ok = True
    for variant in ("copying", "inplace"):
        raised = None
        try:
            _call(ds, op, variant == "inplace")
        except Exception as e:  # noqa: BLE001
            raised = e
        ctx.check(raised is not None, "invalid_call_must_raise", lambda: "%s: the %s variant accepted the request" % (what(), variant), variant=variant, **fields)
        for i, (d, mm, sn, lab) in enumerate(H.live):
            diff = _snap_diff(sn, _snapshot(d))
            role = "target" if i == H.cur else "other"
            ctx.check(not diff, "invalid_call_state_unchanged", lambda: "%s: after the rejected %s call (%s) dataset #%d (%s, %s) changed: %s; shape now %s" % (what(), variant, type(raised).__name__, i, lab, role, diff, tuple(d.array.shape)), variant=variant, role=role, changed="+".join(diff), **fields)
            if diff:
                ok = False
                H.live[i][2] = _snapshot(d)
        if raised is None:
            ok = False
        if not ok:
            return False  # the model cannot follow an accepted / half-applied invalid request
    H.kinds.append("invalid_call")
    return True


def _transposed(idx):
    """numpy moves the broadcast axis first when advanced indices (ints and the list) are separated by a slice"""
    adv = [i for i, t in enumerate(idx) if isinstance(t, (list, int, np.integer))]
    if not adv:
        return False
    between = idx[adv[0] : adv[-1] + 1]
    sep = any(isinstance(t, slice) or t is Ellipsis for t in between)
    # transposition is visible only if a kept (slice) axis precedes the list in source order
    li = [i for i, t in enumerate(idx) if isinstance(t, list)][0]
    return bool(sep and any((isinstance(t, slice) or t is Ellipsis) for t in idx[:li]))


# ------------------------------------------------------------------------------------------------
# start states and random operations


CONSTRUCT_FORMS = ["from_array", "from_array", "bare_then_setters", "from_shape_then_array_setter", "via_copy"]


def _build(ctx, cls_name, arr, cal, rng=None, layout=None):
    """the start dataset: arr's values in a random memory layout, built through one of the equivalent public construction routes"""
    C = ctx.state["cls"][cls_name]
    o, s, u = cal
    model = DModel(cls_name, arr, o, s, u)
    if rng is None:
        return C.from_array(arr.copy(), name="c03", origin=o, sampling=s, units=u), model
    data, lay = G.layout(rng, arr, layout)
    form = CONSTRUCT_FORMS[int(rng.integers(len(CONSTRUCT_FORMS)))]
    if form == "from_shape_then_array_setter" and not hasattr(C, "from_shape"):
        form = "bare_then_setters"
    if form == "from_array":
        ds = C.from_array(data, name="c03", origin=o, sampling=s, units=u)
    elif form == "via_copy":
        ds = C.from_array(data, name="c03", origin=o, sampling=s, units=u).copy()
    else:
        if form == "bare_then_setters":
            ds = C.from_array(data)
        else:
            ds = C.from_shape(tuple(arr.shape))
            ds.array = data
        ds.units = u
        ds.origin = o
        ds.sampling = s
    ctx.state["last_make"] = {"layout": lay, "construct": form}
    ctx.count("layout:" + lay)
    ctx.count("construct:" + form)
    return ds, model


def _rand_slice(rng, n):
    """a non-empty slice of an axis of length n"""
    u = rng.random()
    if u < 0.25 or n == 1:
        if n > 1 and rng.random() < 0.3:
            return slice(None, None, -1 if rng.random() < 0.5 else int(rng.integers(2, 4)))
        return slice(None)
    a = int(rng.integers(0, n))
    b = int(rng.integers(a + 1, n + 1))
    step = None
    v = rng.random()
    if v < 0.3:
        step = int(rng.integers(1, 4))
    elif v < 0.45:
        # negative step: start > stop
        step = -int(rng.integers(1, 3))
        lo = a - 1 if a > 0 else None
        return slice(b - 1, lo, step)
    start = a if rng.random() < 0.8 else a - n  # negative spelling
    stop = b if rng.random() < 0.7 else (None if b == n else b - n)
    if start == -n and rng.random() < 0.5:
        start = None
    return slice(start, stop, step)


def _rand_int(rng, n):
    i = int(rng.integers(-n, n))
    u = rng.random()
    return i if u < 0.6 else (np.int64(i) if u < 0.85 else np.int32(i))


def _rand_index(rng, shape):
    nd = len(shape)
    while True:
        ent = []
        used_list = False
        for n in shape:
            u = rng.random()
            if u < 0.3:
                ent.append(_rand_int(rng, n))
            elif u < 0.42 and not used_list:
                used_list = True
                ent.append([int(x) for x in rng.integers(-n, n, size=int(rng.integers(1, 4)))])
            elif u < 0.6:
                ent.append(slice(None))
            else:
                ent.append(_rand_slice(rng, n))
        if any(not isinstance(t, (int, np.integer)) for t in ent):
            break
    # optional Ellipsis in place of a run of full slices, or dropping trailing full slices
    full = [i for i, t in enumerate(ent) if isinstance(t, slice) and t == slice(None)]
    u = rng.random()
    if u < 0.4:
        # choose a (possibly empty) run of consecutive full slices to replace
        starts = [i for i in range(nd + 1)]
        p = int(rng.choice(starts))
        q = p
        while q < nd and q in full:
            q += 1
        ent = ent[:p] + [Ellipsis] + ent[q:]
    elif u < 0.7:
        while ent and isinstance(ent[-1], slice) and ent[-1] == slice(None) and len(ent) > 1:
            ent.pop()
    if len(ent) == 1 and rng.random() < 0.6:
        return ent[0]
    return tuple(ent)


def _rand_axes(rng, nd):
    u = rng.random()
    if u < 0.3:
        return None, list(range(nd))
    # axes are spelled with non-negative indices here: what a negative spelling does to the *content* is a
    # conservation question (C06); nothing in this property's statement depends on it
    if u < 0.45:
        a = int(rng.integers(nd))
        return a, [a]
    k = int(rng.integers(1, nd + 1))
    axes = [int(x) for x in rng.permutation(nd)[:k]]
    return (tuple(axes) if rng.random() < 0.8 else list(axes)), axes


def _rand_valid_value(rng, attr, nd):
    if attr == "units":
        u = rng.random()
        if u < 0.25:
            return G.UNIT_NAMES[int(rng.integers(len(G.UNIT_NAMES)))]
        names = [G.UNIT_NAMES[int(rng.integers(len(G.UNIT_NAMES)))] for _ in range(nd)]
        return names if u < 0.7 else tuple(names)
    o, s, _ = G.rand_calibration(rng, nd)
    v = o if attr == "origin" else s
    if rng.random() < 0.1:
        v = np.float64(2.5) if rng.random() < 0.5 else 3
    if rng.random() < 0.1 and not np.isscalar(v):
        # (float32 calibration arrays are not generated: the library then does the centre arithmetic in float32,
        #  a 1e-8 rounding effect that says nothing about coherence)
        v = np.asarray(v, dtype=np.int32 if rng.random() < 0.5 else np.int16)
    return v


def _rand_invalid_value(rng, attr, nd):
    if attr == "units":
        c = int(rng.integers(4))
        return [["nm"] * (nd + 1), ["nm"] * (nd - 1), 3, None][c]
    c = int(rng.integers(7))
    return [[1.0] * (nd + 1), [1.0] * (nd - 1), "fast", None, ["a"] * nd, {"x": 1}, np.ones(nd + 2)][c]


def _rand_op(rng, ds, nlive=1):
    shape = tuple(ds.array.shape)
    nd = len(shape)
    size = int(np.prod(shape))
    u0 = rng.random()
    if u0 < 0.07:
        return {"k": "poke", "form": ["iadd", "fill", "block"][int(rng.integers(3))], "target": "cur" if rng.random() < 0.5 else int(rng.integers(nlive))}
    if 0.20 <= u0 < 0.26:
        return {"k": "neutral", "which": G.NEUTRAL_CALLS[int(rng.integers(len(G.NEUTRAL_CALLS)))]}
    if u0 < 0.13:
        op = dict(_noop_op(NOOP_FORMS[int(rng.integers(len(NOOP_FORMS)))], shape))
        if "inplace" in op:
            op["inplace"] = bool(rng.random() < 0.5)
        return op
    if u0 < 0.20:
        bad = _bad_ops(shape)
        return bad[int(rng.integers(len(bad)))]
    kinds = ["copy", "set", "invalid", "set_array", "pad", "crop", "bin", "resample", "index"]
    w = np.array([0.05, 0.13, 0.08, 0.05, 0.10, 0.13, 0.13, 0.13, 0.20])
    if size > 4000:
        w = np.array([0.02, 0.05, 0.03, 0.0, 0.0, 0.3, 0.3, 0.0, 0.3])
    if size <= 2:
        w = np.array([0.05, 0.15, 0.1, 0.1, 0.35, 0.0, 0.0, 0.2, 0.05])
    k = kinds[int(rng.choice(len(kinds), p=w / w.sum()))]
    inplace = bool(rng.random() < 0.5)
    if k == "copy":
        return {"k": "copy"}
    if k == "set":
        attr = ["origin", "sampling", "units"][int(rng.integers(3))]
        return {"k": "set", "attr": attr, "value": _rand_valid_value(rng, attr, nd), "valid": True}
    if k == "invalid":
        attr = ["origin", "sampling", "units"][int(rng.integers(3))]
        return {"k": "set", "attr": attr, "value": _rand_invalid_value(rng, attr, nd), "valid": False}
    if k == "set_array":
        if rng.random() < 0.25:
            return {"k": "set_array", "value": np.zeros((2,) * (nd + 1)), "valid": False}
        new_shape = tuple(int(rng.integers(1, 5)) for _ in range(nd)) if rng.random() < 0.5 else shape
        dt = ["float64", "float32", "int16", "complex128", "uint8"][int(rng.integers(5))]
        return {"k": "set_array", "value": G.layout(rng, G.rand_data(rng, new_shape, dt, small=True))[0], "valid": True}
    if k == "pad":
        u = rng.random()
        if u < 0.25:
            kw = {"pad_width": int(rng.integers(0, 3))}
        elif u < 0.4:
            kw = {"pad_width": (int(rng.integers(0, 3)), int(rng.integers(0, 3)))} if nd != 2 else {"pad_width": int(rng.integers(1, 3))}
        elif u < 0.7:
            kw = {"pad_width": tuple((int(rng.integers(0, 3)), int(rng.integers(0, 3))) for _ in range(nd))}
        else:
            kw = {"output_shape": tuple(int(n + rng.integers(-1, 5)) if n > 1 else int(n + rng.integers(0, 4)) for n in shape)}
            if rng.random() < 0.3:
                kw["output_shape"] = list(kw["output_shape"])
        return {"k": "pad", "kw": kw, "inplace": inplace}
    if k == "crop":
        ax_arg, axes = _rand_axes(rng, nd)
        cw = []
        for a in axes:
            n = shape[a]
            lo = int(rng.integers(0, n))
            hi = int(rng.integers(lo + 1, n + 1))
            u = rng.random()
            if hi == n and u < 0.5:
                hi_s = 0  # "to the end"
            elif hi < n and u < 0.4:
                hi_s = hi - n  # negative stop
            else:
                hi_s = hi
            cw.append((lo, hi_s))
        kw = {"crop_widths": tuple(cw)}
        if ax_arg is not None:
            kw["axes"] = ax_arg
        return {"k": "crop", "kw": kw, "inplace": inplace}
    if k == "bin":
        ax_arg, axes = _rand_axes(rng, nd)
        fs = [int(rng.integers(1, shape[a] + 1)) if rng.random() < 0.8 else 1 for a in axes]
        if len(set(fs)) == 1 and rng.random() < 0.5:
            bf = fs[0] if rng.random() < 0.7 else np.int64(fs[0])
        else:
            bf = tuple(fs) if rng.random() < 0.7 else list(fs)
        kw = {"bin_factors": bf}
        if ax_arg is not None:
            kw["axes"] = ax_arg
        if rng.random() < 0.4:
            kw["reducer"] = "mean"
        return {"k": "bin", "kw": kw, "inplace": inplace}
    if k == "resample":
        ax_arg, axes = _rand_axes(rng, nd)
        lens = [int(rng.integers(max(1, n // 3), min(2 * n + 2, n + 8) + 1)) for n in (shape[a] for a in axes)]
        kw = {"out_shape": tuple(lens)} if rng.random() < 0.7 else {"factors": tuple(m / shape[a] for m, a in zip(lens, axes))}
        if ax_arg is not None:
            kw["axes"] = ax_arg
        return {"k": "resample", "kw": kw, "inplace": inplace}
    return {"k": "index", "index": _rand_index(rng, shape)}


# ------------------------------------------------------------------------------------------------


def _finish(ctx, H, start_cls, start_nd, extra_obs, sig=None, nontrivial=None):
    kinds = H.kinds
    if sig is not None:
        ctx.nontrivial(sig, nontrivial)
    else:
        ctx.nontrivial((start_cls, start_nd, tuple(kinds)), len(set(kinds)) >= 2 and H.shape_changes >= 1)
    ex = ctx.state["evidence_extra"]
    # single strings: core.jsonable truncates long lists
    ex["bigrams"] = " ".join(sorted("%s>%s" % b for b in ctx.state["op_bigrams"]))
    ex["abstract_states"] = " ".join(sorted("%s/%dD/%s" % s for s in ctx.state["abstract_states"]))
    cur = H.live[H.cur][0]
    if "ops" in extra_obs:  # bounded-exhaustive case: the op names are the history
        ctx.observe(live=len(H.live), final="%s%s" % (type(cur).__name__, tuple(cur.array.shape)), **extra_obs)
    else:
        ctx.observe(history=H.log, live=len(H.live), final="%s%s" % (type(cur).__name__, tuple(cur.array.shape)), **extra_obs)


def _run_exh(spec, idx, ctx):
    rng = ctx.rng(idx)
    cls_name, shape, dtype, calform = START_STATES[spec["start"]]
    arr = G.rand_data(rng, shape, dtype)
    ds, model = _build(ctx, cls_name, arr, G.rand_calibration(rng, len(shape), form=calform), rng)
    H = Hist(ctx, ds, model)
    H.live[0][3] = "%s%s %s" % (cls_name, shape, dtype)
    _check_invariants(ctx, H, {"op": "construct"}, lambda: "construction of %s" % H.live[0][3])
    _compare_model(ctx, ds, model, "construct", arr.dtype, {"op": "construct"}, lambda: "construction of %s" % H.live[0][3])
    skipped = 0
    for name in spec["ops"]:
        op = ALPHABET[name](tuple(H.live[H.cur][0].array.shape))
        if op is None:
            skipped += 1
            ctx.count("inapplicable_op_skipped")
            continue
        if not _step(ctx, H, op):
            break
    _finish(ctx, H, cls_name, len(shape), {"ops": spec["ops"], "skipped_inapplicable": skipped})


def _start_history(spec, idx, ctx):
    rng = ctx.rng(idx)
    cls_name, shape, dtype, calform = START_STATES[spec["start"]]
    arr = G.rand_data(rng, shape, dtype)
    ds, model = _build(ctx, cls_name, arr, G.rand_calibration(rng, len(shape), form=calform), rng)
    H = Hist(ctx, ds, model)
    H.live[0][3] = "%s%s %s" % (cls_name, shape, dtype)
    return H, cls_name, shape


def _run_badargs(spec, idx, ctx):
    """complete grid: operation x argument x position of the bad entry x kind of bad entry, from every start state"""
    H, cls_name, shape = _start_history(spec, idx, ctx)
    op = _bad_ops(shape)[spec["i"]]
    _step(ctx, H, op)
    b = op["bad"]
    _finish(ctx, H, cls_name, len(shape), {"bad_call": _op_repr(op)}, sig=("badargs", cls_name, op["k"], b["arg"], b["kind"], b["pos"]), nontrivial=len(shape) >= 2 and b["pos"] > 0)


def _run_noop_poke(spec, idx, ctx):
    """complete grid: no-op form of every operation that returns a new dataset x which side is written to x kind of write"""
    H, cls_name, shape = _start_history(spec, idx, ctx)
    op = _noop_op(spec["noop"], shape)
    ok = _step(ctx, H, op)
    if ok:
        target = len(H.live) - 1 if spec["target"] == "result" else 0
        _step(ctx, H, {"k": "poke", "form": spec["form"], "target": target})
    _finish(ctx, H, cls_name, len(shape), {"noop": spec["noop"], "write_into": spec["target"], "form": spec["form"]}, sig=("noop_poke", cls_name, spec["noop"], spec["target"], spec["form"]), nontrivial=ok)



# ------------------------------------------------------------------------------------------------
# big arrays (> 2**22 elements, two of them > 16 MiB): short fixed histories, all monitors as usual

BIG_MENU = [
    ("Dataset3d", "uint16", 3, 1 << 22, "c", ["big_idx_steps", "big_bin23", "poke"]),
    ("Dataset4dstem", "uint8", 4, 1 << 22, "c", ["crop_all", "pad_noop", "poke", "bad_crop_late"]),
    ("Dataset", "float32", 3, (1 << 22) + (1 << 20), "c", ["bin_axis0_mean_ip", "set_sampling_list", "idx_list", "copy", "poke"]),
    ("Dataset", "int32", 3, (1 << 22) + (1 << 20), "fortran", ["pad_int_ip", "idx_neg_last", "bin2", "poke"]),
]


def _big_op(name, sh):
    if name == "big_idx_steps":
        return {"k": "index", "index": (slice(None, None, 2), slice(3, None), slice(None, None, -1))}
    if name == "big_bin23":
        return {"k": "bin", "kw": {"bin_factors": (2, 3), "axes": (len(sh) - 2, len(sh) - 1)}, "inplace": False}
    return ALPHABET[name](sh)


def _run_big(spec, idx, ctx):
    rng = ctx.rng(idx)
    cls_name, dtype, nd, target, lay, ops = BIG_MENU[spec["variant"]]
    h, w = int(rng.integers(200, 301)), int(rng.integers(200, 301))
    nb = -(-int(1.1 * target) // (h * w))
    shape = (nb, h, w) if nd == 3 else (int(rng.integers(3, 7)), -(-nb // 3), h, w)
    if nd == 4:
        shape = (shape[0], -(-nb // shape[0]), h, w)
    dt = np.dtype(dtype)
    if dt.kind in "iu":
        info = np.iinfo(dt)
        arr = rng.integers(int(info.min), int(info.max) + 1, size=shape, dtype=np.int64 if dt.itemsize >= 4 else np.int32).astype(dt)
    else:
        arr = (rng.standard_normal(size=shape, dtype=np.float32) * 40 + 5).astype(dt)
    if arr.size <= target:
        raise HarnessError("big case below its size class")
    ds, model = _build(ctx, cls_name, arr, G.rand_calibration(rng, nd, form="float_array"), rng, layout=lay)
    H = Hist(ctx, ds, model)
    H.live[0][3] = "%s%s %s (%.1f MiB)" % (cls_name, shape, dtype, arr.nbytes / 2.0**20)
    _check_invariants(ctx, H, {"op": "construct"}, lambda: "construction of %s" % H.live[0][3])
    for name in ops:
        op = _big_op(name, tuple(H.live[H.cur][0].array.shape))
        if op is None or not _step(ctx, H, op):
            break
    ctx.count("big_histories")
    _finish(ctx, H, cls_name, nd, {"big": True, "elements": int(arr.size), "ops": ops}, sig=("big", cls_name, dtype, tuple(ops)), nontrivial=True)


def _run_random(spec, idx, ctx):
    rng = ctx.rng(idx)
    u = rng.random()
    if u < 0.45:
        nd = int(rng.integers(1, 6))
        cls_name = "Dataset"
    else:
        cls_name = ["Dataset2d", "Dataset3d", "Dataset4d", "Dataset4dstem"][int(rng.integers(4))]
        nd = FIXED_NDIM[cls_name]
    dtype = ["int8", "uint8", "int16", "int32", "int64", "float32", "float64", "float64", "complex128"][int(rng.integers(9))]
    shape = G.rand_shape(rng, nd, max_total=1500)
    arr = G.rand_data(rng, shape, dtype)
    ds, model = _build(ctx, cls_name, arr, G.rand_calibration(rng, nd), rng)
    H = Hist(ctx, ds, model)
    H.live[0][3] = "%s%s %s" % (cls_name, shape, dtype)
    _check_invariants(ctx, H, {"op": "construct"}, lambda: "construction of %s" % H.live[0][3])
    _compare_model(ctx, ds, model, "construct", arr.dtype, {"op": "construct"}, lambda: "construction of %s" % H.live[0][3])
    jumps = 0
    for _ in range(spec["depth"]):
        if len(H.live) > 1 and rng.random() < 0.12:
            H.cur = int(rng.integers(len(H.live)))  # go back to an earlier dataset of the history
            H.log.append("(continue on #%d)" % H.cur)
            jumps += 1
        op = _rand_op(rng, H.live[H.cur][0], len(H.live))
        if rng.random() < 0.04:
            nd_cur = H.live[H.cur][0].array.ndim
            cands = [d for d, *_ in H.live if d.array.ndim == nd_cur]
            other = cands[int(rng.integers(len(cands)))]
            attr = ["origin", "sampling", "units"][int(rng.integers(3))]
            op = {"k": "set", "attr": attr, "value": getattr(other, attr), "valid": True}  # the very object another dataset holds
            ctx.count("calibration_object_of_another_dataset_assigned")
        if not _step(ctx, H, op):
            break
    _finish(ctx, H, cls_name, nd, {"jumps": jumps})


def run_case(spec, idx, ctx):
    # process-global state a user may have set: applied around every library call of this case (outermost method wrapper), restored after it
    ctx.state["gstate"] = "none" if spec["kind"] == "big" else G.GSTATES[idx % len(G.GSTATES)]
    ctx.state["last_make"] = {}
    try:
        with warnings.catch_warnings():
            warnings.simplefilter("ignore")
            with np.errstate(all="ignore"):
                if spec["kind"] == "exh":
                    _run_exh(spec, idx, ctx)
                elif spec["kind"] == "badargs":
                    _run_badargs(spec, idx, ctx)
                elif spec["kind"] == "noop_poke":
                    _run_noop_poke(spec, idx, ctx)
                elif spec["kind"] == "big":
                    _run_big(spec, idx, ctx)
                else:
                    _run_random(spec, idx, ctx)
    finally:
        tags = dict(ctx.state.get("last_make") or {}, gstate=ctx.state["gstate"])
        for rec in ctx._case["viol"]:
            for k2, v2 in tags.items():
                rec.setdefault(k2, v2)
        ctx.observe(**tags)
        ctx.state["gstate"] = "none"


def summarize(all_cases, counters, extras):
    big, st, tr = set(), set(), 0
    for e in extras:
        big.update((e.get("bigrams") or "").split())
        st.update((e.get("abstract_states") or "").split())
        tr += int(e.get("numpy_transposed_advanced_index", 0))
    n_exh = sum(1 for c in all_cases if c["obs"].get("ops") is not None)
    return {
        "bounded_exhaustive": {"sequences_executed": n_exh, "alphabet_size": len(ALPHA_NAMES), "start_states": N_START},
        "random_histories": sum(1 for c in all_cases if c["obs"].get("jumps") is not None),
        "op_kind_bigrams_covered": " ".join(sorted(big)),
        "n_op_kind_bigrams": len(big),
        "abstract_states_visited": " ".join(sorted(st)),
        "n_abstract_states": len(st),
        "alphabet": ALPHA_NAMES,
        "start_states": ["%s%s %s" % (c, s, d) for c, s, d, _ in START_STATES],
        "operations_executed": {k[3:]: v for k, v in counters.items() if k.startswith("op:")},
        "observation_only": {"index_results_where_numpy_moved_the_list_axis_first": tr},
    }
