"""C17 — reliability-sorted phase unwrapping recovers any Itoh-smooth phase up to a constant.

Oracle: the generating field.  A smooth float64 field phi is generated, rescaled so that its largest
difference along exactly the edges the algorithm uses (4-neighbour pairs inside the mask, plus the
periodic seam pairs when wrap_around=True) is a chosen value < pi, wrapped, and handed to the real
`unwrap_phase_2d_torch` / `unwrap_bf_overlap_phase_torch`.  The monitor labels the mask's connected
regions itself (own flood fill, periodic when the seam edges are used) and requires `out - phi` to be
constant on every region; for *any* input it requires `(out - in - c) / 2pi` to be integer.
The Poisson method is executed and recorded, never judged.
"""
from __future__ import annotations

import itertools
import math

import numpy as np

from vf import tensorenv

PROPERTY = "C17"
LEVEL = "exploration"
ANCHOR_FILES = ["quantem/core/utils/imaging_utils.py", "quantem/diffractive_imaging/direct_ptycho_utils.py"]
RULE = (
    "seeded matrix: kind (itoh = wrapped smooth field, unwrapped = the smooth field itself, any = arbitrary input judged for 2pi-integrality only, "
    "bf = unwrap_bf_overlap_phase_torch embedding, reuse = one caller-owned tensor used for 3-4 calls with different masks / wrap_around, poisson = recorded only) x field family (ramp, quadratic, Gaussian bumps, band-limited random, "
    "periodic sines, ramp + bounded jitter, hierarchical-curvature ramps built to force the deepest union-find trees) x mask class (none, blob, holes, multi-component, single pixels, diagonal-only contacts, seam-connected, "
    "one-pixel-wide serpentine and spiral paths) x wrap_around x "
    "grid size class (tiny 1..3 rows/cols, small, medium, large up to 40, long = 1..3 x 60..1200) x max neighbour difference in {0.5,1,2,2.8}; disconnected regions get "
    "independent arbitrary offsets. non-trivial = the true field crosses at least one 2pi boundary inside a region (a wrap must be undone) and, "
    "if masked, the mask has >= 2 regions or a hole; distinct = (kind, family, mask class, wrap_around, size class)"
)
ASSUMPTIONS = [
    "premise enforced by construction: |difference| <= 2.8 < pi along every edge the algorithm uses (mask-internal 4-neighbour pairs; seam pairs too when wrap_around=True); nothing is assumed across region boundaries or diagonal contacts",
    "inputs are float32 tensors (the code accumulates in float32); the constancy/integrality bound is max(1e-4, 512*eps32*amplitude) rad with amplitude = max(2pi, max|phi|, max|out|); residuals are recorded as a fraction of that bound (worst measured fraction is in worst_residuals: >= 100x head-room), and the bound is orders of magnitude below the 2pi of any mis-assigned wrap",
    "memory layouts: 40 % of the cases pass the phase map, the mask and the three bright-field arguments as permuted views, strided slices of a larger buffer or windows with a storage offset",
    "process-global torch state: 35 % of the cases run under a float64 default dtype, no_grad, inference_mode, deterministic algorithms (warn_only), 2 threads, or with a requires_grad phase tensor; always restored in a finally block. float64 phase maps under a float64 default are judged at float64 precision (bound max(1e-10, 512*eps64*amplitude) rad); float64 maps under the float32 default are judged at float32 precision because the code keeps its wrap counts in the default dtype; the bright-field embedding is float32 by construction",
    "values outside the mask are arbitrary finite numbers and are not judged; NaN/inf inputs are outside the domain",
    "argument tensors (phase, mask, bf data/masks) are compared with snapshots after every call; the depth of the union-find forest is read by a wrapper on _final_offsets (informational: skipped and listed in hooks_missing if that name disappears)",
    "the Poisson method is outside the exactness claim: executed and recorded (deviation from the generating field), not judged",
]
BUDGET = {"quick": {"soft_s": 600}, "thorough": {"soft_s": 1200}}
MIN_EVALUATIONS = {"quick": 2000, "thorough": 12000}
REQUIRED_COUNTERS = ["eval:not_constant_on_region", "eval:non_integer_multiple", "eval:unwrapped_input_changed", "eval:bf_not_constant_on_region", "eval:argument_modified"]

FAMILIES = ["ramp", "quadratic", "bumps", "bandlimited", "sines", "jitter_ramp", "hierarchical"]
PERIODIC = ("bandlimited", "sines")
MASKS = ["none", "blob", "holes", "multi", "singles", "diagonal", "seam", "serpentine", "spiral"]
PATH_MASKS = ("serpentine", "spiral")  # one-pixel-wide paths: long chains, deep union-find trees
TARGETS = [0.5, 1.0, 2.0, 2.8]
SIZES = ["tiny", "small", "medium", "large", "long"]
EPS32 = float(np.finfo(np.float32).eps)
EPS64 = float(np.finfo(np.float64).eps)


def _env(ctx):
    return ctx.state.get("_env", {"state": "default", "layout": "contiguous", "input_dtype": "float32"})


def _fields(ctx):
    return dict(_env(ctx))


def _in_dtype(ctx):
    return np.float64 if _env(ctx)["input_dtype"] == "float64" else np.float32


def _float64_precision(ctx):
    """the code keeps its wrap counts in torch's default dtype: float64 results are owed only to float64 input under a float64 default."""
    e = _env(ctx)
    return e["state"] == "float64_default" and e["input_dtype"] == "float64"


def plan(tier, seed):
    rng = np.random.default_rng([seed, 17, 999])
    quick = tier == "quick"
    specs = []

    def size():
        return SIZES[int(rng.choice(5, p=[0.12, 0.30, 0.30, 0.13, 0.15]))]

    reps = 8 if quick else 120
    for fam, mask, wrap in itertools.product(FAMILIES, MASKS, [True, False]):
        if wrap and mask == "none" and fam not in PERIODIC:
            continue  # the seam edges would be the only large differences: scaled to a trivial field
        if mask == "seam" and (not wrap or fam not in PERIODIC):
            continue
        if mask in PATH_MASKS and wrap and fam not in PERIODIC:
            continue  # the path ends meet across the seam: same scaling argument
        for r in range(reps * 3):
            specs.append({"kind": "itoh", "family": fam, "mask": mask, "wrap": wrap, "size": size(), "target": TARGETS[int(rng.integers(4))]})
        for r in range(reps):
            specs.append({"kind": "unwrapped", "family": fam, "mask": mask, "wrap": wrap, "size": size(), "target": TARGETS[int(rng.integers(4))]})
    for inp, mask, wrap in itertools.product(["noise_pi", "noise_wide", "vortex", "steep"], ["none", "blob", "multi", "diagonal"], [True, False]):
        for r in range(reps):
            specs.append({"kind": "any", "input": inp, "mask": mask, "wrap": wrap, "size": size()})
    for fam, lens, two_pass, wrap in itertools.product(FAMILIES, ["lens", "lens_holes", "two_lobes", "full"], [True, False], ["default", False]):
        for r in range(reps):
            specs.append({"kind": "bf", "family": fam, "mask": lens, "two_pass": two_pass, "wrap": wrap, "size": ["small", "medium"][int(rng.integers(2))], "target": TARGETS[int(rng.integers(1, 4))]})
    # long thin grids (1..3 x 60..1200): long chains, the deepest union-find trees (depth is recorded per case)
    for fam, mask in itertools.product(["hierarchical", "jitter_ramp", "quadratic", "bandlimited"], ["none", "serpentine", "spiral", "holes"]):
        for r in range(reps):
            specs.append({"kind": "itoh", "family": fam, "mask": mask, "wrap": False, "size": "long", "target": TARGETS[int(rng.integers(1, 4))]})
    # the same caller-owned tensor is used for several calls (other mask / no mask / other wrap_around)
    for fam, wrap in itertools.product(FAMILIES, [True, False]):
        if wrap and fam not in PERIODIC:
            continue
        for r in range(reps * 3):
            specs.append({"kind": "reuse", "family": fam, "mask": "none", "wrap": wrap, "size": size(), "target": TARGETS[int(rng.integers(4))]})
    for fam in PERIODIC:
        for mask in ["none", "blob"]:
            for r in range(reps):
                specs.append({"kind": "poisson", "family": fam, "mask": mask, "size": "small", "target": TARGETS[int(rng.integers(4))]})
    return specs


def setup(ctx):
    import torch

    from quantem.core.utils import imaging_utils
    from quantem.diffractive_imaging import direct_ptycho_utils

    ctx.state.update(torch=torch, iu=imaging_utils, dpu=direct_ptycho_utils)

    # additional observability (not deciding): depth of the union-find forest handed to _final_offsets
    from vf import hook

    def pre(args, kwargs):
        try:
            uf = args[0] if args else kwargs.get("uf")
            parent = uf.parent.detach().cpu().numpy()
            cur = np.arange(parent.size)
            depth = 0
            while depth < 64:
                nxt = parent[cur]
                if np.array_equal(nxt, cur):
                    break
                cur = nxt
                depth += 1
            ctx.state["depth"] = max(ctx.state.get("depth", 0), depth)
        except Exception:  # noqa: BLE001  (the probe must never disturb the execution)
            ctx.count("depth_probe_failed")
        return None

    hook.wrap(imaging_utils, "_final_offsets", pre=pre, ctx=ctx)


# ------------------------------------------------------------------------------------------------
# independent geometry: connected regions and the edge set


def label_regions(mask, periodic, connectivity=4):
    """Own flood fill. Returns (labels int array, -1 outside; number of regions)."""
    H, W = mask.shape
    lab = np.full((H, W), -1, dtype=np.int64)
    steps = [(0, 1), (0, -1), (1, 0), (-1, 0)]
    if connectivity == 8:
        steps += [(1, 1), (1, -1), (-1, 1), (-1, -1)]
    n = 0
    for i0 in range(H):
        for j0 in range(W):
            if not mask[i0, j0] or lab[i0, j0] >= 0:
                continue
            lab[i0, j0] = n
            stack = [(i0, j0)]
            while stack:
                i, j = stack.pop()
                for di, dj in steps:
                    a, b = i + di, j + dj
                    if periodic:
                        a %= H
                        b %= W
                    elif a < 0 or b < 0 or a >= H or b >= W:
                        continue
                    if mask[a, b] and lab[a, b] < 0:
                        lab[a, b] = n
                        stack.append((a, b))
            n += 1
    return lab, n


def has_hole(mask):
    """a background pocket (8-connected) that does not reach the border: the mask contains a cycle around it."""
    bg = ~mask
    lab, n = label_regions(bg, periodic=False, connectivity=8)
    if n == 0:
        return False
    border = set(lab[0, :].tolist()) | set(lab[-1, :].tolist()) | set(lab[:, 0].tolist()) | set(lab[:, -1].tolist())
    border.discard(-1)
    return n > len(border)


def max_edge_difference(phi, mask, periodic):
    """largest |difference| along exactly the edges the algorithm uses."""
    worst = 0.0
    for axis in (0, 1):
        if periodic:
            d = np.abs(np.roll(phi, -1, axis) - phi)
            v = mask & np.roll(mask, -1, axis)
        else:
            d = np.abs(np.diff(phi, axis=axis))
            v = (mask[1:, :] & mask[:-1, :]) if axis == 0 else (mask[:, 1:] & mask[:, :-1])
        if v.any():
            worst = max(worst, float(d[v].max()))
    return worst


# ------------------------------------------------------------------------------------------------
# generators


def _shape(rng, size):
    if size == "tiny":
        a = int(rng.integers(1, 4))
        b = int(rng.integers(2, 13))
        return (a, b) if rng.random() < 0.5 else (b, a)
    if size == "long":
        a = int(rng.integers(1, 4))
        b = int(rng.integers(60, 301)) if rng.random() < 0.85 else int(rng.integers(301, 1201))
        return (a, b) if rng.random() < 0.5 else (b, a)
    lo, hi = {"small": (4, 10), "medium": (11, 24), "large": (25, 40)}[size]
    H = int(rng.integers(lo, hi + 1))
    W = int(rng.integers(lo, hi + 1)) if rng.random() < 0.7 else H
    return H, W


def _field(rng, fam, H, W):
    y, x = np.mgrid[:H, :W].astype(np.float64)
    if fam == "ramp":
        a, b = rng.normal(size=2)
        return a * x + b * y
    if fam == "quadratic":
        cx, cy = rng.uniform(-0.2, 1.2, size=2) * np.array([W, H])
        a, b, c = rng.normal(size=3)
        return a * (x - cx) ** 2 + b * (y - cy) ** 2 + c * (x - cx) * (y - cy)
    if fam == "bumps":
        f = np.zeros((H, W))
        for _ in range(int(rng.integers(1, 5))):
            cx, cy = rng.uniform(0, 1, size=2) * np.array([W, H])
            s = rng.uniform(0.1, 0.5) * max(H, W, 3)
            f += rng.normal() * np.exp(-((x - cx) ** 2 + (y - cy) ** 2) / (2 * s * s))
        return f + 0.05 * rng.normal() * x
    if fam == "hierarchical":
        # curvature |s_j| grows with the 2-adic valuation of j along the long axis, so the reliability order
        # merges pairs, then quadruples, ... : equal-rank unions at every level, i.e. union-find trees of
        # depth ~log2(N) (the deepest union by rank can produce); the slope stays inside a band around d0
        L = max(H, W)
        off = int(rng.integers(0, 64))
        c = rng.uniform(0.04, 0.12)
        d0 = rng.uniform(0.5, 1.3) * (1 if rng.random() < 0.5 else -1)
        line = np.zeros(L)
        d = d0
        for j in range(1, L):
            line[j] = line[j - 1] + d
            k = j + off
            nu = (k & -k).bit_length() - 1 if k else 0
            sj = c * (nu + 1)
            d += -sj if d > d0 else sj
        across = rng.normal() * 0.3
        return (line[None, :] + across * y) if W >= H else (line[:, None] + across * x)
    if fam == "jitter_ramp":  # ramp plus bounded sample-to-sample jitter (random reliability order)
        a, b = rng.normal(size=2)
        return a * x + b * y + rng.uniform(-0.5, 0.5, size=(H, W)) * rng.uniform(0.3, 1.5) * max(abs(a), abs(b), 0.1)
    if fam == "bandlimited":
        ky = np.fft.fftfreq(H)[:, None]
        kx = np.fft.fftfreq(W)[None, :]
        k0 = rng.uniform(0.06, 0.25)
        spec = (rng.normal(size=(H, W)) + 1j * rng.normal(size=(H, W))) * np.exp(-(kx**2 + ky**2) / (2 * k0 * k0))
        return np.real(np.fft.ifft2(spec))
    # sines: integer numbers of cycles, periodic across the seam
    f = np.zeros((H, W))
    for _ in range(int(rng.integers(1, 4))):
        m, n = int(rng.integers(-2, 3)), int(rng.integers(-2, 3))
        f += rng.normal() * np.sin(2 * np.pi * (m * x / W + n * y / H) + rng.uniform(0, 2 * np.pi))
    return f


def _smooth_noise(rng, H, W, k0=0.15):
    ky = np.fft.fftfreq(H)[:, None]
    kx = np.fft.fftfreq(W)[None, :]
    spec = (rng.normal(size=(H, W)) + 1j * rng.normal(size=(H, W))) * np.exp(-(kx**2 + ky**2) / (2 * k0 * k0))
    f = np.real(np.fft.ifft2(spec))
    return f


def _mask(rng, cls, H, W):
    if cls == "none":
        return np.ones((H, W), bool)
    y, x = np.mgrid[:H, :W]
    if cls == "blob":
        f = _smooth_noise(rng, H, W)
        m = f > np.quantile(f, rng.uniform(0.2, 0.6))
    elif cls == "holes":
        m = np.ones((H, W), bool)
        if rng.random() < 0.5:
            f = _smooth_noise(rng, H, W, 0.1)
            m = f > np.quantile(f, 0.25)
        for _ in range(int(rng.integers(1, 4))):
            cy, cx = int(rng.integers(0, H)), int(rng.integers(0, W))
            r = rng.uniform(0.6, max(1.0, 0.2 * min(H, W)))
            m &= ~(((y - cy) ** 2 + (x - cx) ** 2) <= r * r)
    elif cls == "multi":
        m = np.zeros((H, W), bool)
        for _ in range(int(rng.integers(2, 5))):
            cy, cx = int(rng.integers(0, H)), int(rng.integers(0, W))
            ry, rx = rng.uniform(0.8, max(1.0, 0.3 * H)), rng.uniform(0.8, max(1.0, 0.3 * W))
            if rng.random() < 0.5:
                m |= (((y - cy) / ry) ** 2 + ((x - cx) / rx) ** 2) <= 1
            else:
                m |= (np.abs(y - cy) <= ry) & (np.abs(x - cx) <= rx)
        # cut a few straight gaps so that several regions remain
        for _ in range(int(rng.integers(1, 3))):
            if rng.random() < 0.5:
                m[int(rng.integers(0, H)), :] = False
            else:
                m[:, int(rng.integers(0, W))] = False
    elif cls == "singles":
        f = _smooth_noise(rng, H, W)
        m = f > np.quantile(f, 0.6)
        m |= rng.random((H, W)) < 0.08
    elif cls == "diagonal":
        s = int(rng.integers(1, 4))
        m = ((y // s) + (x // s)) % 2 == 0  # blocks that touch only at their corners
        if rng.random() < 0.5:
            m &= rng.random((H, W)) < 0.9
    elif cls == "serpentine":  # one-pixel-wide boustrophedon path
        m = np.zeros((H, W), bool)
        if rng.random() < 0.5:
            m[::2, :] = True
            for k, i in enumerate(range(1, H, 2)):
                if i + 1 < H:
                    m[i, W - 1 if k % 2 == 0 else 0] = True
        else:
            m[:, ::2] = True
            for k, j in enumerate(range(1, W, 2)):
                if j + 1 < W:
                    m[H - 1 if k % 2 == 0 else 0, j] = True
    elif cls == "spiral":  # one-pixel-wide rectangular spiral with one-pixel gaps
        m = np.zeros((H, W), bool)
        top, left, bottom, right = 0, 0, H - 1, W - 1
        i, j = 0, 0
        m[i, j] = True
        di, dj = 0, 1
        lim = [top, left, bottom, right]
        turns_without_move, steps = 0, 0
        while turns_without_move < 2 and steps < 4 * (H + W):
            moved = False
            while True:
                a, b = i + di, j + dj
                a2, b2 = a + di, b + dj
                if not (lim[0] <= a <= lim[2] and lim[1] <= b <= lim[3]) or m[a, b]:
                    break
                if lim[0] <= a2 <= lim[2] and lim[1] <= b2 <= lim[3] and m[a2, b2]:
                    break  # keep a one-pixel gap to the previous turn
                i, j = a, b
                m[i, j] = True
                moved = True
            di, dj = dj, -di  # turn right
            steps += 1
            turns_without_move = 0 if moved else turns_without_move + 1
    else:  # seam: connected only through the periodic boundary
        m = np.zeros((H, W), bool)
        if rng.random() < 0.5 and W >= 4:
            a = int(rng.integers(1, max(2, W // 2)))
            b = int(rng.integers(a + 1, W))
            m[:, :a] = True
            m[:, b:] = True
        elif H >= 4:
            a = int(rng.integers(1, max(2, H // 2)))
            b = int(rng.integers(a + 1, H))
            m[:a, :] = True
            m[b:, :] = True
        else:
            m[:, 0] = True
            m[:, -1] = True
        if rng.random() < 0.4:
            m &= rng.random((H, W)) < 0.92
    if not m.any():
        m[int(rng.integers(0, H)), int(rng.integers(0, W))] = True
    return m


def _scene(rng, spec, H=None, W=None, mask=None, periodic=None):
    """(phi true float64 with per-region offsets, mask, labels, n_regions, used scale)"""
    if H is None:
        H, W = _shape(rng, spec["size"])
    if mask is None:
        mask = _mask(rng, spec["mask"], H, W)
    if periodic is None:
        periodic = bool(spec["wrap"])
    phi = _field(rng, spec["family"], H, W)
    D = max_edge_difference(phi, mask, periodic)
    if D > 1e-6 * float(np.max(np.abs(phi))):  # (a field that is constant along the used edges up to rounding stays as it is)
        phi = phi * (spec["target"] / D)
    lab, n = label_regions(mask, periodic)
    # nothing is promised across region boundaries: give every region its own arbitrary offset
    offs = rng.uniform(-12, 12, size=max(n, 1))
    phi = phi + np.where(lab >= 0, offs[np.clip(lab, 0, None)], 0.0)
    assert max_edge_difference(phi, mask, periodic) <= 2.8 + 1e-9
    return phi, mask, lab, n


def _wrap(phi):
    return phi - 2 * np.pi * np.round(phi / (2 * np.pi))


def _outside(rng, arr, mask, mode):
    """arbitrary finite content outside the mask."""
    out = arr.copy()
    if mode == 0:
        out[~mask] = 0.0
    elif mode == 1:
        out[~mask] = rng.uniform(-np.pi, np.pi, size=int((~mask).sum()))
    return out


def _bound(ctx, *arrays):
    amp = max([2 * np.pi] + [float(np.max(np.abs(a))) for a in arrays if np.size(a)])
    if _float64_precision(ctx):
        return max(1e-10, 512 * EPS64 * amp)
    return max(1e-4, 512 * EPS32 * amp)


def _size_class(H, W):
    m = min(H, W)
    if m <= 3 and max(H, W) >= 60:
        return "long"
    return "tiny" if m <= 3 else "small" if max(H, W) <= 10 else "medium" if max(H, W) <= 24 else "large"


def _nreg_class(n):
    return "1" if n == 1 else "2-4" if n <= 4 else "5+"


# ------------------------------------------------------------------------------------------------
# judges


def _judge_regions(ctx, mech, out, phi, lab, n, bound, common, what):
    worst, where = 0.0, None
    for r in range(n):
        sel = lab == r
        d = (out - phi)[sel]
        s = float(d.max() - d.min())
        if s > worst:
            worst, where = s, r
    ctx.close(worst / bound, 1.0, mech, lambda: "%s: out - phi varies by %.4g rad (%.3f x 2pi; bound %.1e rad) on region %s of %d" % (what, worst, worst / (2 * np.pi), bound, where, n), **common)
    return worst


def _judge_integer(ctx, out, inp, mask, bound, common, what):
    d = (out - inp)[mask]
    if d.size == 0:
        return 0.0
    d = d - d[0]
    res = np.abs(d - 2 * np.pi * np.round(d / (2 * np.pi)))
    worst = float(res.max())
    ctx.close(worst / bound, 1.0, "non_integer_multiple", lambda: "%s: (out - in - c) is %.4g rad away from a multiple of 2pi (bound %.1e rad)" % (what, worst, bound), **common)
    return worst


def _call_unwrap(ctx, arr32, mask, wrap, method="reliability-sorting", pass_mask=True, tensor=None, common=None):
    """one call of the public function; the caller's tensors are compared with snapshots afterwards.
    `tensor`: reuse this caller-owned tensor object (its current content must equal arr32)."""
    torch, iu = ctx.state["torch"], ctx.state["iu"]
    lay, lrng = _env(ctx)["layout"], ctx.state["_lrng"]
    if lay == "expanded":
        lay = "window"  # (a phase map is not a stack of identical rows)
    t = tensor if tensor is not None else _phase_tensor(ctx, arr32)
    m = tensorenv.relayout(torch, np.array(mask, dtype=bool), lay, lrng) if pass_mask else None
    out = iu.unwrap_phase_2d_torch(t, method=method, mask=m, wrap_around=wrap)
    if method == "reliability-sorting":
        f = dict(common or _fields(ctx))
        now = tensorenv.values(t)
        ctx.check(np.array_equal(now, arr32, equal_nan=True), "argument_modified", lambda: "unwrap_phase_2d_torch changed the caller's phase tensor in place (%d of %d samples, mask passed: %s)" % (int(np.sum(now != arr32)), arr32.size, pass_mask), function="unwrap_phase_2d_torch", argument="phi_wrapped", **f)
        if pass_mask:
            ctx.check(np.array_equal(tensorenv.values(m), mask), "argument_modified", "unwrap_phase_2d_torch changed the caller's mask in place", function="unwrap_phase_2d_torch", argument="mask", **f)
    return out


def _phase_tensor(ctx, arr):
    """the caller's phase tensor in this case's memory layout / dtype / grad setting."""
    lay = _env(ctx)["layout"]
    t = tensorenv.relayout(ctx.state["torch"], arr, "window" if lay == "expanded" else lay, ctx.state["_lrng"])
    return tensorenv.want_grad(t, _env(ctx)["state"])


def _check_output(ctx, out, shape, common):
    ok = ctx.check(tuple(out.shape) == tuple(shape), "shape_changed", "output shape %s for input %s" % (tuple(out.shape), tuple(shape)), **common)
    o = out.detach().cpu().numpy().astype(np.float64)
    return ok, o


def _run_itoh(spec, idx, ctx, unwrapped=False):
    rng = ctx.rng(idx)
    phi, mask, lab, n = _scene(rng, spec)
    H, W = phi.shape
    wrap = bool(spec["wrap"])
    src = phi if unwrapped else _wrap(phi)
    inp = _outside(rng, src, mask, int(rng.integers(0, 2)) if spec["mask"] != "none" else 2).astype(_in_dtype(ctx))
    pass_mask = spec["mask"] != "none" or rng.random() < 0.3
    common = {"family": spec["family"], "mask_class": spec["mask"], "wrap_around": wrap, "size_class": _size_class(H, W), "regions": _nreg_class(n), "input": "unwrapped" if unwrapped else "wrapped"}
    common.update(_fields(ctx))
    out_t = _call_unwrap(ctx, inp, mask, wrap, pass_mask=pass_mask, common=common)
    ok, out = _check_output(ctx, out_t, (H, W), common)
    if not ok:
        return
    ctx.check(bool(np.isfinite(out[mask]).all()), "non_finite_output", "non-finite values inside the mask", **common)
    bound = _bound(ctx, phi[mask], out[mask])
    what = "%dx%d %s mask=%s wrap_around=%s target=%.1f" % (H, W, spec["family"], spec["mask"], wrap, spec["target"])
    inp64 = inp.astype(np.float64)
    if unwrapped:
        # the smooth field itself: returned unchanged up to the single constant
        d = (out - inp64)[mask]
        worst = float(d.max() - d.min())
        ctx.close(worst / bound, 1.0, "unwrapped_input_changed", lambda: "%s: already-unwrapped input changed by a non-constant (spread %.4g rad, bound %.1e rad)" % (what, worst, bound), **common)
    else:
        worst = _judge_regions(ctx, "not_constant_on_region", out, phi, lab, n, bound, common, what)
    wint = _judge_integer(ctx, out, inp64, mask, bound, common, what)
    # non-trivial: some region's true field crosses a 2pi boundary (its wrap count is not constant)
    k = np.round(phi / (2 * np.pi))
    wraps = any(np.ptp(k[lab == r]) > 0 for r in range(n))
    structured = spec["mask"] == "none" or n >= 2 or has_hole(mask)
    ctx.nontrivial((spec["kind"], spec["family"], spec["mask"], wrap, _size_class(H, W)), wraps and structured)
    ctx.observe(shape=[H, W], regions=n, mask_pixels=int(mask.sum()), wraps=bool(wraps), range_rad=float(np.ptp(phi[mask])), worst_spread=worst, worst_integrality=wint, bound=bound, tree_depth=ctx.state.get("depth"))


def _run_any(spec, idx, ctx):
    rng = ctx.rng(idx)
    H, W = _shape(rng, spec["size"])
    mask = _mask(rng, spec["mask"], H, W)
    wrap = bool(spec["wrap"])
    y, x = np.mgrid[:H, :W].astype(np.float64)
    kind = spec["input"]
    if kind == "noise_pi":
        a = rng.uniform(-np.pi, np.pi, size=(H, W))
    elif kind == "noise_wide":
        a = rng.normal(size=(H, W)) * 10
    elif kind == "vortex":
        a = np.zeros((H, W))
        for _ in range(int(rng.integers(1, 4))):
            cy, cx = rng.uniform(0, H), rng.uniform(0, W)
            a += rng.choice([-1, 1]) * np.arctan2(y - cy + 1e-3, x - cx + 1e-3)
        a = _wrap(a)
    else:  # steep ramp: aliased, violates the premise
        a = _wrap(rng.uniform(3.3, 6.0) * x + rng.uniform(-6, 6) * y)
    inp = a.astype(_in_dtype(ctx))
    common = {"family": kind, "mask_class": spec["mask"], "wrap_around": wrap, "size_class": _size_class(H, W), "regions": "n/a", "input": "arbitrary"}
    common.update(_fields(ctx))
    out_t = _call_unwrap(ctx, inp, mask, wrap, pass_mask=spec["mask"] != "none", common=common)
    ok, out = _check_output(ctx, out_t, (H, W), common)
    if not ok:
        return
    ctx.check(bool(np.isfinite(out[mask]).all()), "non_finite_output", "non-finite values inside the mask", **common)
    bound = _bound(ctx, inp[mask], out[mask])
    wint = _judge_integer(ctx, out, inp.astype(np.float64), mask, bound, common, "%dx%d %s mask=%s wrap_around=%s" % (H, W, kind, spec["mask"], wrap))
    moved = bool(np.ptp((out - inp)[mask]) > 1.0) if mask.sum() > 1 else False
    ctx.nontrivial(("any", kind, spec["mask"], wrap, _size_class(H, W)), moved)
    ctx.observe(shape=[H, W], mask_pixels=int(mask.sum()), worst_integrality=wint, multiples_added=moved)


def _run_bf(spec, idx, ctx):
    torch, dpu = ctx.state["torch"], ctx.state["dpu"]
    rng = ctx.rng(idx)
    G = int(rng.integers(7, 13)) if spec["size"] == "small" else int(rng.integers(13, 27))
    H, W = G, int(G + rng.integers(-2, 3)) if rng.random() < 0.3 else G
    y, x = np.mgrid[:H, :W].astype(np.float64)
    # bright-field disc; sometimes shifted so that it is cut by / touches the borders (seam edges then matter)
    r = rng.uniform(0.3, 0.55) * min(H, W)
    cy, cx = (H - 1) / 2 + rng.normal() * 0.12 * H, (W - 1) / 2 + rng.normal() * 0.12 * W
    bf = ((y - cy) ** 2 + (x - cx) ** 2) <= r * r
    if spec["mask"] == "full":
        m = bf.copy()
    else:
        ang = rng.uniform(0, 2 * np.pi)
        sh = rng.uniform(0.3, 1.2) * r
        lens = ((y - cy - sh * np.sin(ang)) ** 2 + (x - cx - sh * np.cos(ang)) ** 2) <= r * r
        m = bf & lens
        if spec["mask"] == "two_lobes":
            lens2 = ((y - cy + sh * np.sin(ang)) ** 2 + (x - cx + sh * np.cos(ang)) ** 2) <= r * r
            m = bf & (lens ^ lens2) if rng.random() < 0.5 else bf & ~(lens & lens2)
        if spec["mask"] == "lens_holes":
            m &= rng.random((H, W)) < 0.85
    if not m.any():
        m = bf.copy()
    if not m.any():
        bf[H // 2, W // 2] = True
        m = bf.copy()
    kwargs = {} if spec["wrap"] == "default" else {"wrap_around": False}
    periodic = spec["wrap"] == "default"  # unwrap_phase_2d_torch defaults to wrap_around=True
    phi, m, lab, n = _scene(rng, spec, H=H, W=W, mask=m, periodic=periodic)
    amp = rng.uniform(0.1, 3.0, size=(H, W))
    phase_in = np.where(m, phi, rng.uniform(-np.pi, np.pi, size=(H, W)))
    data = (amp * np.exp(1j * phase_in))[bf].astype(np.complex64)
    common = {"family": spec["family"], "mask_class": spec["mask"], "wrap_around": "default" if periodic else False, "size_class": _size_class(H, W), "regions": _nreg_class(n), "two_pass": bool(spec["two_pass"])}
    common.update(_fields(ctx))
    lay = _env(ctx)["layout"]
    lay = "window" if lay == "expanded" else lay
    t_data = tensorenv.relayout(torch, data, lay, ctx.state["_lrng"])
    t_mask = tensorenv.relayout(torch, np.array(m[bf]), lay, ctx.state["_lrng"])
    t_bf = tensorenv.relayout(torch, bf, lay, ctx.state["_lrng"])
    out_t = dpu.unwrap_bf_overlap_phase_torch(t_data, t_mask, t_bf, two_pass=bool(spec["two_pass"]), **kwargs)
    for name, before, after in (("complex_data_bf", data, tensorenv.values(t_data)), ("mask_bf", m[bf], tensorenv.values(t_mask)), ("bf_mask", bf, tensorenv.values(t_bf))):
        ctx.check(np.array_equal(before, after), "argument_modified", "unwrap_bf_overlap_phase_torch changed its argument %s in place" % name, function="unwrap_bf_overlap_phase_torch", argument=name, **common)
    ok = ctx.check(tuple(out_t.shape) == (int(bf.sum()),), "shape_changed", "output shape %s, expected (%d,)" % (tuple(out_t.shape), int(bf.sum())), **common)
    if not ok:
        return
    out = np.zeros((H, W))
    out[bf] = out_t.detach().cpu().numpy().astype(np.float64)
    ctx.check(bool(np.isfinite(out[m]).all()), "non_finite_output", "non-finite values inside the mask", **common)
    bound = _bound(ctx, phi[m], out[m])
    what = "bf %dx%d %s mask=%s two_pass=%s wrap_around=%s" % (H, W, spec["family"], spec["mask"], spec["two_pass"], spec["wrap"])
    worst = _judge_regions(ctx, "bf_not_constant_on_region", out, phi, lab, n, bound, common, what)
    k = np.round(phi / (2 * np.pi))
    wraps = any(np.ptp(k[lab == r_]) > 0 for r_ in range(n))
    ctx.nontrivial(("bf", spec["family"], spec["mask"], spec["wrap"], bool(spec["two_pass"])), wraps)
    ctx.observe(shape=[H, W], bf_pixels=int(bf.sum()), mask_pixels=int(m.sum()), regions=n, wraps=bool(wraps), worst_spread=worst, bound=bound, tree_depth=ctx.state.get("depth"))


def _run_reuse(spec, idx, ctx):
    """One caller-owned wrapped tensor, several calls: sub-mask, another sub-mask, no mask, other wrap_around.
    The field is Itoh-smooth along every edge of the full (periodic if spec.wrap) grid, so every call is in the domain."""
    torch = ctx.state["torch"]
    rng = ctx.rng(idx)
    phi, full, _, _ = _scene(rng, spec)  # mask class "none": the whole grid, one region, one offset
    H, W = phi.shape
    w0 = bool(spec["wrap"])
    inp = _wrap(phi).astype(_in_dtype(ctx))
    tensor = _phase_tensor(ctx, inp)  # the caller's tensor, never re-created below
    calls = []
    for k in range(int(rng.integers(2, 4))):
        cls = ["blob", "holes", "multi", "singles", "diagonal", "serpentine", "spiral"][int(rng.integers(7))]
        calls.append((cls, _mask(rng, cls, H, W), True, w0 and bool(rng.random() < 0.5)))
    calls.append(("none", full, bool(rng.random() < 0.5), w0 and bool(rng.random() < 0.7)))  # finally the whole field
    worst = 0.0
    for k, (cls, mask, pass_mask, wrap) in enumerate(calls):
        lab, n = label_regions(mask, wrap)
        common = {"family": spec["family"], "mask_class": cls, "wrap_around": wrap, "size_class": _size_class(H, W), "regions": _nreg_class(n), "input": "wrapped", "call": "first" if k == 0 else "reused_tensor"}
        common.update(_fields(ctx))
        out_t = _call_unwrap(ctx, inp, mask, wrap, pass_mask=pass_mask, tensor=tensor, common=common)
        ok, out = _check_output(ctx, out_t, (H, W), common)
        if not ok:
            return
        bound = _bound(ctx, phi[mask], out[mask])
        what = "%dx%d %s call %d of %d on the same tensor, mask=%s wrap_around=%s target=%.1f" % (H, W, spec["family"], k + 1, len(calls), cls, wrap, spec["target"])
        worst = max(worst, _judge_regions(ctx, "not_constant_on_region", out, phi, lab, n, bound, common, what))
        _judge_integer(ctx, out, inp.astype(np.float64), mask, bound, common, what)
    wraps = bool(np.ptp(np.round(phi / (2 * np.pi))) > 0)
    ctx.nontrivial(("reuse", spec["family"], w0, _size_class(H, W)), wraps)
    ctx.observe(shape=[H, W], calls=[c[0] for c in calls], wraps=wraps, worst_spread=worst, tree_depth=ctx.state.get("depth"))


def _run_poisson(spec, idx, ctx):
    """Outside the exactness claim: executed on periodic fields, deviation recorded, nothing judged."""
    rng = ctx.rng(idx)
    s = dict(spec, wrap=True)
    phi, mask, lab, n = _scene(rng, s)
    H, W = phi.shape
    inp = _wrap(phi).astype(np.float32)
    try:
        out_t = _call_unwrap(ctx, inp, mask, True, method="poisson", pass_mask=spec["mask"] != "none")
        out = out_t.detach().cpu().numpy().astype(np.float64)
        dev = (out - phi)[mask]
        ctx.count("recorded:poisson_runs")
        ctx.observe(shape=[H, W], poisson_max_deviation_after_mean_removal=float(np.max(np.abs(dev - dev.mean()))), poisson_zero_outside_mask=bool(np.all(out[~mask] == 0)))
    except Exception as e:  # noqa: BLE001  (recorded, not judged)
        ctx.count("recorded:poisson_raised")
        ctx.observe(poisson_exception=repr(e)[:200])
    ctx.nontrivial(("poisson", spec["family"], spec["mask"]), False)


def run_case(spec, idx, ctx):
    k = spec["kind"]
    ctx.state["depth"] = 0
    erng = ctx.rng(idx, 7)
    state = tensorenv.pick_state(erng, 0.65) if k != "poisson" else "default"
    layout = tensorenv.pick_layout(erng, 0.6, allow_expanded=False) if k != "poisson" else "contiguous"
    # float64 phase maps: always interesting under a float64 default (judged at float64 precision), occasionally otherwise
    r = erng.random()
    in64 = (state == "float64_default" and r < 0.85) or (state != "float64_default" and r < 0.08)
    ctx.state["_env"] = {"state": state, "layout": layout, "input_dtype": "float64" if in64 and k != "bf" else "float32"}
    ctx.state["_lrng"] = ctx.rng(idx, 8)
    ctx.count("state:" + state)
    ctx.count("layout:" + layout)
    ctx.count("input_dtype:" + ctx.state["_env"]["input_dtype"])
    with tensorenv.global_state(ctx.state["torch"], state):
        if k == "itoh":
            _run_itoh(spec, idx, ctx)
        elif k == "unwrapped":
            _run_itoh(spec, idx, ctx, unwrapped=True)
        elif k == "any":
            _run_any(spec, idx, ctx)
        elif k == "bf":
            _run_bf(spec, idx, ctx)
        elif k == "reuse":
            _run_reuse(spec, idx, ctx)
        else:
            _run_poisson(spec, idx, ctx)


def summarize(all_cases, counters, extras):
    dev = [c["obs"].get("poisson_max_deviation_after_mean_removal") for c in all_cases if "poisson_max_deviation_after_mean_removal" in c["obs"]]
    hist = {}
    for c in all_cases:
        d = c["obs"].get("tree_depth")
        if d is not None:
            hist[str(d)] = hist.get(str(d), 0) + 1
    return {
        "union_find_max_tree_depth_per_case_histogram": dict(sorted(hist.items(), key=lambda kv: int(kv[0]))),
        "poisson_recorded_not_judged": {"runs": len(dev), "max_deviation_rad": max(dev) if dev else None, "median_deviation_rad": float(np.median(dev)) if dev else None},
        "cases_with_wraps": sum(1 for c in all_cases if c["obs"].get("wraps")),
        "max_regions_in_a_case": max([c["obs"].get("regions", 0) or 0 for c in all_cases] + [0]),
    }
