"""C08 - failed saves leave no loadable partial object; write-once never overwrites.

Fault enumeration over real ``AutoSerialize.save`` executions:
  * ``line``    InjectedFault raised out of the k-th executed line event of quantem/core/io/*.py
                (vf/failpoint.LineFailpoints, sys.monitoring) - every statement boundary of the save,
  * ``io``      OSError raised by the j-th call of an I/O primitive (ZipFile.__init__/write/close, zarr
                create_array / require_group / attrs / array assignment, makedirs, mkdtemp, rmtree, remove),
  * ``natural`` an un-storable member (object-dtype array, generator, object refusing to be pickled)
                first / middle / last / nested / inside a list.
Oracle: filesystem snapshots (names, sizes, sha1) of the sandbox and of the staging directory before
and after, plus ``load(target)`` and ``deq`` against the object a clean save of the same graph loads to.

What counts as acceptable after a save() that raised (the property's "absent or unreadable, or still
loads to a complete object written by an earlier successful save"):
  absent            the target does not exist (also when an overwrite-mode save had already removed the old target),
  unchanged         the target is byte-for-byte what it was before the call (old complete object or old garbage),
  unreadable        load(target) raises,
  earlier_complete  load(target) is deq-equal to the object the pre-existing complete target loaded to,
  complete_new      load(target) is deq-equal to the complete new object (fault after the last write).
Anything else that loads is ``partial_target_loadable``.  With mode='w' and an existing target the call
must raise (FileExistsError unless our fault fired first) and the target's tree hash must not change.
Every call, failed or not, must leave every path other than the target unchanged.  The *target* is what
save() finally writes (``<path>.zip`` when store='zip' is given with an extension-less path), not the path as
typed; the typed-path cases keep entries at both spellings and judge successful saves as well.

Decoy neighbours: a staging / backup / lock name an implementation picks next to the target (``<target>.part``,
``<target>.tmp``, ``.<target>``, ``<target>~`` ...) or inside tempfile.tempdir may already be in use by the user.
A fraction of all cases and a few dedicated ones populate the sandbox directory and the staging directory with
files, directories (empty and not) and symbolic links under such names *before* the save; they are part of the
"other paths" snapshot, so a save that truncates, renames, deletes or writes through one of them is seen.
"""
from __future__ import annotations

import hashlib
import os
import shutil
import tempfile
import warnings

PROPERTY = "C08"
LEVEL = "fault_enumeration"
ANCHOR_FILES = ["quantem/core/io/serialize.py"]
RULE = (
    "graph family (flat, nested, torch members, containers of objects, many small attributes, arrays; thorough: + seeded random graphs) x store "
    "{zip,dir} x (mode, pre-existing target) in {(w,none),(o,none),(o,complete object of another class),(o,garbage file),(o,garbage dir)} x "
    "fault position x exception class {InjectedFault/OSError (Exception), InjectedAbort/KeyboardInterrupt/SystemExit (BaseException only)}: line faults "
    "k = 1..K of the save (quick: every 7th k for Exception-class and every 21st for BaseException-class faults, per-configuration offset; thorough: "
    "every k for both), I/O-call faults j = 1..J for each of 11 primitives (quick: all j for (w,none) and (o,complete), every 4th otherwise, "
    "BaseException-class every 3rd on the write primitives; thorough: all for both), natural failures (3 un-storable kinds x 5 positions), mode='w' "
    "onto each kind of existing target with every k up to the FileExistsError, and typed-path cases: store='zip' with an extension-less path / "
    "store='auto' x mode x pre-existing real target x an unrelated file or complete object of the other store at the other spelling of the name, "
    "judged on the fault-free save and on sampled line faults. Widening: graphs with sub-objects shared by several paths, arrays / tensors in non-contiguous, read-only and "
    "expanded layouts, 60 attributes + a 25-item list, 20 nesting levels (sparser positions); save options (compression None/0/9 x skip list with a name and a type) crossed with line faults; "
    "neutral calls (load / print_file of an unrelated complete object) between the injections of every 5th case. "
    "Decoy neighbours: pre-existing files / directories / symlinks named like staging, backup or lock paths of the target (T.part, T.tmp, T.temp, T.bak, T.old, T.new, "
    "T.lock, T~, .T, .T.tmp, T.partial, T.swp, both spellings of the name with these suffixes, tmp*, ...) in the target's directory and in tempfile.tempdir, in 4 flavours "
    "(all files, all directories, two mixed rotations incl. symlinks): on every natural / write-once / typed case, every 3rd line / io case (seed-rotated), plus dedicated "
    "line and io cases store x (mode, pre) x flavour; judged by the same snapshot oracle on fault-free and faulted saves. "
    "One case = one residue class of fault positions of one configuration (K/J are discovered by injecting until the save completes). "
    "non-trivial = a fault fired after >=1 store write and before the last one; distinct = (graph, store, mode, pre, fault class, residue)"
)
ASSUMPTIONS = [
    "faults are exceptions raised between serializer statements or by an I/O primitive instead of doing its work; process kills / power loss / torn writes inside one primitive are not modelled",
    "after a failed overwrite-mode save the old target may be gone (the property lists 'absent'); an unchanged pre-existing target counts as 'earlier complete object' (complete) or 'unreadable' (garbage)",
    "the complete new object is the one a fault-free save of the same graph and store loads to (deq strict, rng/logger by kind), so C01's relaxations cancel",
    "staging happens under tempfile.tempdir, which the check points at a private directory that is part of the snapshot",
    "rmtree / remove faults are injected only for calls made by serializer code (not for TemporaryDirectory's own clean-up)",
]
BUDGET = {"quick": {"soft_s": 300}, "thorough": {"soft_s": 1200}}
MIN_EVALUATIONS = {"quick": 250, "thorough": 300}  # (thorough cases are whole fault sweeps of 10..100 s each; under load fewer of them fit into the budget, the evidence lists the skipped ones)
REQUIRED_COUNTERS = ["eval:target_state_after_failed_save", "eval:other_paths_unchanged", "eval:write_once_target_unchanged", "injected:line", "injected:io", "injected:natural",
                     "injected:base_exception", "typed_path_fault_free_saves"]
# thorough: every k and every j of every configuration of the graphs used (see plan); a time-budget skip clears the flag in the driver
EXHAUSTIVE = {"quick": False, "thorough": True}

STORES = ["zip", "dir"]
CONFIGS = [("w", "none"), ("o", "none"), ("o", "complete"), ("o", "garbage_file"), ("o", "garbage_dir")]
WRITE_ONCE_PRE = ["complete", "garbage_file", "garbage_dir"]
IO_LABELS = {
    "zip": ["tempfile.mkdtemp", "Group.create_array", "Group.require_group", "Attributes.__setitem__", "Array.__setitem__", "ZipFile.__init__", "ZipFile.write", "ZipFile.close", "shutil.rmtree", "os.remove"],
    "dir": ["os.makedirs", "Group.create_array", "Group.require_group", "Attributes.__setitem__", "Array.__setitem__", "shutil.rmtree", "os.remove"],
}
BUSY_LABELS = ("Attributes.__setitem__", "ZipFile.write")
BAD_KINDS = ["object_array", "generator", "unpicklable"]
BAD_POSITIONS = ["first", "middle", "last", "nested", "in_list"]
N_GRAPHS = {"quick": 6, "thorough": 7}
TYPED_GRAPHS = {"quick": 1, "thorough": 3}
# variant -> (real store, store argument, typed name); the real target is always target.zip (zip) / target (dir)
TYPED_VARIANTS = {"zip_noext": ("zip", "zip", "target"), "auto_zip": ("zip", "auto", "target.zip"), "auto_dir": ("dir", "auto", "target")}
BASE_EXCS = ["abort", "keyboard", "exit"]
# (compression_level, skip) passed to save(); the reference object is saved with the same options
SAVE_OPTIONS = [(None, ()), (9, ("s", "child")), (0, ("nums", "__ndarray__")), (None, ("i", "__str__")), (9, ())]  # InjectedAbort(BaseException), KeyboardInterrupt, SystemExit
DECOY_FLAVOURS = ["files", "dirs", "mixed0", "mixed1"]
# suffixes / patterns an implementation might plausibly use for staging, backup or locking; {T} = target name, {B} = name without '.zip'
DECOY_PATTERNS = ["{T}.part", "{T}.tmp", "{T}.temp", "{T}.bak", "{T}.old", "{T}.new", "{T}.lock", "{T}~", ".{T}", ".{T}.tmp", "{T}.partial", ".{T}.part", "{T}.swp", ".{T}.swp",
                  "{T}.orig", "{T}.backup", "{T}.save", "{T}.incomplete", "{T}.download", "{T}.writing", "{T}-tmp", "{T}_tmp", "{T}.tmp.zip", "{T}.0", "{T}.1", "#{T}#", "~{T}", "{T}.zip", "{T}.zarr",
                  "{B}.zip.part", "{B}.zip.tmp", "{B}.zip.bak", "{B}.zip~", ".{B}.zip", ".{B}.zip.tmp", "{B}.part", "{B}.tmp", "{B}.bak", "{B}~", ".{B}", "{B}.zarr", "{B}_tmp", "{B}.tmp.zip", "{B}.part.zip",
                  "tmp", "temp", ".tmp", "tmpdecoy", "tmp_decoy_of_the_user", "tmp.zip", "temp.zip", "tmpdir", "staging", "stage", ".lock", "lock", "part", ".part"]
# the same inside tempfile.tempdir (mkdtemp names are 'tmp' + 8 characters: none of these can collide with one)
STAGE_DECOY_PATTERNS = ["{T}", "{B}", "{T}.part", "{T}.tmp", "{B}.tmp", "tmp", "temp", "tmpdecoy", "tmp_decoy_of_the_user", "quantem", "quantem_tmp", "quantem-save", "zarr", "zarr_tmp", "stage", "staging",
                        "store", "store.zarr", "{B}.zarr", "save", "autoserialize", ".lock"]
WRITE_LABELS = ("Group.create_array", "Group.require_group", "Attributes.__setitem__", "Array.__setitem__", "ZipFile.write")


def plan(tier, seed):
    specs = []
    # cheap, always-run families first: natural failures and write-once onto existing targets
    for store in STORES:
        for mode, pre in (("w", "none"), ("o", "complete")):
            for kind in BAD_KINDS:
                for pos in BAD_POSITIONS:
                    specs.append({"fault": "natural", "bad": kind, "position": pos, "store": store, "mode": mode, "pre": pre, "_must_run": True})
    ng = N_GRAPHS[tier]
    for gi in range(ng):
        for store in STORES:
            for pre in WRITE_ONCE_PRE:
                specs.append({"fault": "write_once", "graph": gi, "store": store, "mode": "w", "pre": pre, "_must_run": True})
    # the path as typed differs from the real target (store='zip' without extension) or the store is inferred (store='auto'):
    # fault-free saves and a sample of line faults, with entries at both spellings of the name
    tstride = 23 if tier == "quick" else 3
    ti = 0
    for gi in range(TYPED_GRAPHS[tier]):
        for variant in TYPED_VARIANTS:
            for mode in ("w", "o"):
                for pre in ("none", "complete", "garbage_file", "garbage_dir"):
                    for sib in (("none", "file", "object") if variant == "zip_noext" else ("default", "object")):
                        ti += 1
                        specs.append({"fault": "typed", "graph": gi, "variant": variant, "store": TYPED_VARIANTS[variant][0], "mode": mode, "pre": pre, "sibling": sib,
                                      "stride": tstride, "offset": (ti + seed) % tstride, "residue": 0, "nres": 1, "exc": "exception" if ti % 3 else "base", "_must_run": tier == "quick"})
    # widening: graphs with shared sub-objects / exotic memory layouts / 150 attributes / 30 levels (sparser fault positions),
    # and save options crossed with the faults (compression None / 0 / 9, a skip list with a name and a type)
    xs, xio = (61, 17) if tier == "quick" else (7, 2)
    xi = 0
    for gi in (100, 101, 102, 103):
        for store in STORES:
            for mode, pre in (("w", "none"), ("o", "complete")):
                xi += 1
                exc = "exception" if xi % 2 else "base"
                specs.append({"fault": "line", "exc": exc, "graph": gi, "store": store, "mode": mode, "pre": pre, "stride": xs, "offset": (xi + seed) % xs, "residue": 0, "nres": 1})
                specs.append({"fault": "io", "exc": exc, "labels": IO_LABELS[store], "graph": gi, "store": store, "mode": mode, "pre": pre, "stride": xio, "offset": (xi + seed) % xio, "residue": 0, "nres": 1})
    os_ = 19 if tier == "quick" else 3
    for store in STORES:
        for oi, opts in enumerate(SAVE_OPTIONS):
            for gi in ((0,) if tier == "quick" else (0, 1, 3)):
                xi += 1
                specs.append({"fault": "line", "exc": "exception" if xi % 3 else "base", "graph": gi, "store": store, "mode": "o" if oi % 2 else "w", "pre": "complete" if oi % 2 else "none",
                              "stride": os_, "offset": (xi + seed) % os_, "residue": 0, "nres": 1, "opts": oi})
    # dedicated decoy-neighbour cases: every store x (mode, pre) with each flavour over the seeds, a fault-free save plus sampled line faults,
    # and I/O faults on every primitive (the zip assembly and the clean-up calls are where staging names are used)
    ds, dio = (13, 3) if tier == "quick" else (5, 2)
    for gi in (0,):
        for store in STORES:
            for mode, pre in CONFIGS:
                for fl in (range(1) if tier == "quick" else range(len(DECOY_FLAVOURS))):
                    xi += 1
                    flav = DECOY_FLAVOURS[(xi + seed + fl) % len(DECOY_FLAVOURS)]
                    exc = "exception" if (xi + fl) % 3 else "base"
                    specs.append({"fault": "line", "exc": exc, "graph": gi, "store": store, "mode": mode, "pre": pre, "stride": ds, "offset": (xi + seed) % ds, "residue": 0, "nres": 1, "decoys": flav,
                                  "_must_run": tier == "quick"})
                    flav = DECOY_FLAVOURS[(xi + seed + fl + 1) % len(DECOY_FLAVOURS)]
                    specs.append({"fault": "io", "exc": exc, "labels": IO_LABELS[store], "graph": gi, "store": store, "mode": mode, "pre": pre, "stride": dio, "offset": (xi + seed) % dio, "residue": 0, "nres": 1,
                                  "decoys": flav, "_must_run": tier == "quick"})
    ci = 0
    for gi in range(ng):
        for store in STORES:
            for mode, pre in CONFIGS:
                ci += 1
                two = (mode, pre) in (("w", "none"), ("o", "complete"))
                for exc in ("exception", "base"):
                    # quick: Exception-class faults at every 7th k, BaseException-class faults at every 21st; thorough: every k for both
                    stride = (7 if exc == "exception" else 21) if tier == "quick" else 1
                    nres = (3 if exc == "exception" else 1) if tier == "quick" else 12
                    for r in range(nres):
                        specs.append({"fault": "line", "exc": exc, "graph": gi, "store": store, "mode": mode, "pre": pre, "stride": stride, "offset": (ci + seed) % stride, "residue": r, "nres": nres})
                    # I/O-call faults: all (primitive, j) pairs of the configuration, J per primitive read off a fault-free dry run
                    if tier == "quick":
                        if exc == "base" and not two:
                            continue
                        st = (1 if two else 4) if exc == "exception" else 3
                        nr = 3 if st == 1 else 1
                    else:
                        st, nr = 1, 4
                    for r in range(nr):
                        specs.append({"fault": "io", "exc": exc, "labels": IO_LABELS[store], "graph": gi, "store": store, "mode": mode, "pre": pre, "stride": st, "offset": (ci + seed) % st, "residue": r, "nres": nr})
    # decoy neighbours on a fraction of the cases above: every natural / write-once / typed case (cheap: few saves each), every 3rd of the rest
    nd = seed
    for i, sp in enumerate(specs):
        if "decoys" in sp:
            continue
        if sp["fault"] in ("natural", "write_once", "typed") or (i + seed) % 3 == 0:
            nd += 1
            sp["decoys"] = DECOY_FLAVOURS[(nd + nd // 4) % len(DECOY_FLAVOURS)]
    return specs


def setup(ctx):
    warnings.simplefilter("ignore")
    import quantem
    from quantem.core.io import load

    from vf import deq, failpoint, sergraph

    iodir = os.path.join(os.path.dirname(os.path.realpath(quantem.__file__)), "core", "io")
    lf = failpoint.LineFailpoints(iodir).install()
    cf = failpoint.CallFaults(iodir).install()
    for m in cf.missing:
        ctx.hooks_missing.append("failpoint:" + m)
    ctx.state.update(load=load, sg=sergraph, deq=deq, fp=failpoint, lf=lf, cf=cf, refs={}, templates={}, olds={}, graphs={})
    ctx.state["evidence_extra"] = {"armed_functions": lf.functions(), "fired_functions": {}, "K": {}, "J": {}}
    os.makedirs(os.path.join(ctx.tmp, "c08"), exist_ok=True)


def teardown(ctx):
    ctx.state["lf"].uninstall()
    ctx.state["cf"].uninstall()


# ------------------------------------------------------------------------------------------------
# filesystem helpers


def _sha(path):
    h = hashlib.sha1()
    with open(path, "rb") as f:
        for blk in iter(lambda: f.read(1 << 16), b""):
            h.update(blk)
    return h.hexdigest()[:16]


def snapshot(root, exclude=None):
    """{relative path: ('d',) | ('f', size, sha1) | ('l', target)} of everything under root except `exclude`."""
    out = {}
    if not os.path.lexists(root):
        return out
    if not os.path.isdir(root) or os.path.islink(root):
        out["."] = ("l", os.readlink(root)) if os.path.islink(root) else ("f", os.path.getsize(root), _sha(root))
        return out
    ex = os.path.abspath(exclude) if exclude else None
    for dp, dns, fns in os.walk(root):
        if ex:
            dns[:] = [d for d in dns if os.path.abspath(os.path.join(dp, d)) != ex]
        for d in dns:
            out[os.path.relpath(os.path.join(dp, d), root)] = ("d",)
        for fn in fns:
            p = os.path.join(dp, fn)
            if ex and os.path.abspath(p) == ex:
                continue
            try:
                out[os.path.relpath(p, root)] = ("l", os.readlink(p)) if os.path.islink(p) else ("f", os.path.getsize(p), _sha(p))
            except OSError as e:  # vanished between walk and stat
                out[os.path.relpath(p, root)] = ("?", repr(e))
    return out


def tree(path):
    if not os.path.lexists(path):
        return None
    return ("file" if os.path.isfile(path) else "dir", tuple(sorted(snapshot(path).items())))


def _remove(path):
    if os.path.isdir(path) and not os.path.islink(path):
        shutil.rmtree(path)
    elif os.path.lexists(path):
        os.remove(path)


def _target_name(store):
    return "target.zip" if store == "zip" else "target"


def _template(ctx, store, pre):
    """a pre-existing target of the given kind, built once per worker and copied into each sandbox."""
    key = (store, pre)
    t = ctx.state["templates"].get(key)
    if t is not None:
        return t
    sg = ctx.state["sg"]
    d = os.path.join(ctx.tmp, "c08", "templates", store + "_" + pre)
    shutil.rmtree(d, ignore_errors=True)
    os.makedirs(d)
    p = os.path.join(d, _target_name(store))
    if pre == "complete":
        import numpy as np

        old = sg.Other()
        old.stale = [1, 2, 3]
        old.x = "old object"
        old.arr = np.arange(12, dtype=np.int32).reshape(3, 4)
        old.child = sg.make_leaf(np.random.default_rng(5))
        old.save(p, mode="w", store=store)
        ctx.state["olds"][store] = ctx.state["load"](p)
    elif pre == "garbage_file":
        with open(p, "wb") as f:
            f.write(b"this is not a zarr store nor a zip archive\x00\x01\x02" * 7)
    elif pre == "garbage_dir":
        os.makedirs(os.path.join(p, "junk", "deeper"))
        with open(os.path.join(p, "junk.txt"), "w") as f:
            f.write("junk")
        with open(os.path.join(p, "junk", "deeper", "x.bin"), "wb") as f:
            f.write(b"\x00" * 33)
    ctx.state["templates"][key] = p
    return p


def _place_pre(ctx, store, pre, target):
    _remove(target)
    if pre == "none":
        return
    src = _template(ctx, store, pre)
    if os.path.isdir(src):
        shutil.copytree(src, target)
    else:
        shutil.copy2(src, target)


class Sandbox:
    """base/sb holds the target and its siblings, base/stage is tempfile.tempdir while the case runs."""

    def __init__(self, ctx, idx, store, sibling="default", decoys=None):
        self.base = os.path.join(ctx.tmp, "c08", "case%d" % idx)
        shutil.rmtree(self.base, ignore_errors=True)
        self.sb = os.path.join(self.base, "sb")
        self.stage = os.path.join(self.base, "stage")
        os.makedirs(self.sb)
        os.makedirs(self.stage)
        self.target = os.path.join(self.sb, _target_name(store))
        # siblings, some with names derived from the target's
        with open(os.path.join(self.sb, "sibling.txt"), "w") as f:
            f.write("sibling")
        os.makedirs(os.path.join(self.sb, "sibdir"))
        with open(os.path.join(self.sb, "sibdir", "inner.bin"), "wb") as f:
            f.write(b"\x01\x02\x03")
        with open(self.target + ".bak", "w") as f:
            f.write("backup")
        other = os.path.join(self.sb, "target" if store == "zip" else "target.zip")  # the other store's spelling of the name
        self.other = other
        if sibling == "default":
            if store == "zip":
                os.makedirs(other)
                with open(os.path.join(other, "zarr.json"), "w") as f:
                    f.write("{}")
            else:
                with open(other, "wb") as f:
                    f.write(b"PK not really")
        elif sibling == "file":
            with open(other, "wb") as f:
                f.write(b"an unrelated file that happens to share the base name")
        elif sibling == "object":
            # a complete object saved with the *other* store under the same base name
            src = _template(ctx, "dir" if store == "zip" else "zip", "complete")
            if os.path.isdir(src):
                shutil.copytree(src, other)
            else:
                shutil.copy2(src, other)
        self.decoys = []
        if decoys:
            self._plan_decoys(store, decoys)
            self.place_decoys()
        self._old_tmp = tempfile.tempdir
        tempfile.tempdir = self.stage

    def _plan_decoys(self, store, flavour):
        """[(path, kind)]: names a save might plausibly use for staging / backup / locking, next to the target and in tempfile.tempdir.
        Never the target, the other spelling of its name (the typed-path cases decide what lives there) or an entry that exists already."""
        T = os.path.basename(self.target)
        B = T[:-4] if T.endswith(".zip") else T
        rot = {"files": None, "dirs": None, "mixed0": 0, "mixed1": 1}[flavour]
        seen = set()
        n = 0
        for root, pats in ((self.sb, DECOY_PATTERNS), (self.stage, STAGE_DECOY_PATTERNS)):
            for pat in pats:
                p = os.path.join(root, pat.format(T=T, B=B))
                if p in seen or p in (self.target, self.other) or os.path.lexists(p):
                    continue
                seen.add(p)
                n += 1
                if flavour == "files":
                    kind = "file"
                elif flavour == "dirs":
                    kind = "dir" if n % 3 else "emptydir"
                else:
                    # the two rotations are complementary: a file in one is a directory in the other
                    kind = (("file", "dir", "link", "file", "emptydir", "dir"), ("dir", "file", "emptydir", "dir", "file", "link"))[rot][n % 6]
                self.decoys.append((p, kind))

    def place_decoys(self):
        """(re)create every decoy; also used to put them back after a violation so that the next injection starts clean."""
        for i, (p, kind) in enumerate(self.decoys):
            _remove(p)
            if kind == "file":
                with open(p, "wb") as f:
                    f.write(b"user data that merely lives next to the target %d " % i * (1 + i % 5))
            elif kind == "link":
                os.symlink(os.path.join(self.sb, "sibdir", "inner.bin"), p)
            else:
                os.makedirs(p)
                if kind == "dir":
                    with open(os.path.join(p, "user.dat"), "wb") as f:
                        f.write(b"inside a user directory %d" % i)

    def others(self):
        return snapshot(self.base, exclude=self.target)

    def close(self):
        tempfile.tempdir = self._old_tmp
        shutil.rmtree(self.base, ignore_errors=True)


# ------------------------------------------------------------------------------------------------
# reference objects


def _graph(ctx, gi):
    g = ctx.state["graphs"].get(gi)
    if g is None:
        g = ctx.state["graphs"][gi] = ctx.state["sg"].fault_graph(gi, ctx.seed)
    return g


def _reference(ctx, key, g, store, save_kwargs=None):
    """what a fault-free save of g loads to (None if g cannot be saved at all)."""
    refs = ctx.state["refs"]
    if key in refs:
        return refs[key]
    d = os.path.join(ctx.tmp, "c08", "refs")
    os.makedirs(d, exist_ok=True)
    p = os.path.join(d, "ref_%s_%s" % (abs(hash(key)), _target_name(store)))
    _remove(p)
    try:
        g.save(p, mode="w", store=store, **(save_kwargs or {}))
        refs[key] = ctx.state["load"](p)
    except Exception:  # noqa: BLE001
        refs[key] = None
    finally:
        _remove(p)
    return refs[key]


# ------------------------------------------------------------------------------------------------
# one injection


def _phase(fired_fn):
    if fired_fn is None:
        return "none"
    fn = fired_fn.split(".")[-1]
    if fn in ("_recursive_save", "_serialize_value", "_serialize_container", "_write_ndarray", "_write_bytes", "_is_numeric_scalar", "_is_autoserialize_instance", "write_skip_metadata"):
        return "attribute_writes"
    if fn == "save":
        return "save_body"
    return fn


def _save_kwargs(opts):
    import numpy as np

    if opts is None:
        return {}
    comp, skip = SAVE_OPTIONS[opts]
    return {"compression_level": comp, "skip": [{"__ndarray__": np.ndarray, "__str__": str}.get(s, s) for s in skip]}


def attempt(ctx, sbx, g, gkey, store, mode, pre, arm, fault_class, fields, save_path=None, store_arg=None, opts=None):
    """run one save() under an armed fault and judge the state it leaves.  Returns a small record.
    save_path / store_arg: what is passed to save() when that differs from the real target / real store."""
    lf, cf, dq, load = ctx.state["lf"], ctx.state["cf"], ctx.state["deq"], ctx.state["load"]
    target = sbx.target
    _place_pre(ctx, store, pre, target)
    if ctx.state.get("neutral"):
        # neutral calls between the steps of the history: loading / printing an unrelated complete object
        import contextlib
        import io

        from quantem.core.io import print_file

        tpl = _template(ctx, store, "complete")
        with contextlib.redirect_stdout(io.StringIO()):
            load(tpl)
            print_file(tpl, depth=1)
    before_others = sbx.others()
    before_target = tree(target)
    arm()
    raised = None
    try:
        g.save(target if save_path is None else save_path, mode=mode, store=store if store_arg is None else store_arg, **_save_kwargs(opts))
    except BaseException as e:  # noqa: BLE001
        raised = e
    finally:
        n_lines = lf.disarm()
        counts = cf.disarm()
    fired = lf.fired or cf.fired
    if raised is not None and isinstance(raised, (KeyboardInterrupt, SystemExit)) and not fired:
        raise raised  # a real interrupt, not one of ours
    fired_fn = lf.fired[1] if lf.fired else (cf.fired[0] if cf.fired else None)
    writes_before = sum(counts.get(w, 0) for w in WRITE_LABELS) - (1 if cf.fired and cf.fired[0] in WRITE_LABELS else 0)
    rec = {"fired": bool(fired), "raised": type(raised).__name__ if raised is not None else None, "lines": n_lines, "writes": writes_before, "outcome": None, "fired_fn": fired_fn, "counts": counts}
    f = dict(fields, store=store, mode=mode, pre=pre, fault_class=fault_class, phase=_phase(lf.fired[1]) if lf.fired else (cf.fired[0] if cf.fired else ("natural" if raised is not None else "none")))
    if fired_fn:
        ff = ctx.state["evidence_extra"]["fired_functions"]
        ff[fired_fn] = ff.get(fired_fn, 0) + 1

    # (a) nothing but the target may change, whether the save failed or not
    after_others = sbx.others()
    if after_others != before_others:
        changed = sorted(set(k for k in set(before_others) | set(after_others) if before_others.get(k) != after_others.get(k)))
        which = "staging_leak" if all(c.startswith("stage") for c in changed) else "sibling_changed"
        ctx.check(False, "other_paths_unchanged", "paths other than the target changed: %s" % changed[:6], which=which, save_raised=raised is not None,
                  **dict(f, decoys=fields.get("decoys", "none"), decoy_changed=any(os.path.join(sbx.base, c) == p or os.path.join(sbx.base, c).startswith(p + os.sep) for c in changed for p, _ in sbx.decoys)))
        # put the sandbox back so the next injection starts clean
        for c in changed:
            if c.startswith("stage"):
                _remove(os.path.join(sbx.base, c))
        if sbx.decoys:
            if os.path.isdir(sbx.sb) and os.path.isdir(sbx.stage):
                with open(os.path.join(sbx.sb, "sibdir", "inner.bin"), "wb") as fh:  # a write through a decoy link lands here
                    fh.write(b"\x01\x02\x03")
                sbx.place_decoys()
    else:
        ctx.check(True, "other_paths_unchanged")

    after_target = tree(target)
    # (b) write-once
    if mode == "w" and pre != "none":
        ok_exc = raised is not None and (isinstance(raised, FileExistsError) or fired)
        ctx.check(ok_exc, "write_once_raises", lambda: "mode='w' onto an existing %s: save %s" % (pre, "returned normally" if raised is None else "raised %r" % (raised,)), **f)
        ctx.check(after_target == before_target, "write_once_target_unchanged", lambda: "mode='w' changed the existing target (%s): %s" % (pre, _tree_delta(before_target, after_target)), **f)
        rec["outcome"] = "write_once:" + ("unchanged" if after_target == before_target else "MODIFIED")
        return rec

    # a graph with an un-storable member has no complete new object at all
    ref = _reference(ctx, (gkey, opts) if opts is not None else gkey, g, store, _save_kwargs(opts)) if fault_class != "natural" else None
    if raised is None:
        # (c) the save completed (fault position beyond the end, or swallowed): the target must be the complete object
        if fired:
            ctx.count("fault_swallowed")
        try:
            got = load(target)
            d = dq.deq(ref, got, "loaded") if ref is not None else None
            ctx.check(d is None, "completed_save_loads_complete", lambda: "save returned normally but load(target) differs from a fault-free save: %s" % d, **f)
        except Exception as e:  # noqa: BLE001
            ctx.check(False, "completed_save_loads_complete", "save returned normally but load(target) raised %r" % (e,), **f)
        rec["outcome"] = "completed"
        return rec

    # (d) the save raised: absent / unchanged / unreadable / earlier complete / complete new
    if after_target is None:
        outcome = "absent"
    elif after_target == before_target:
        outcome = "unchanged"
    else:
        try:
            got = load(target)
        except Exception as e:  # noqa: BLE001
            got, outcome = None, "unreadable"
            rec["load_exc"] = type(e).__name__
        if got is not None:
            d_new = dq.deq(ref, got, "loaded") if ref is not None else "no reference"
            if d_new is None:
                outcome = "complete_new"
            elif pre == "complete" and dq.deq(ctx.state["olds"][store], got, "loaded") is None:
                outcome = "earlier_complete"
            elif ref is None and fault_class != "natural":
                outcome = "unjudged_no_reference"
                ctx.count("unjudged_no_reference")
            else:
                outcome = "PARTIAL"
                missing = [str(x) for x in dq.diffs(ref, got, "loaded", limit=6)] if ref is not None else ["(no complete object exists for this graph)"]
                n_attrs = len(vars(got)) if hasattr(got, "__dict__") else -1
                ctx.check(False, "target_state_after_failed_save", "save() raised %s (%s) but load(target) succeeds and is incomplete: root has %d attributes %s; first differences: %s"
                          % (type(raised).__name__, _where(lf, cf), n_attrs, sorted(vars(got))[:8] if n_attrs >= 0 else "", missing[:4]), event="partial_target_loadable", **f)
    if outcome != "PARTIAL":
        ctx.check(True, "target_state_after_failed_save")
    rec["outcome"] = outcome
    return rec


def _where(lf, cf):
    if lf.fired:
        return "line fault k=%d in %s line %d" % (lf.fired[3], lf.fired[1], lf.fired[2])
    if cf.fired:
        return "I/O fault at call %d of %s" % (cf.fired[1], cf.fired[0])
    return "natural failure"


def _tree_delta(a, b):
    if a is None or b is None:
        return "%s -> %s" % ("absent" if a is None else a[0], "absent" if b is None else b[0])
    da, db = dict(a[1]), dict(b[1])
    ch = sorted(k for k in set(da) | set(db) if da.get(k) != db.get(k))
    return "%d entries differ, e.g. %s" % (len(ch), ch[:4])


# ------------------------------------------------------------------------------------------------


def run_case(spec, idx, ctx):
    lf, cf = ctx.state["lf"], ctx.state["cf"]
    store, mode, pre = spec["store"], spec["mode"], spec["pre"]
    fault = spec["fault"]
    if fault == "natural":
        g = ctx.state["sg"].graph_with_bad_member(spec["bad"], spec["position"], ctx.seed)
        gkey = None
    else:
        g = _graph(ctx, spec["graph"])
        gkey = (spec["graph"], store)
    sbx = Sandbox(ctx, idx, store, sibling=spec.get("sibling", "default"), decoys=spec.get("decoys"))
    outcomes = {}
    recs = []
    exc = spec.get("exc", "exception")
    fields = {"graph": spec.get("graph", "bad_member"), "exc_class": exc}

    def excname(n):
        return "exception" if exc == "exception" else BASE_EXCS[n % len(BASE_EXCS)]

    kw = {}
    if spec.get("decoys"):
        fields["decoys"] = spec["decoys"]
        ctx.count("cases_with_decoy_neighbours")
    ctx.state["neutral"] = idx % 5 == 0
    if spec.get("opts") is not None:
        kw["opts"] = spec["opts"]
        fields["save_options"] = spec["opts"]
    if fault == "typed":
        _, store_arg, typed_name = TYPED_VARIANTS[spec["variant"]]
        kw = {"save_path": os.path.join(sbx.sb, typed_name), "store_arg": store_arg}
        fields.update(variant=spec["variant"], sibling=spec["sibling"])
    try:
        if fault in ("line", "typed"):
            i = 0
            while True:
                k = 1 + spec["offset"] + spec["stride"] * (spec["residue"] + spec["nres"] * i)
                rec = attempt(ctx, sbx, g, gkey, store, mode, pre, lambda: (lf.arm(k, excname(k)), cf.arm()), "line", fields, **kw)
                recs.append(rec)
                if not rec["fired"]:
                    if fault == "line":
                        ctx.state["evidence_extra"]["K"]["g%s/%s/%s/%s" % (spec["graph"], store, mode, pre)] = rec["lines"]
                    else:
                        ctx.count("typed_path_fault_free_saves")
                    break
                ctx.count("injected:line")
                if exc != "exception":
                    ctx.count("injected:base_exception")
                i += 1
                if i > 4000:
                    raise_harness("line-fault enumeration did not terminate")
        elif fault == "io":
            # fault-free dry run (judged like any completed save): calls per primitive = J
            dry = attempt(ctx, sbx, g, gkey, store, mode, pre, lambda: (lf.arm(None), cf.arm()), "io", fields)
            recs.append(dry)
            if dry["raised"] is not None and not (mode == "w" and pre != "none"):
                raise_harness("fault-free dry run of graph %s raised %s" % (spec["graph"], dry["raised"]))
            J = dry["counts"]
            ctx.state["evidence_extra"]["J"]["g%s/%s/%s/%s" % (spec["graph"], store, mode, pre)] = {k: J.get(k, 0) for k in spec["labels"]}
            flat = [(label, jj) for label in spec["labels"] for jj in range(1, J.get(label, 0) + 1)]
            pos = spec["offset"] + spec["stride"] * spec["residue"]
            while pos < len(flat):
                label, jj = flat[pos]
                rec = attempt(ctx, sbx, g, gkey, store, mode, pre, lambda: (lf.arm(None), cf.arm(label, jj, None if exc == "exception" else excname(pos))), "io", dict(fields, label=label))
                recs.append(rec)
                if rec["fired"]:
                    ctx.count("injected:io")
                    ctx.count("injected:io:" + label)
                    if exc != "exception":
                        ctx.count("injected:base_exception")
                else:
                    ctx.count("io_fault_not_reached")
                pos += spec["stride"] * spec["nres"]
        elif fault == "write_once":
            k = 0
            while True:
                k += 1
                rec = attempt(ctx, sbx, g, gkey, store, "w", pre, lambda: (lf.arm(k), cf.arm()), "line", fields)
                recs.append(rec)
                if not rec["fired"]:
                    break
                ctx.count("injected:line")
                if k > 200:
                    # the save ran far past the existence check without raising FileExistsError: stop, the checks above already fired
                    break
        else:  # natural
            rec = attempt(ctx, sbx, g, ("bad", spec["bad"], spec["position"], store), store, mode, pre, lambda: (lf.arm(None), cf.arm()), "natural", dict(fields, bad=spec["bad"], position=spec["position"]))
            recs.append(rec)
            if rec["raised"] is not None:
                ctx.count("injected:natural")
            else:
                ctx.check(False, "natural_failure_expected", "save of a graph with an un-storable %s member returned normally" % spec["bad"], bad=spec["bad"], position=spec["position"], store=store)
    finally:
        sbx.close()
    for r in recs:
        outcomes[r["outcome"]] = outcomes.get(r["outcome"], 0) + 1
        ctx.count("outcome:%s" % r["outcome"])
    total_writes = max((r["writes"] for r in recs if not r["fired"] and r["raised"] is None), default=None)
    mid = [r for r in recs if (r["fired"] or fault == "natural") and r["raised"] is not None and r["writes"] >= 1 and (total_writes is None or r["writes"] < total_writes)]
    sig = "%s|%s|%s|%s|%s|%s|%s|%s|%s" % (spec.get("graph", spec.get("bad")), store, mode, pre, fault, spec.get("position", ""), spec.get("residue", 0), exc, spec.get("variant", "") + spec.get("sibling", "") + (spec.get("decoys") or ""))
    ctx.nontrivial(sig, bool(mid))
    ctx.observe(injections=sum(1 for r in recs if r["fired"] or (fault == "natural" and r["raised"])), outcomes=outcomes, mid_write_faults=len(mid), writes_of_complete_save=total_writes,
                lines_of_complete_save=next((r["lines"] for r in recs if not r["fired"] and r["raised"] is None), None), fired_in=sorted(set(r["fired_fn"] for r in recs if r["fired_fn"]))[:8])


def raise_harness(msg):
    from vf.core import HarnessError

    raise HarnessError(msg)


def summarize(all_cases, counters, extras):
    fired, K = {}, {}
    for e in extras:
        for k, v in (e.get("fired_functions") or {}).items():
            fired[k] = fired.get(k, 0) + v
        K.update(e.get("K") or {})
    inj = sum(v for k, v in counters.items() if k in ("injected:line", "injected:io", "injected:natural"))
    return {
        "injections": inj,
        "injections_by_class": {k: counters.get("injected:" + k, 0) for k in ("line", "io", "natural")},
        "injections_raising_a_non_Exception_BaseException": counters.get("injected:base_exception", 0),
        "fault_free_saves_with_typed_path_or_auto_store": counters.get("typed_path_fault_free_saves", 0),
        "io_faults_by_primitive": {k[len("injected:io:"):]: v for k, v in sorted(counters.items()) if k.startswith("injected:io:")},
        "outcomes_after_failed_or_faulted_save": {k[len("outcome:"):]: v for k, v in sorted(counters.items()) if k.startswith("outcome:")},
        "line_events_of_a_complete_save_K": K,
        "faults_fired_in_function": dict(sorted(fired.items())),
        "armed_functions": (extras[0].get("armed_functions") if extras else []),
    }
