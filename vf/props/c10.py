"""C10 — object and probe constraints always yield physically admissible models.

Oracle: postconditions of the real constraint code, evaluated (a) directly on hostile raw tensors handed to the models through
their public entry points and (b) in situ: wrappers on ObjectConstraints.apply_hard_constraints,
ProbeConstraints._probe_orthogonalization_constraint and ProbePixelated._apply_weights judge every call made while real
Ptychography.reconstruct() runs execute with hostile learning rates, plus reads of obj_model.obj / probe_model.probe /
probe_model.initial_probe between single-iteration reconstruct() calls (the property's observe_at).
"""
from __future__ import annotations

import numpy as np

PROPERTY = "C10"
LEVEL = "exploration"
ANCHOR_FILES = [
    "quantem/diffractive_imaging/object_models.py", "quantem/diffractive_imaging/probe_models.py", "quantem/diffractive_imaging/constraints.py", "quantem/tomography/object_models.py",
]
RULE = (
    "seeded cases: obj (ObjectPixelated.from_array with hostile raw values 1e-6..1e6 / zeros / boundary values, 1-5 slices, odd shapes, object type x constraint dict "
    "{positivity, fix_potential_baseline(+factor), identical_slices, apply_fov_mask} x mask {none, binary, fractional; 2-D or a different (S,H,W) mask per slice} x {float32 via .obj, float64 via apply_hard_constraints}), "
    "dip (ObjectDIP.obj on the output of a one-layer network with hostile weights, complex / real-valued pure phase / potential), tomo (tomography ObjectVoxelwise positivity/shrinkage), orth (1-5 modes, pairwise correlation 0..0.99, intensity ratios 1e-4..1e4, complex128 and complex64, direct call and "
    "probe_model.probe), weights (from_array / from_params + set_initial_probe with requested weights 1e-3..1 and mean intensities 1e-2..1e8, read through initial_probe) and "
    "probe_hist (one ProbePixelated model, 6-12 steps under torch.no_grad() and with grad: read / public probe setter with another stack / reset() / set_initial_probe / optimizer step / toggling "
    "orthogonalize_probe and center_probe, every read judged against the *current* raw stack: orthogonal, same intensity multiset, descending, inside its span), "
    "obj_hist (one multi-slice ObjectDIP or ObjectPixelated, 5-9 steps: public calls that raise and are caught -- pretrain() without optimizer / with a loss callable raising at the k-th call / bad target / "
    "unknown optimizer or loss name, invalid constraint key, mask, model_input, slice_thicknesses, obj_type, optimizer -- and successful pretrain / reset / optimizer step / forward / constraint toggles, "
    ".obj judged after every step), "
    "probe_sib (the sibling probe-model classes sharing real_space_probe / ProbeConstraints: ProbeParametric.from_params -- roi given at construction or at set_initial_probe, defocus or C10, "
    "astigmatism / C30, learn_aberrations x learn_cutoff -- and ProbeDIP.from_pixelated (identity network) / from_model (1-5 correlated modes), on ROIs with rows < cols, rows > cols and square (4..32 px, "
    "anisotropic sampling), mean intensities 1e-2..1e8; .probe judged by the total-intensity and orthogonalisation oracles after set_initial_probe, re-initialisation, reset() and optimizer step + reset()); "
    "tomo also runs the tomography ObjectDIP sibling on the same constraint dict; "
    "insitu (reconstruct() on a simulated scene started from hostile raw object / correlated modes with Adam/SGD learning rates 0.1..100, batches, 1-3 slices, 1-4 modes; half of the single-mode scenes are preprocessed and run again with a ProbeParametric probe model, judged before the first iteration and after reset()); "
    "non-trivial = the raw tensor violates the constraint before projection (max|obj|>1, |obj|!=1, min V<0, slices differ, modes correlated >= 0.5, weights/intensity differ from requested); "
    "distinct = (kind, type, constraint-dict key, mask kind, slices, modes, precision)"
)
ASSUMPTIONS = [
    "float32/complex64 results are judged with 2e-5 (amplitude, measured 6e-8), 5e-4 (mode overlap, measured 2.3e-6 at correlation 0.99 / Gram lambda_min 5e-3) and 1e-4 (mode intensities, order, weights, total intensity; measured <= 6.6e-7); float64/complex128 with 1e-12 (amplitude, order) / 1e-10 (overlap, intensities)",
    "orthogonalisation is judged when the input modes are finite, pairwise normalised overlap <= 0.99 and the smallest eigenvalue of the normalised Gram matrix is >= 5e-3 (the property's worst stated case, 5 modes at 0.99, has 1e-2); other in-situ events are counted as out of domain",
    "events whose raw input is not finite (optimiser diverged) are counted, not judged",
    "with identical_slices only slice equality and amplitude <= 1 are judged (property: slice tying is only claimed to tie slices); smoothing filters are never enabled",
    "with apply_fov_mask the mask is a declared attenuation in [0,1]: amplitude <= 1 everywhere and = 1 where mask = 1 (pure phase); idempotence is judged for binary masks only (the code applies the mask twice)",
    "ProbeParametric (one mode, no initial_probe attribute) and ProbeDIP are probe models of the package handed to the same forward model: their .probe before any parameter update (and after reset()) is 'the initial probe' "
    "of the property and is judged on the total diffraction intensity (1e-4, measured 4.5e-7); for ProbeDIP the claim is made only for an identity network fed by an initialised ProbePixelated (from_pixelated); "
    "the relative-weights clause is judged where weights can be requested (ProbePixelated)",
    "idempotence is an amplitude statement and is judged for complex and pure-phase objects",
    "history cases: a call that is expected to raise is caught by the harness like an interactive caller would; the constraint dictionary read back from the model after the step (not the one requested) decides what is judged; "
    "reads of probe_model.probe with orthogonalize_probe off or center_probe on are not judged (the property is about the orthogonalisation's result; per-mode centring shifts do not keep modes orthogonal)",
]
BUDGET = {"quick": {"soft_s": 300, "workers": 14}, "thorough": {"soft_s": 1200, "workers": 14}}
MIN_EVALUATIONS = {"quick": 3000, "thorough": 30000}
REQUIRED_COUNTERS = [
    "eval:complex_amplitude_above_one", "eval:pure_phase_amplitude_not_one", "eval:potential_negative_under_positivity", "eval:slices_not_identical", "eval:constraint_not_idempotent",
    "eval:modes_not_orthogonal", "eval:mode_intensities_changed", "eval:modes_not_descending", "eval:initial_probe_total_intensity", "eval:initial_probe_weights", "insitu_cases_completed",
    "history_cases_completed:probe", "history_cases_completed:object", "history_errors_caught",
    "sibling_cases_completed:parametric", "sibling_cases_completed:dip", "insitu_parametric_completed", "tomo_dip_judged",
]

TOL32, TOL64 = 2e-5, 1e-12


def plan(tier, seed):
    q = tier == "quick"
    n = {"insitu": 126 if q else 1120, "dip": 200 if q else 4000, "obj": 3000 if q else 90000, "tomo": 200 if q else 6000, "orth": 1200 if q else 36000, "weights": 600 if q else 18000,
         "probe_hist": 500 if q else 12000, "obj_hist": 400 if q else 9000, "probe_sib": 540 if q else 16200}
    rest = []
    for kind in ("obj", "dip", "tomo", "orth", "weights", "probe_hist", "obj_hist"):
        rest += [{"kind": kind, "i": i} for i in range(n[kind])]
    # cheap direct cases first (milliseconds each), the in-situ reconstructions last, spread evenly over the workers (round-robin sharding)
    order = np.random.default_rng([seed, 10, 4242]).permutation(len(rest))
    # (kinds added later are appended, so that the case index -- and with it the random stream -- of every earlier case stays what it was)
    head, ins_, sib = [rest[j] for j in order], [{"kind": "insitu", "i": i} for i in range(n["insitu"])], [{"kind": "probe_sib", "i": i} for i in range(n["probe_sib"])]
    # thorough: the long in-situ cases stay last, so that a soft budget hit under load skips some of them rather than a whole cheap class
    return head + ins_ + sib if q else head + sib + ins_


def _np(x):
    import torch

    if isinstance(x, torch.Tensor):
        return x.detach().cpu().numpy()
    return np.asarray(x)


def _finite_t(t):
    import torch

    t = t.detach()
    return bool(torch.isfinite(torch.view_as_real(t) if t.is_complex() else t).all())


def _orig(f):
    return getattr(f, "__vf_wrapped__", f)


# ------------------------------------------------------------------------------------------------
# judges (shared by direct cases, wrappers and public reads)


def _mask_real(mask):
    if mask is None:
        return None
    m = mask.detach()
    if m.numel() == 0:
        return None
    return (m.real if m.is_complex() else m).double()


def make_mask(rng, shape2d, kind, slices=1):
    """fov mask in [0,1]: binary or fractional; slices > 1 -> a per-slice (S,H,W) mask (accepted by the public mask setter)."""
    shp = tuple(shape2d) if slices <= 1 else (int(slices),) + tuple(shape2d)
    m = rng.random(shp)
    if kind == "binary":
        return (m > 0.4).astype(np.float32)
    m[rng.random(shp) < 0.3] = 1.0
    m[rng.random(shp) < 0.1] = 0.0
    return m.astype(np.float32)


def judge_object(ctx, model, raw, mask, out, where, idempotence=True, **extra):
    """Postconditions of ObjectConstraints.apply_hard_constraints(raw, mask) -> out for model's declared type / constraint dict."""
    import torch

    st = ctx.state
    with torch.no_grad():
        if not _finite_t(raw):
            ctx.count("nonfinite_raw_not_judged:object")
            return None
        ot = model.obj_type
        c = model.constraints
        if c.get("gaussian_sigma") is not None or c.get("q_lowpass") or c.get("q_highpass"):
            ctx.count("smoothing_enabled_not_judged")
            return None
        mreal = _mask_real(mask) if c.get("apply_fov_mask") else None
        S = int(raw.shape[0])
        tied = bool(c.get("identical_slices")) and S > 1
        single = out.dtype in (torch.complex64, torch.float32)
        tol = TOL32 if single else TOL64
        prec = "single" if single else "double"
        mk = "none" if mreal is None else ("binary" if bool(((mreal == 0) | (mreal == 1)).all()) else "fractional")
        per_slice = bool(mreal is not None and mreal.ndim == 3 and mreal.shape[0] > 1 and bool((mreal != mreal[:1]).any()))
        f = dict(where=where, obj_type=ot, precision=prec, mask=mk, mask_per_slice=per_slice, tied=tied, baseline=bool(c.get("fix_potential_baseline")), **extra)
        if not ctx.check(tuple(out.shape) == tuple(raw.shape) and _finite_t(out), "constrained_object_malformed", "shape %s -> %s, finite=%s" % (tuple(raw.shape), tuple(out.shape), _finite_t(out)), **f):
            return None
        nontrivial = False
        if ot in ("complex", "pure_phase"):
            a = out.detach().abs().double()
            ra = raw.detach().abs().double()
            if ot == "complex":
                ctx.close(max(0.0, float(a.max()) - 1.0), tol, "complex_amplitude_above_one", lambda: "max|obj| - 1 (raw max|.| %.3g, %d slices)" % (float(ra.max()), S), track=prec, **f)
                nontrivial = float(ra.max()) > 1.0
            else:
                nontrivial = float((ra - 1).abs().max()) > 1e-3
                if tied or mreal is not None:
                    ctx.close(max(0.0, float(a.max()) - 1.0), tol, "pure_phase_amplitude_above_one", lambda: "max|obj| - 1 with %s" % ("identical_slices" if tied else "fov mask"), track=prec, **f)
                    if mreal is not None and not tied:
                        sel = (mreal == 1).expand_as(a)
                        if bool(sel.any()):
                            ctx.close(float((a[sel] - 1).abs().max()), tol, "pure_phase_amplitude_not_one", "| |obj| - 1 | where the fov mask is 1", track=prec + ":masked", **f)
                else:
                    ctx.close(float((a - 1).abs().max()), tol, "pure_phase_amplitude_not_one", lambda: "max | |obj| - 1 | (raw |.| in [%.3g, %.3g], %d slices)" % (float(ra.min()), float(ra.max()), S), track=prec, **f)
        else:
            if c.get("positivity", True):
                mn = float(out.detach().double().min())
                ctx.close(max(0.0, -mn), 0.0, "potential_negative_under_positivity", lambda: "min V = %.3g (raw min %.3g, baseline=%s factor=%s mask=%s)" % (mn, float(raw.min()), c.get("fix_potential_baseline"), c.get("fix_potential_baseline_factor"), mk), track=prec, **f)
                nontrivial = float(raw.detach().double().min()) < 0
        if tied:
            o = out.detach()
            scale = float(o.abs().double().max())
            ctx.close(float((o - o[:1]).abs().double().max()) / max(scale, 1e-300), tol, "slices_not_identical", lambda: "max |obj[s] - obj[0]| with identical_slices, %d slices" % S, track=prec, **f)
            r = raw.detach()
            nontrivial = nontrivial or float((r - r[:1]).abs().max()) > 0
        if idempotence and ot in ("complex", "pure_phase") and not tied and mk != "fractional":
            fn = _orig(type(model).apply_hard_constraints)
            st["busy"] = True
            try:
                out2 = fn(model, out.detach().clone(), mask=mask)
            finally:
                st["busy"] = False
            ctx.close(float((out2.detach().abs().double() - out.detach().abs().double()).abs().max()), tol, "constraint_not_idempotent", lambda: "max | |C(C(x))| - |C(x)| | (%s, mask %s)" % (ot, mk), track=prec, **f)
        return dict(f, nontrivial=nontrivial)


def judge_orth(ctx, inp, out, where, **extra):
    """Postconditions of mixed-state orthogonalisation inp -> out."""
    import torch

    ins = ctx.state["insitu"]
    with torch.no_grad():
        if not _finite_t(inp) or not bool(torch.isfinite((inp.detach().abs() ** 2).sum())):  # (incl. |.|^2 overflowing the working precision)
            ctx.count("nonfinite_raw_not_judged:probe")
            return None
        x = _np(inp)
        M = int(x.shape[0])
        corr, lam = ins.gram_stats(x)
        if not (corr == corr) or corr > 0.99 + 1e-6 or lam < 5e-3:
            ctx.count("orth_out_of_domain_not_judged")
            return None
        single = out.dtype == torch.complex64
        prec = "single" if single else "double"
        f = dict(where=where, precision=prec, modes=M, **extra)
        if not ctx.check(tuple(out.shape) == tuple(inp.shape) and out.dtype == inp.dtype and _finite_t(out), "orthogonalised_probe_malformed", "%s %s -> %s %s" % (tuple(inp.shape), inp.dtype, tuple(out.shape), out.dtype), **f):
            return None
        o = _np(out).astype(np.complex128).reshape(M, -1)
        n2 = (np.abs(o) ** 2).sum(1)
        i_in = (np.abs(x.astype(np.complex128)) ** 2).sum((1, 2))
        # the returned modes are an orthogonalisation of *this* stack: every mode lies in the span of the raw modes
        if o.shape[1] > M and np.all(n2 > 0):
            q, _r = np.linalg.qr(x.astype(np.complex128).reshape(M, -1).T)
            resid = o.T - q @ (q.conj().T @ o.T)
            rel = float(np.max(np.sqrt((np.abs(resid) ** 2).sum(0) / n2)))
            ctx.close(rel, 1e-3 if single else 1e-9, "modes_outside_span_of_raw_probe", lambda: "max_m |u_m - P_span(raw) u_m| / |u_m| (%d modes, input max overlap %.3f)" % (M, corr), track=prec, **f)
        if M > 1:
            n = np.sqrt(n2)
            G = np.abs(o.conj() @ o.T) / np.outer(n, n)
            np.fill_diagonal(G, 0.0)
            ctx.close(float(G.max()), 5e-4 if single else 1e-10, "modes_not_orthogonal", lambda: "max normalised overlap of the returned modes (input: %d modes, max overlap %.3f, Gram lambda_min %.3g)" % (M, corr, lam), track=prec, **f)
        tol_i = 1e-4 if single else 1e-10
        ctx.close(float(np.abs(np.sort(n2)[::-1] / np.sort(i_in)[::-1] - 1).max()), tol_i, "mode_intensities_changed", lambda: "sorted intensities out %s vs in %s" % (np.sort(n2)[::-1].tolist(), np.sort(i_in)[::-1].tolist()), track=prec, **f)
        if M > 1:
            rise = float(np.max((n2[1:] - n2[:-1]) / n2[:-1]))
            ctx.close(max(0.0, rise), 1e-4 if single else 1e-12, "modes_not_descending", lambda: "mode intensities %s" % n2.tolist(), track=prec, **f)
        return dict(f, corr=corr, lam=lam, nontrivial=(M > 1 and corr >= 0.5))


def judge_weights(ctx, model, probes, where, want_I=None, weights=True, **extra):
    """initial probe: total diffraction intensity = mean intensity; relative mode weights = requested.

    model: any probe-model class of the package; classes without requested weights (ProbeParametric: one mode; ProbeDIP) are judged on the total only."""
    import torch

    with torch.no_grad():
        if not _finite_t(probes):
            ctx.count("nonfinite_raw_not_judged:weights")
            return None
        p = _np(probes).astype(np.complex128)
        if p.ndim == 2:
            p = p[None]
        M = p.shape[0]
        f = dict(where=where, modes=M, precision="single" if probes.dtype == torch.complex64 else "double", **extra)
        want_I = float(model.mean_diffraction_intensity) if want_I is None else float(want_I)  # the caller's requested value when known
        want_w = getattr(model, "initial_probe_weights", None) if weights else None
        want_w = np.ones(1) if want_w is None else _np(want_w).astype(np.float64)
        want_w = want_w / want_w.sum()
        tot = float((np.abs(np.fft.fft2(p, norm="ortho")) ** 2).sum())
        ctx.close(tot / want_I - 1, 1e-4, "initial_probe_total_intensity", lambda: "sum_k sum_m |FFT_ortho(probe_m)|^2 = %.6g, mean diffraction intensity %.6g" % (tot, want_I), **f)
        w = (np.abs(p) ** 2).sum((1, 2))
        w = w / w.sum()
        if weights and len(want_w) == M:
            ctx.close(float(np.abs(w / want_w - 1).max()), 1e-4, "initial_probe_weights", lambda: "relative mode intensities %s, requested %s" % (w.tolist(), want_w.tolist()), **f)
        return f


# ------------------------------------------------------------------------------------------------


def setup(ctx):
    import warnings

    warnings.filterwarnings("ignore")
    import torch

    from quantem.diffractive_imaging import object_models, probe_models
    from quantem.tomography import object_models as tomo_models
    from vf import hook, insitu, scenes

    st = ctx.state
    st.update(torch=torch, om=object_models, pm=probe_models, tm=tomo_models, insitu=insitu, scenes=scenes, live=None, busy=False)

    def live():
        return st["live"] if (st["live"] is not None and not st["busy"]) else None

    def post_obj(tok, a, k, res):
        L = live()
        if L is None:
            return
        model, raw = a[0], a[1]
        mask = a[2] if len(a) > 2 else k.get("mask")
        r = judge_object(ctx, model, raw, mask, res, where=L["where"])
        if r is not None:
            L["obj_events"] = L.get("obj_events", 0) + 1
            L["obj_nontrivial"] = L.get("obj_nontrivial", 0) + int(r["nontrivial"])
            L["max_raw"] = max(L.get("max_raw", 0.0), float(raw.detach().abs().max()))

    hook.wrap(object_models.ObjectConstraints, "apply_hard_constraints", post=post_obj, ctx=ctx)

    def post_orth(tok, a, k, res):
        L = live()
        if L is None:
            return
        r = judge_orth(ctx, a[1], res, where=L["where"])
        if r is not None:
            L["orth_events"] = L.get("orth_events", 0) + 1
            L["orth_nontrivial"] = L.get("orth_nontrivial", 0) + int(r["nontrivial"])
            L["max_corr"] = max(L.get("max_corr", 0.0), r["corr"])

    hook.wrap(probe_models.ProbeConstraints, "_probe_orthogonalization_constraint", post=post_orth, ctx=ctx)

    def post_weights(tok, a, k, res):
        L = live()
        if L is None:
            return
        if judge_weights(ctx, a[0], res, where=L["where"]) is not None:
            L["weight_events"] = L.get("weight_events", 0) + 1

    hook.wrap(probe_models.ProbePixelated, "_apply_weights", post=post_weights, ctx=ctx)


# ------------------------------------------------------------------------------------------------
# direct: object constraints


def _run_obj(spec, idx, ctx):
    st = ctx.state
    torch, ins = st["torch"], st["insitu"]
    rng = ctx.rng(idx)
    i = spec["i"]
    ot = ["complex", "pure_phase", "potential"][i % 3]
    S = int(rng.integers(1, 6))
    H, W = int(rng.integers(3, 28)), int(rng.integers(3, 28))
    raw = ins.hostile_values(rng, (S, H, W), ot != "potential")
    mk = ["none", "binary", "fractional"][(i // 3) % 3]
    cons = {"identical_slices": bool((i // 9) % 2)}
    if ot == "potential":
        cons["positivity"] = bool(rng.random() < 0.85)
        # (the baseline estimate reads the fov mask, which the pipeline always installs: only generated together with a mask)
        if mk != "none" and rng.random() < 0.6:
            cons["fix_potential_baseline"] = True
            cons["fix_potential_baseline_factor"] = float(rng.choice([1.0, 1.0, 0.5, 1.5]))
    mask = None
    per_slice = False
    if mk != "none":
        per_slice = S > 1 and rng.random() < 0.5  # a different mask for every slice
        mask = make_mask(rng, (H, W), mk, S if per_slice else 1)
        cons["apply_fov_mask"] = bool(rng.random() < 0.8)
    thick = float(rng.uniform(1, 20)) if S > 1 else None
    m = st["om"].ObjectPixelated.from_array(raw.astype(np.float32 if ot == "potential" else np.complex64), slice_thicknesses=thick, obj_type=ot, rng=int(rng.integers(1 << 30)))
    m.reset()  # raw parameters := the array handed in
    m.constraints = cons
    if mask is not None:
        m.mask = mask.astype(np.float32)
    key = ",".join("%s=%s" % kv for kv in sorted(cons.items()))
    res = []
    # (a) the object handed to the forward model, working precision
    x32 = m._obj.detach()
    res.append(judge_object(ctx, m, x32, m.mask, m.obj, where="direct"))
    # (b) the same constraint code on float64 / complex128 raw values
    x64 = torch.tensor(raw)
    mk_t = m.mask if m.mask.numel() else None
    res.append(judge_object(ctx, m, x64, mk_t, m.apply_hard_constraints(x64, mask=mk_t), where="direct"))
    nt = any(r and r["nontrivial"] for r in res)
    ctx.nontrivial(("obj", ot, key, mk + ("/slice" if per_slice else ""), min(S, 3)), nt)
    ctx.observe(obj_type=ot, shape=[S, H, W], constraints=cons, mask=mk, mask_per_slice=bool(per_slice), raw_absmax=float(np.abs(raw).max()), raw_absmin=float(np.abs(raw).min()))


def _run_tomo(spec, idx, ctx):
    st = ctx.state
    torch, ins = st["torch"], st["insitu"]
    rng = ctx.rng(idx)
    shape = tuple(int(x) for x in rng.integers(2, 9, size=3))
    m = st["tm"].ObjectVoxelwise(volume_shape=shape, device="cpu")
    pos = bool(rng.random() < 0.8)
    shr = float(rng.choice([0.0, 10.0 ** rng.uniform(-4, 2)]))
    m.hard_constraints = {"positivity": pos, "shrinkage": shr if shr > 0 else False}
    raw = ins.hostile_values(rng, shape, False)
    for dt in (torch.float32, torch.float64):
        x = torch.tensor(raw).to(dt)
        m.obj = x
        out = m.obj
        f = dict(where="direct", obj_type="tomography", precision="single" if dt == torch.float32 else "double", shrinkage=shr > 0)
        if not ctx.check(tuple(out.shape) == shape and _finite_t(out), "constrained_object_malformed", "tomography: %s -> %s" % (shape, tuple(out.shape)), **f):
            continue
        if pos:
            mn = float(out.double().min())
            ctx.close(max(0.0, -mn), 0.0, "potential_negative_under_positivity", lambda: "tomography ObjectVoxelwise: min = %.3g with positivity (shrinkage %s)" % (mn, shr), track="tomography", **f)
    # the sibling class sharing the constraint code: tomography ObjectDIP (.obj = constraints applied to a network output)
    import torch.nn as nn

    class Vol(nn.Module):
        def __init__(self, w):
            super().__init__()
            self.w = nn.Parameter(w)

        def forward(self, x):
            return (x * self.w)[:, 0]

    x = torch.tensor(raw).to(torch.float32)
    try:
        d = st["tm"].ObjectDIP(model=Vol(torch.ones((1, 1) + shape)), volume_shape=shape, model_input=x[None, None], device="cpu")
    except Exception as e:  # noqa: BLE001  (constructor form not supported by this version of the class: counted, the voxelwise route above decides)
        ctx.count("tomo_dip_not_constructed:" + type(e).__name__)
        d = None
    if d is not None:
        d.hard_constraints = {"positivity": pos, "shrinkage": shr if shr > 0 else False}
        with torch.no_grad():
            out = d.obj
        f = dict(where="direct", obj_type="tomography", precision="single", shrinkage=shr > 0, model_kind="dip")
        if ctx.check(tuple(out.shape) == shape and _finite_t(out), "constrained_object_malformed", "tomography ObjectDIP: %s -> %s" % (shape, tuple(out.shape)), **f) and pos:
            mn = float(out.double().min())
            ctx.close(max(0.0, -mn), 0.0, "potential_negative_under_positivity", lambda: "tomography ObjectDIP: min = %.3g with positivity (shrinkage %s)" % (mn, shr), track="tomography", **f)
        ctx.count("tomo_dip_judged")
    ctx.nontrivial(("tomo", pos, shr > 0), pos and float(raw.min()) < 0)
    ctx.observe(shape=list(shape), positivity=pos, shrinkage=shr)


# ------------------------------------------------------------------------------------------------
# direct: probe


def _run_orth(spec, idx, ctx):
    st = ctx.state
    torch, ins = st["torch"], st["insitu"]
    rng = ctx.rng(idx)
    i = spec["i"]
    M = 1 + i % 5
    h, w = int(rng.integers(4, 25)), int(rng.integers(4, 25))
    corr = float([0.0, 0.3, 0.5, 0.9, 0.99, 0.7, 1e-4, 3e-4][(i // 5) % 8]) if M > 1 else 0.0  # (incl. nearly orthogonal stacks: a warm start from an earlier result)
    p = ins.correlated_modes(rng, M, (h, w), corr, ratios_decades=4.0)
    p = p * 10.0 ** rng.uniform(-2, 2)
    pm = st["pm"].ProbePixelated.from_array(p.astype(np.complex64), rng=int(rng.integers(1 << 30)))
    res = []
    orth = getattr(pm, "_probe_orthogonalization_constraint", None)
    if orth is None:
        # the internal name is additional observability only; the public route below decides
        if "ProbeConstraints._probe_orthogonalization_constraint(direct)" not in ctx.hooks_missing:
            ctx.hooks_missing.append("ProbeConstraints._probe_orthogonalization_constraint(direct)")
    else:
        for dt in (torch.complex128, torch.complex64):
            x = torch.tensor(p).to(dt)
            res.append(judge_orth(ctx, x, orth(x), where="direct"))
    # the probe handed to the forward model (public read; raw parameters installed through the public setter)
    pm.probe = torch.tensor(p.astype(np.complex64))
    res.append(judge_orth(ctx, pm._probe.detach(), pm.probe, where="direct_public"))
    ctx.nontrivial(("orth", M, corr, "o" if (h * w) % 2 else "e"), any(r and r["nontrivial"] for r in res))
    ctx.observe(modes=M, roi=[h, w], correlation=corr, intensities=(np.abs(p) ** 2).sum((1, 2)).tolist())


def _run_weights(spec, idx, ctx):
    st = ctx.state
    torch = st["torch"]
    rng = ctx.rng(idx)
    i = spec["i"]
    M = 1 + i % 5
    h, w = int(rng.integers(4, 25)), int(rng.integers(4, 25))
    default_w = (i // 5) % 4 == 3
    wts = None if default_w else (10.0 ** rng.uniform(-3, 0, size=M) * float(rng.choice([1.0, 7.0, 0.01]))).tolist()
    mean_I = float(10.0 ** rng.uniform(-2, 8))
    via = "params" if (i // 20) % 2 else "array"
    if via == "array":
        p = (rng.normal(size=(M, h, w)) + 1j * rng.normal(size=(M, h, w))) * 10.0 ** rng.uniform(-3, 3)
        pm = st["pm"].ProbePixelated.from_array(p.astype(np.complex64), initial_probe_weights=wts, rng=int(rng.integers(1 << 30)))
        rs = np.array([0.1, 0.1])
    else:
        samp = (float(rng.uniform(0.2, 0.5)), float(rng.uniform(0.2, 0.5)))
        rs = np.array([1.0 / (h * samp[0]), 1.0 / (w * samp[1])])
        E = float(rng.choice([60e3, 80e3, 200e3, 300e3]))
        pm = st["pm"].ProbePixelated.from_params({"energy": E, "semiangle_cutoff": float(rng.uniform(8, 30)), "defocus": float(rng.uniform(-200, 200))}, num_probes=M,
                                                initial_probe_weights=wts, rng=int(rng.integers(1 << 30)))
    st["live"] = {"where": "direct_hook"}
    try:
        pm.set_initial_probe((h, w), rs, mean_I)
    finally:
        st["live"] = None
    judge_weights(ctx, pm, pm.initial_probe, where="direct_public", want_I=mean_I)
    if i % 3 == 0:
        # history: the same probe model initialised again for data with another mean intensity (re-preprocessing, another dataset)
        mean_I = float(mean_I * 10.0 ** rng.uniform(-2, 2))
        st["live"] = {"where": "direct_hook"}
        try:
            pm.set_initial_probe((h, w), rs, mean_I)
        finally:
            st["live"] = None
        judge_weights(ctx, pm, pm.initial_probe, where="direct_public_reinit", want_I=mean_I)
    # the raw parameters start at the initial probe, and the constrained probe keeps the total (orthogonalisation preserves intensities)
    if via == "array":  # (random modes: inside the orthogonalisation's domain)
        with torch.no_grad():
            tot = float((pm.probe.abs().double() ** 2).sum())
        ctx.close(tot / mean_I - 1, 1e-4, "initial_probe_total_intensity", "sum |probe_model.probe|^2 right after set_initial_probe vs mean diffraction intensity", where="direct_public", modes=M, precision="single")
    ctx.nontrivial(("weights", M, via, "default" if default_w else "requested"), True)
    ctx.observe(modes=M, roi=[h, w], via=via, requested_weights=wts, mean_intensity=mean_I)


# ------------------------------------------------------------------------------------------------
# sibling classes: every probe-model class of the package shares real_space_probe / ProbeConstraints, every object-model class its
# ObjectConstraints; the same oracles on ProbeParametric, ProbeDIP (and tomography ObjectDIP in _run_tomo)


def _oriented_roi(rng, lo, hi, orient):
    """orient 0: rows < cols, 1: rows > cols, 2: square."""
    a, b = sorted(int(x) for x in rng.integers(lo, hi, size=2))
    if orient == 2:
        return a, a
    if a == b:
        b = a + int(rng.integers(1, 7))
    return (a, b) if orient == 0 else (b, a)


def _probe_params(rng):
    E = float(rng.choice([60e3, 80e3, 200e3, 300e3]))
    params = {"energy": E, "semiangle_cutoff": float(rng.uniform(8, 30)), "defocus": float(rng.uniform(-200, 200))}
    if rng.random() < 0.5:
        params["aberration_coefs"] = {"C12": float(rng.uniform(0, 50)), "phi12": float(rng.uniform(0, 3)), "C30": float(rng.uniform(-1e4, 1e4))}
        if rng.random() < 0.5:
            params["aberration_coefs"]["C10"] = -params.pop("defocus")  # the other way of giving the defocus
    return params


def _parametric_probe(st, rng, roi, params=None):
    """ProbeParametric built from microscope parameters; roi known at construction or only at set_initial_probe."""
    params = _probe_params(rng) if params is None else params
    kw = dict(learn_aberrations=bool(rng.random() < 0.5), learn_cutoff=bool(rng.random() < 0.5))
    pre = bool(rng.random() < 0.5)
    pm = st["pm"].ProbeParametric.from_params(dict(params), roi_shape=tuple(roi) if pre else None, rng=int(rng.integers(1 << 30)), **kw)
    return pm, dict(params=params, roi_at_construction=pre, **kw)


def _judge_parametric(ctx, pm, want_I, where, after):
    """the probe ProbeParametric hands to the forward model: total diffraction intensity and the (single-mode) constraint postconditions."""
    torch = ctx.state["torch"]
    with torch.no_grad():
        out = pm.probe
        build = getattr(pm, "_build_probe", None)
        raw = build() if build is not None else None
    judge_weights(ctx, pm, out, where=where, want_I=want_I, weights=False, model_kind="ProbeParametric", after=after)
    if raw is not None and pm.constraints.get("orthogonalize_probe", True) and not pm.constraints.get("center_probe"):
        judge_orth(ctx, raw.detach(), out.detach(), where=where, model_kind="ProbeParametric", after=after)


def _mode_affine(torch, scal):
    """a 'network' for ProbeDIP: one complex factor per mode (keeps the correlation structure of its input)."""
    import torch.nn as nn

    class ModeScale(nn.Module):
        def __init__(self):
            super().__init__()
            self.dtype = torch.complex64
            self.w = nn.Parameter(torch.tensor(np.asarray(scal).reshape(1, -1, 1, 1)).to(torch.complex64))

        def forward(self, x):
            return x * self.w

    return ModeScale()


def _run_probe_sib(spec, idx, ctx):
    st = ctx.state
    torch, ins = st["torch"], st["insitu"]
    pmod = st["pm"]
    rng = ctx.rng(idx)
    i = spec["i"]
    orient = (i // 3) % 3
    h, w = _oriented_roi(rng, 4, 33, orient)
    samp = (float(rng.uniform(0.2, 0.5)), float(rng.uniform(0.2, 0.5)))
    rs = np.array([1.0 / (h * samp[0]), 1.0 / (w * samp[1])])
    mean_I = float(10.0 ** rng.uniform(-2, 8))
    kind = ["parametric", "parametric", "dip"][i % 3]
    obs = {}
    if kind == "parametric":
        pm, obs = _parametric_probe(st, rng, (h, w))
        pm.set_initial_probe((h, w), rs, mean_I)
        _judge_parametric(ctx, pm, mean_I, "direct_public", "set_initial_probe")
        steps = []
        for _ in range(int(rng.integers(0, 4))):
            op = ["reinit", "step_reset", "reset"][int(rng.integers(3))]
            if op == "reinit":
                # the same model initialised again for data with another mean intensity
                mean_I = float(mean_I * 10.0 ** rng.uniform(-2, 2))
                pm.set_initial_probe((h, w), rs, mean_I)
            elif op == "step_reset" and len(pm.params) > 0:
                pm.set_optimizer({"type": "sgd", "lr": float(10.0 ** rng.uniform(-6, -3))})
                pm.zero_optimizer_grad()
                tgt = torch.tensor((rng.normal(size=(1, h, w)) + 1j * rng.normal(size=(1, h, w))).astype(np.complex64))
                loss = (pm.probe - tgt).abs().square().sum()
                loss.backward()
                pm.step_optimizer()
                pm.reset()  # back to the initial parameters: the initial probe again
            else:
                pm.reset()
            steps.append(op)
            _judge_parametric(ctx, pm, mean_I, "direct_public_history", op)
        obs["steps"] = steps
        M = 1
    else:
        M = 1 + (i // 9) % 5
        sub = (i // 45) % 2
        if sub == 0:
            # ProbeDIP.from_pixelated (the route of the package's own 'lite' pipeline) with an identity network: the probe handed to the
            # forward model is the initialised pixelated probe, so it carries the measured mean intensity
            p = (rng.normal(size=(M, h, w)) + 1j * rng.normal(size=(M, h, w))) * 10.0 ** rng.uniform(-3, 3)
            if rng.random() < 0.5:
                pix = pmod.ProbePixelated.from_array(p.astype(np.complex64), rng=int(rng.integers(1 << 30)))
            else:
                pix = pmod.ProbePixelated.from_params(_probe_params(rng), num_probes=M, rng=int(rng.integers(1 << 30)))
                pix.add_constraint("orthogonalize_probe", M == 1)  # (copies of one aperture: outside the orthogonalisation's domain)
            pix.set_initial_probe((h, w), rs, mean_I)
            dip = pmod.ProbeDIP.from_pixelated(_mode_affine(torch, np.ones(M)), pix, input_noise_std=float(rng.choice([0.0, 0.025])))
            dip.set_initial_probe((h, w), rs, mean_I)
            dip.add_constraint("orthogonalize_probe", bool(pix.constraints["orthogonalize_probe"]))
            with torch.no_grad():
                out = dip.probe
                raw = dip.model(dip.model_input)[0]
            judge_weights(ctx, dip, out, where="direct_public", want_I=mean_I, weights=False, model_kind="ProbeDIP", after="from_pixelated")
            if dip.constraints["orthogonalize_probe"]:
                judge_orth(ctx, raw.detach(), out.detach(), where="direct_public", model_kind="ProbeDIP", after="from_pixelated")
            obs = {"route": "from_pixelated"}
        else:
            # ProbeDIP.from_model: the hard constraints applied to a network output with correlated modes
            corr = float([0.0, 0.3, 0.5, 0.9, 0.99, 0.7][(i // 90) % 6]) if M > 1 else 0.0
            x = ins.correlated_modes(rng, M, (h, w), corr, ratios_decades=2.0) * 10.0 ** rng.uniform(-2, 2)
            scal = np.exp(2j * np.pi * rng.random(M)) * 10.0 ** rng.uniform(-1, 1, size=M)
            dip = pmod.ProbeDIP.from_model(_mode_affine(torch, scal), model_input=torch.tensor(x.astype(np.complex64))[None], num_probes=M, roi_shape=(h, w),
                                           input_noise_std=float(rng.choice([0.0, 0.025])), rng=int(rng.integers(1 << 30)))
            dip.set_initial_probe((h, w), rs, mean_I)
            with torch.no_grad():
                out = dip.probe
                raw = dip.model(dip.model_input)[0]
            r = judge_orth(ctx, raw.detach(), out.detach(), where="direct_public", model_kind="ProbeDIP", after="from_model")
            obs = {"route": "from_model", "correlation": corr, "judged": r is not None}
    ctx.count("sibling_cases_completed:" + kind)
    ctx.nontrivial(("probe_sib", kind, orient, M, obs.get("route"), obs.get("roi_at_construction")), True)
    ctx.observe(model=kind, roi=[h, w], mean_intensity=mean_I, **obs)


# ------------------------------------------------------------------------------------------------
# in situ


def _run_insitu(spec, idx, ctx):
    st = ctx.state
    torch, ins = st["torch"], st["insitu"]
    rng = ctx.rng(idx)
    i = spec["i"]
    ot = ["complex", "pure_phase", "potential"][i % 3]
    S, M = int(rng.integers(1, 4)), 1 + (i // 3) % 4
    corr = float(rng.choice([0.5, 0.8, 0.95]))
    oc = {}
    if S > 1 and rng.random() < 0.3:
        oc["identical_slices"] = True
    if rng.random() < 0.3:
        oc["apply_fov_mask"] = True
    if ot == "potential" and rng.random() < 0.3:
        oc["fix_potential_baseline"] = True
    opt = "adam" if rng.random() < 0.7 else "sgd"
    lr_o = float(10 ** rng.uniform(-1, 2))
    lr_p = float(10 ** rng.uniform(-1, 1))
    L = {"where": "insitu"}
    st["live"] = L
    try:
        sc, sc_h, pt, mean_I = ins.hostile_library(rng, obj_type=ot, num_slices=S, num_modes=M, corr=corr, obj_scale=float(10 ** rng.uniform(0, 1.5)), seed=int(rng.integers(1 << 30)))
        # observe_at: probe_model.initial_probe (set by the library's own preprocessing from the measured mean intensity)
        st["live"] = None
        judge_weights(ctx, pt.probe_model, pt.probe_model.initial_probe, where="insitu_public")
        ip = _np(pt.probe_model.initial_probe).astype(np.complex128)
        tot0 = float((np.abs(np.fft.fft2(ip, norm="ortho")) ** 2).sum())
        ctx.close(tot0 / mean_I - 1, 1e-4, "initial_probe_total_intensity", lambda: "total diffraction intensity of probe_model.initial_probe %.6g vs mean pattern sum of the measured data %.6g" % (tot0, mean_I),
                  where="insitu_public", modes=M, precision="single")
        mask3d = None
        if S > 1 and rng.random() < 0.4:
            # a per-slice field-of-view mask installed through the public setter, combined with slice tying and the fov constraint
            mask3d = "binary" if rng.random() < 0.5 else "fractional"
            pt.obj_model.mask = make_mask(rng, tuple(int(v) for v in pt.obj_model.shape[-2:]), mask3d, S)
            oc["apply_fov_mask"] = True
            if rng.random() < 0.7:
                oc["identical_slices"] = True
        st["live"] = L
        J = pt.dset.num_gpts
        bs = int(rng.integers(max(1, J // 4), J + 1))
        n_steps = 5 if ctx.tier == "quick" else 7
        autograd = rng.random() < 0.8
        for step in range(n_steps):
            op = {"object": {"type": opt, "lr": lr_o}, "probe": {"type": opt, "lr": lr_p}} if step == 0 else None
            pt.reconstruct(num_iters=2 if step == 0 else 1, reset=False, optimizer_params=op, batch_size=bs, autograd=autograd, constraints={"object": oc} if oc else {})
            # public reads between iterations (the level named by the property)
            st["live"] = None
            om, pm = pt.obj_model, pt.probe_model
            r = judge_object(ctx, om, om._obj.detach(), om.mask, om.obj, where="insitu_public")
            if r is not None:
                L["public_obj"] = L.get("public_obj", 0) + 1
            if pm.constraints.get("orthogonalize_probe", True):
                r = judge_orth(ctx, pm._probe.detach(), pm.probe, where="insitu_public")
                if r is not None:
                    L["public_probe"] = L.get("public_probe", 0) + 1
            st["live"] = L
    finally:
        st["live"] = None
    if M == 1 and i % 2 == 0:
        _insitu_parametric(ctx, ctx.rng(idx, 1), sc, pt, mean_I, L, oc, opt, lr_o, lr_p, bs)
    ctx.count("insitu_cases_completed")
    raw = _np(pt.obj_model._obj)
    judged = L.get("obj_events", 0) + L.get("orth_events", 0) + L.get("public_obj", 0)
    ctx.nontrivial(("insitu", ot, ",".join(sorted(oc)), S, M, opt), judged > 0 and (L.get("obj_nontrivial", 0) + L.get("orth_nontrivial", 0)) > 0)
    ctx.observe(scene=sc.describe(), object_constraints=oc, per_slice_mask=mask3d, optimizer=opt, lr=[lr_o, lr_p], batch=bs, autograd=bool(autograd), events={k: v for k, v in L.items() if k != "where"},
                final_raw_absmax=float(np.abs(raw).max()) if np.isfinite(raw).all() else "non-finite", losses=[float(x) for x in pt.iter_losses[-3:]])


def _insitu_parametric(ctx, rng, sc, pt, mean_I, L, oc, opt, lr_o, lr_p, bs):
    """the same data, object model and detector with the sibling probe model ProbeParametric: the library's own preprocessing sets
    its intensity from the measured mean; read before the first iteration and after reset(); the object hooks judge the run."""
    import contextlib
    import io

    st = ctx.state
    from quantem.diffractive_imaging.ptychography import Ptychography

    ppm, desc = _parametric_probe(st, rng, tuple(sc.roi), params={"energy": sc.energy, "semiangle_cutoff": sc.semiangle_mrad, "defocus": float(rng.uniform(-100, 100))})
    st["live"] = L
    try:
        with contextlib.redirect_stdout(io.StringIO()):
            pt2 = Ptychography.from_models(dset=pt.dset, obj_model=pt.obj_model, probe_model=ppm, detector_model=pt.detector_model, device="cpu", verbose=0, rng=int(rng.integers(1 << 30)))
            pt2.preprocess(obj_padding_px=tuple(int(p) for p in sc.pad_req), com_fit_function="no_shift", force_com_rotation=0, force_com_transpose=False, plot_rotation=False, plot_com=False)
        st["live"] = None
        _judge_parametric(ctx, pt2.probe_model, mean_I, "insitu_public", "preprocess")
        st["live"] = L
        op = {"object": {"type": opt, "lr": lr_o}}
        if len(pt2.probe_model.params) > 0:  # (nothing to learn with learn_aberrations = learn_cutoff = False: no probe optimizer then)
            op["probe"] = {"type": opt, "lr": min(lr_p, 1.0)}
        pt2.reconstruct(num_iters=2, reset=False, optimizer_params=op, batch_size=bs, autograd=True,
                        constraints={"object": oc} if oc else {})
        st["live"] = None
        om = pt2.obj_model
        judge_object(ctx, om, om._obj.detach(), om.mask, om.obj, where="insitu_public")
        pt2.probe_model.reset()
        _judge_parametric(ctx, pt2.probe_model, mean_I, "insitu_public", "reset")
    finally:
        st["live"] = None
    ctx.count("insitu_parametric_completed")
    ctx.observe(parametric_probe=desc)


def _run_dip(spec, idx, ctx):
    """ObjectDIP.obj: the constraint code applied to the output of a network whose weights are hostile (a one-layer affine 'network')."""
    st = ctx.state
    torch, ins = st["torch"], st["insitu"]
    import torch.nn as nn

    rng = ctx.rng(idx)
    i = spec["i"]
    ot, cplx = [("complex", True), ("pure_phase", False), ("pure_phase", True), ("potential", False)][i % 4]
    dt = torch.complex64 if cplx else torch.float32
    S = int(rng.integers(1, 5))
    H, W = int(rng.integers(3, 20)), int(rng.integers(3, 20))

    class Affine(nn.Module):
        def __init__(self, w, b):
            super().__init__()
            self.dtype = dt
            self.w = nn.Parameter(w)
            self.b = nn.Parameter(b)

        def forward(self, x):
            return x * self.w + self.b

    wv = ins.hostile_values(rng, (1, S, H, W), cplx, lo=-3.0, hi=3.0)
    bv = ins.hostile_values(rng, (1, S, H, W), cplx, lo=-3.0, hi=3.0) * float(rng.random() < 0.5)
    inp = rng.normal(size=(S, H, W)) + (1j * rng.normal(size=(S, H, W)) if cplx else 0.0)
    m = st["om"].ObjectDIP.from_model(Affine(torch.tensor(wv).to(dt), torch.tensor(bv).to(dt)), torch.tensor(inp).to(dt), num_slices=S, slice_thicknesses=float(rng.uniform(1, 20)) if S > 1 else None,
                                      obj_type=ot, rng=int(rng.integers(1 << 30)))
    cons = {"identical_slices": bool(rng.random() < 0.3)}
    mkind = "none"
    if rng.random() < 0.5:
        mkind = "binary" if rng.random() < 0.5 else "fractional"
        if S > 1 and rng.random() < 0.5:
            m.mask = make_mask(rng, (H, W), mkind, S)
            mkind += "/slice"
        else:
            m.mask = make_mask(rng, (H, W), mkind)
        cons["apply_fov_mask"] = True
    m.constraints = cons
    with torch.no_grad():
        raw = m._obj.detach()
        out = m.obj
    r = judge_object(ctx, m, raw if (ot != "pure_phase" or cplx) else torch.exp(1j * raw), m.mask if m.mask.numel() else None, out, where="direct_dip")
    ctx.nontrivial(("dip", ot, "cplx" if cplx else "real", mkind, cons["identical_slices"] and S > 1), bool(r and r["nontrivial"]))
    ctx.observe(obj_type=ot, model_dtype=str(dt), shape=[S, H, W], constraints=cons, mask=mkind, raw_absmax=float(raw.abs().max()))


# ------------------------------------------------------------------------------------------------
# histories on one model (state that depends on earlier reads, setters and failed calls)


def _run_probe_hist(spec, idx, ctx):
    """read / set / read histories on one ProbePixelated: every read must describe the *current* raw stack."""
    import contextlib

    st = ctx.state
    torch, ins = st["torch"], st["insitu"]
    rng = ctx.rng(idx)
    i = spec["i"]
    M = 1 + i % 5
    h, w = int(rng.integers(4, 21)), int(rng.integers(4, 21))
    nograd = (i // 5) % 3 != 2  # two thirds of the cases read the way logging / plotting / saving code does
    corrs = [0.0, 0.3, 0.5, 0.9, 0.99, 0.7, 1e-4, 3e-4]

    def stack():
        c = float(corrs[int(rng.integers(len(corrs)))]) if M > 1 else 0.0
        return (ins.correlated_modes(rng, M, (h, w), c, ratios_decades=2.0) * 10.0 ** rng.uniform(-1.5, 1.5)).astype(np.complex64)

    pm = st["pm"].ProbePixelated.from_array(stack(), rng=int(rng.integers(1 << 30)))
    rs = np.array([0.1, 0.1])
    steps, judged, nontriv = [], 0, False
    mode = torch.no_grad() if nograd else contextlib.nullcontext()
    last_write = "from_array"

    def read():
        nonlocal judged, nontriv
        c = pm.constraints
        out = pm.probe
        raw = pm._probe.detach().clone()
        if not c.get("orthogonalize_probe", True) or c.get("center_probe"):
            ctx.count("probe_read_not_judged:orth_off_or_centred")
            return
        r = judge_orth(ctx, raw, out.detach(), where="history", grad="no_grad" if not torch.is_grad_enabled() else "grad", after=last_write)
        if r is not None:
            judged += 1
            nontriv = nontriv or bool(r["nontrivial"])

    n_steps = int(rng.integers(6, 13))
    with mode:
        read()
        steps.append("read")
        for _ in range(n_steps):
            op = ["set", "set", "set", "warm_start", "reset", "init", "step", "toggle_orth", "toggle_center", "flip_grad"][int(rng.integers(10))]
            if op == "warm_start":
                # the constrained probe of this model (or its raw stack when the constraints are off) handed back through the setter,
                # nudged the way a few optimiser steps would: nearly, not exactly, orthogonal raw modes
                prev = _np(pm.probe).astype(np.complex128)
                scale = np.sqrt((np.abs(prev) ** 2).mean())
                eps = float(10.0 ** rng.uniform(-5, -3))
                pm.probe = (prev + eps * scale * (rng.normal(size=prev.shape) + 1j * rng.normal(size=prev.shape))).astype(np.complex64)
                last_write = "warm_start"
            elif op == "set":
                new = stack()
                pm.probe = new if rng.random() < 0.5 else torch.tensor(new)
                last_write = "probe_setter"
            elif op == "reset":
                pm.reset()
                last_write = "reset"
            elif op == "init":
                pm.set_initial_probe((h, w), rs, float(10.0 ** rng.uniform(0, 6)))
                last_write = "set_initial_probe"
            elif op == "step":
                with torch.enable_grad():
                    pm.set_optimizer({"type": "sgd", "lr": float(10.0 ** rng.uniform(-3, -1))})  # (binds to the current parameter)
                    pm.zero_optimizer_grad()
                    tgt = torch.tensor(stack())
                    loss = (pm.probe - tgt).abs().square().sum()
                    loss.backward()
                    pm.step_optimizer()
                last_write = "optimizer_step"
            elif op == "toggle_orth":
                pm.add_constraint("orthogonalize_probe", not pm.constraints["orthogonalize_probe"])
            elif op == "toggle_center":
                pm.add_constraint("center_probe", not pm.constraints["center_probe"])
            else:
                # leave / enter no_grad for the following reads (same model, same state)
                torch.set_grad_enabled(not torch.is_grad_enabled())
            steps.append(op)
            read()
            if rng.random() < 0.3:
                read()  # an immediate second read
        # finish with the constraints on: the last read is always judged
        pm.add_constraint("orthogonalize_probe", True)
        pm.add_constraint("center_probe", False)
        read()
    torch.set_grad_enabled(True)
    ctx.count("history_cases_completed:probe")
    ctx.nontrivial(("probe_hist", M, "nograd" if nograd else "grad", tuple(sorted(set(steps)))), judged >= 2 and "set" in steps and nontriv)
    ctx.observe(modes=M, roi=[h, w], start_no_grad=nograd, steps=steps, reads_judged=judged)


class _Boom(RuntimeError):
    pass


def _affine_model(torch, dt, w, b):
    import torch.nn as nn

    class Affine(nn.Module):
        def __init__(self):
            super().__init__()
            self.dtype = dt
            self.w = nn.Parameter(w)
            self.b = nn.Parameter(b)

        def forward(self, x):
            return x * self.w + self.b

    return Affine()


def _run_obj_hist(spec, idx, ctx):
    """after-error and after-success histories on one object model: .obj judged after every step."""
    st = ctx.state
    torch, ins = st["torch"], st["insitu"]
    rng = ctx.rng(idx)
    i = spec["i"]
    dip = i % 4 != 3
    S = int(rng.integers(2, 5)) if i % 8 else 1
    H, W = int(rng.integers(3, 14)), int(rng.integers(3, 14))
    thick = float(rng.uniform(1, 20)) if S > 1 else None
    if dip:
        ot, cplx = [("complex", True), ("potential", False), ("pure_phase", True), ("pure_phase", False)][(i // 4) % 4]
        dt = torch.complex64 if cplx else torch.float32
        wv = ins.hostile_values(rng, (1, S, H, W), cplx, lo=-2.0, hi=2.0)
        bv = ins.hostile_values(rng, (1, S, H, W), cplx, lo=-2.0, hi=2.0) * float(rng.random() < 0.5)
        inp = rng.normal(size=(S, H, W)) + (1j * rng.normal(size=(S, H, W)) if cplx else 0.0)
        m = st["om"].ObjectDIP.from_model(_affine_model(torch, dt, torch.tensor(wv).to(dt), torch.tensor(bv).to(dt)), torch.tensor(inp).to(dt), num_slices=S, slice_thicknesses=thick,
                                          input_noise_std=float(rng.choice([0.0, 0.025])), obj_type=ot, rng=int(rng.integers(1 << 30)))
    else:
        ot = ["complex", "potential", "pure_phase"][(i // 4) % 3]
        cplx = ot != "potential"
        dt = torch.complex64 if cplx else torch.float32
        raw0 = ins.hostile_values(rng, (S, H, W), cplx, lo=-3.0, hi=3.0)
        m = st["om"].ObjectPixelated.from_array(raw0.astype(np.complex64 if cplx else np.float32), slice_thicknesses=thick, obj_type=ot, rng=int(rng.integers(1 << 30)))
        m.reset()
    cons = {"identical_slices": bool(rng.random() < 0.75)}
    if rng.random() < 0.4:
        m.mask = make_mask(rng, (H, W), "binary" if rng.random() < 0.5 else "fractional", S if (S > 1 and rng.random() < 0.6) else 1)
        cons["apply_fov_mask"] = True
    m.constraints = cons
    steps, raised, judged, nontriv = [], 0, 0, False

    def target():
        t = rng.normal(size=(S, H, W)) + (1j * rng.normal(size=(S, H, W)) if cplx else 0.0)
        return torch.tensor(t).to(dt)

    def read(after, err):
        nonlocal judged, nontriv
        with torch.no_grad():
            raw = m._obj.detach()
            out = m.obj
        if dip and ot == "pure_phase" and not cplx:
            raw = torch.exp(1j * raw)
        r = judge_object(ctx, m, raw, m.mask if m.mask.numel() else None, out, where="history", after=after, after_error=err, model_kind="dip" if dip else "pixelated")
        if r is not None:
            judged += 1
            nontriv = nontriv or bool(r["nontrivial"])

    def failing_loss(k):
        calls = {"n": 0}

        def loss(pred, tgt):
            calls["n"] += 1
            if calls["n"] >= k:
                raise _Boom("interrupted")
            return (pred - tgt).abs().square().mean()

        return loss

    adam = lambda: {"type": "adam", "lr": float(10.0 ** rng.uniform(-4, -2))}  # noqa: E731
    # every entry: name -> (callable, expected to raise)
    common = {
        "constraints_bad_key": (lambda: setattr(m, "constraints", {"identical_slices": m.constraints["identical_slices"], "no_such_constraint": 1}), True),
        "add_constraint_bad_key": (lambda: m.add_constraint("no_such_constraint", 1), True),
        "mask_bad_ndim": (lambda: setattr(m, "mask", np.ones((2, 2, H, W), np.float32)), True),
        "obj_type_bad": (lambda: setattr(m, "obj_type", "no_such_type"), True),
        "optimizer_bad_type": (lambda: m.set_optimizer({"type": "no_such_optimizer", "lr": 0.1}), True),
        "toggle_identical": (lambda: m.add_constraint("identical_slices", not m.constraints["identical_slices"]), False),
        "forward": (lambda: m.forward(torch.tensor(rng.integers(0, H * W, size=(2, 3, 3)))), False),
        "reset": (lambda: m.reset(), False),
        "set_mask": (lambda: (setattr(m, "mask", make_mask(rng, (H, W), "binary" if rng.random() < 0.5 else "fractional", S if (S > 1 and rng.random() < 0.6) else 1)), m.add_constraint("apply_fov_mask", True)), False),
    }
    if S > 1:
        common["slice_thicknesses_bad"] = (lambda: setattr(m, "slice_thicknesses", [1.0] * (S + 2)), True)
    if dip:
        def no_opt():
            m.remove_optimizer()
            m.pretrain(pretrain_target=target(), num_iters=2, show=False)

        ops = dict(common)
        ops.update({
            "pretrain_without_optimizer": (no_opt, True),
            "pretrain_loss_raises": (lambda: m.pretrain(pretrain_target=target(), num_iters=4, optimizer_params=adam(), loss_fn=failing_loss(int(rng.integers(1, 4))), apply_constraints=bool(rng.random() < 0.5), show=False), True),
            "pretrain_bad_target_shape": (lambda: m.pretrain(pretrain_target=torch.zeros((S + 1, H, W), dtype=dt), num_iters=1, optimizer_params=adam(), show=False), True),
            "pretrain_unknown_optimizer": (lambda: m.pretrain(pretrain_target=target(), num_iters=1, optimizer_params={"type": "no_such_optimizer", "lr": 0.1}, show=False), True),
            "pretrain_unknown_loss": (lambda: m.pretrain(pretrain_target=target(), num_iters=1, optimizer_params=adam(), loss_fn="no_such_loss", show=False), True),
            "model_input_bad_slices": (lambda: setattr(m, "model_input", torch.zeros((S + 1, H, W), dtype=dt)), True),
            # (apply_constraints on a complex-valued pure-phase network compares a real angle with a complex target and raises in the
            #  library's complex loss on the unchanged tree: not a C10 matter, not generated)
            "pretrain_ok": (lambda: m.pretrain(pretrain_target=target(), num_iters=int(rng.integers(1, 4)), optimizer_params=adam(), apply_constraints=bool(rng.random() < 0.5) and not (ot == "pure_phase" and cplx), show=False), False),
        })
        weights = {"pretrain_without_optimizer": 3, "pretrain_loss_raises": 3, "pretrain_ok": 3}
    else:
        def opt_step():
            m.set_optimizer({"type": "sgd", "lr": float(10.0 ** rng.uniform(-2, 1))})
            m.zero_optimizer_grad()
            loss = (m.obj - target()).abs().square().sum()
            loss.backward()
            m.step_optimizer()

        ops = dict(common)
        ops["optimizer_step"] = (opt_step, False)
        weights = {"optimizer_step": 3}
    names = sorted(ops)
    pw = np.array([weights.get(n, 1) for n in names], dtype=float)
    pw /= pw.sum()
    read("construction", False)
    for _ in range(int(rng.integers(5, 10))):
        name = names[int(rng.choice(len(names), p=pw))]
        fn, should_raise = ops[name]
        err = False
        if should_raise:
            try:
                fn()
            except Exception:  # noqa: BLE001  (the interactive caller catches and carries on with the same model)
                err = True
                raised += 1
            if not err:
                ctx.count("history_expected_error_not_raised:" + name)
        else:
            fn()
        steps.append(name)
        # whatever happened, the model must keep delivering what its constraint dictionary declares
        if not m.constraints.get("identical_slices") and rng.random() < 0.5:
            m.add_constraint("identical_slices", True)
        read(name, err)
    ctx.count("history_cases_completed:object")
    ctx.count("history_errors_caught", raised)
    ctx.nontrivial(("obj_hist", "dip" if dip else "pixelated", ot, min(S, 3), tuple(sorted(set(steps)))[:6]), raised >= 1 and judged >= 3 and nontriv)
    ctx.observe(model="ObjectDIP" if dip else "ObjectPixelated", obj_type=ot, shape=[S, H, W], constraints=dict((k, m.constraints[k]) for k in ("identical_slices", "apply_fov_mask")), steps=steps, errors_caught=raised, reads_judged=judged)


RUN = {"probe_sib": _run_probe_sib, "obj": _run_obj, "dip": _run_dip, "tomo": _run_tomo, "orth": _run_orth, "weights": _run_weights, "insitu": _run_insitu, "probe_hist": _run_probe_hist, "obj_hist": _run_obj_hist}


def run_case(spec, idx, ctx):
    ctx.state["live"] = None
    ctx.state["busy"] = False
    ctx.state["torch"].set_grad_enabled(True)
    with np.errstate(all="ignore"):
        RUN[spec["kind"]](spec, idx, ctx)


def summarize(all_cases, counters, extras):
    tot = {}
    for c in all_cases:
        ev = (c.get("obs") or {}).get("events")
        if isinstance(ev, dict):
            for k, v in ev.items():
                if isinstance(v, (int, float)):
                    tot[k] = max(tot.get(k, 0), v) if k.startswith("max_") else tot.get(k, 0) + v
    sample = next(({"case": c["idx"], "observed": c["obs"]} for c in all_cases if isinstance((c.get("obs") or {}).get("events"), dict)), None)
    return {
        "insitu_sample": sample,
        "insitu_totals": tot,
        "events_not_judged": {k: v for k, v in counters.items() if "not_judged" in k},
        "hook_calls": {k[5:]: v for k, v in counters.items() if k.startswith("hook:")},
    }
