"""C12 — one aberration surface across polar, Cartesian, gradient and fitted forms.

Oracle: the real functions of complex_probe.py evaluated on float64 tensors, compared with
  * an independent numpy series  chi = 2pi/lambda * sum_nm C_nm alpha^(n+1) cos(m (phi - phi_nm)) / (n+1)
    (and its Cartesian-coefficient form) written here,
  * the true gradient from torch autograd (w.r.t. (alpha, phi) and w.r.t. the Cartesian angle components),
  * each other (polar -> Cartesian basis expansion, polar -> Cartesian -> polar, merge = sum of surfaces),
plus the `defocus` alias in every entry point and fit_aberrations_from_shifts on the shifts that
DirectPtychography._return_lateral_shifts predicts.  Dense float64 sampling stands in for the symbolic
quantifier (no symbolic engine: different technique family).
"""
from __future__ import annotations

import collections
import contextlib
import copy
import math
import types

import numpy as np

from vf.core import HarnessError

PROPERTY = "C12"
LEVEL = "exploration"
ANCHOR_FILES = [
    "quantem/diffractive_imaging/complex_probe.py",
    "quantem/diffractive_imaging/direct_ptycho_utils.py",
    "quantem/diffractive_imaging/direct_ptychography.py",
    "quantem/diffractive_imaging/probe_models.py",
    "quantem/core/utils/validators.py",
]
RULE = (
    "one-hot enumeration of all 25 polar symbols and all 25 Cartesian labels (each at unit and at physical scales, "
    "several random values/point sets), dense random coefficient sets over random subsets of orders 1..5 (with merge of "
    "random Cartesian deltas), alias cases over validate_aberration_coefficients / standardize_aberration_coefs / "
    "ProbePixelated+ProbeParametric probe_params (top-level, nested aberration_coefs, re-assignment) / DirectPtychography "
    "(constructor, override, reconstruct twin runs), fit cases over random (C10, C12, phi12, rotation) in the identifiable "
    "domain on random bright-field masks and grids, end-to-end fit histories (3 fits + an unrelated reconstruct on one "
    "DirectPtychography object built from a synthesised virtual bright-field stack), DirectPtychography histories "
    "(edits of returned/passed dictionaries, rotation-only grid search followed by a second search / a fixed-override "
    "search / a fit, each followed by a read-back and a reconstruct twin against a fresh instance), and the defocus alias "
    "and a canonical coefficient carried by every accepted numeric form (42 forms x 7 entry points). Widening families: "
    "dense sets at amplitudes 1e-8 / 1e+8, alias and fit values scaled by 1e-8..1e+8; big grids (2**20..2**22 float64 points, "
    "C and Fortran order, and the library's float32 k-grid up to 2048x1536 with rotation) judged on a strided sub-sample and "
    "on rows against a small twin; alpha/phi/shift/mask arguments in Fortran, strided, row-strided, expanded and "
    "NumPy-backed (incl. read-only) layouts, float32 and float64, vs a contiguous copy; a fixed bundle of all C12 "
    "computations under 10 process-global states vs the default state; one coefficient set in 9 equivalent spellings "
    "(key order, alias names, OrderedDict, numpy / tensor / mixed value types, flat / nested / split probe_params) at 9 "
    "entry points, mapping types for the surface functions, outputs fed back as inputs; random points of the "
    "reconstruct option cross product in the alias twins; neutral reads / reprs / copies between the steps of the "
    "DirectPtychography histories. Every coefficient set is evaluated at 200 (quick) / 1000 (thorough) "
    "random (alpha, phi) points plus axis points. Non-trivial = alpha>0 and at least one non-zero coefficient (alias: "
    "defocus != 0; fit: C10 != 0); distinct = (kind, symbol/label or coefficient-set id, scale)"
)
ASSUMPTIONS = [
    "float64 evaluation at random points stands in for the symbolic 'for all reals' (each side is a trigonometric polynomial of <= 60 terms in (alpha, phi))",
    "residuals are judged relative to the sum of absolute term magnitudes at the point (robust to cancellation), bound 1e-11; measured <= 1e-14",
    "gradients are judged at alpha > 0 only (atan2 is not differentiable at the origin)",
    "polar -> Cartesian -> polar is judged on the surface, not on the coefficients (C<0 legitimately comes back as |C| with a shifted angle)",
    "fit domain: |rotation| < pi/2 - 0.05, |C10| >= 20 A, 0 <= C12 <= 0.8 |C10| (the polar decomposition cannot identify a rotation for an indefinite aberration matrix), >= 5 bright-field pixels spanning both axes; phi12 is judged through (C12 cos 2phi12, C12 sin 2phi12), i.e. modulo pi and ignored when C12 = 0; bound 1e-4 relative (float32 internals, measured ~3e-7)",
    "end-to-end fit (fit_hyperparameters_cross_correlation on a stack synthesised by Fourier-translating one band-limited image by the predicted shifts, bin_factors=(2,1), default upsample 4): max shift 1.2-2.3 px, C12 <= 0.3 |C10|, |rotation| <= 1.2; accuracy is limited by the 1/4 px shift quantisation: measured floor over 330 scenes on the unchanged tree 2.8e-2 (coefficients, relative to |C10|) and 1.2e-2 rad; bounds 0.15 and 0.1 rad (a fit that measures only a residual is off by ~1); repeated fits with identical arguments are bit-identical on the unchanged tree and are judged at 0.1 / 0.05 rad (two fits within the floor of the truth differ by at most twice the floor)",
    "alias inputs never give both 'defocus' and 'C10' (contradictory input)",
    "process-global states (torch default dtype float64, no_grad, inference_mode, grad disabled, deterministic algorithms, float32 matmul precision 'medium', 3 torch threads, numpy errstate raise, numpy/torch print options, quantem config dtype_real/complex = float64/complex128) are applied around a fixed bundle and restored; expected = default-state result at 1e-12 (float64 identities), 1e-5 (probe, lateral shifts), 1e-4 (fit, reconstruct)",
    "layouts: torch tensors only (the functions call tensor methods; NumPy arrays raise on the unchanged tree); NumPy-backed tensors incl. read-only memory are generated; coefficient values of the surface functions are float | np.float64 | 0-d tensor (0-d ndarrays raise TypeError in aberration_surface on the unchanged tree and are only passed to the alias entry points, which apply float())",
    "big grids: the 25-label basis is evaluated for 5 labels only (memory); sub-sample of 600 points and 3 rows are judged",
    "numeric forms of coefficient values: every scalar-like form all entry points accept on the unchanged tree (Python int/float, numpy float16/32/64 and (u)int8..64 scalars, 0-d arrays, array elements, 0-d torch tensors and tensor elements of float/int/uint8 dtypes); 1-element 1-D numpy arrays raise TypeError on the unchanged tree and are outside the domain; integer values up to 2**40 in magnitude (exact in float64)",
    "direct_history: only values returned by accessors (aberration_coefs, current_aberrations) and the dictionary passed to the constructor are edited by the harness; the public dataclass fields of HyperparameterState are state, not copies, and are not edited; after a cross-correlation fit the fitted symbols C10/C12/phi12 are not judged",
    "standardize_aberration_coefs returns float32 tensors: coefficient values judged at 1e-5 relative (float32 rounding 6e-8); the surface of float32-rounded coefficients at 5e-5 of the sum of term magnitudes (rounded angles enter as m*dphi, hard limit 1.1e-6, measured 1.7e-7; a sign error of the alias is >= 1e-2)",
]
BUDGET = {"quick": {"soft_s": 300}, "thorough": {"soft_s": 1200}}
MIN_EVALUATIONS = {"quick": 600, "thorough": 6000}
REQUIRED_COUNTERS = [
    "eval:surface_vs_series",
    "eval:polar_gradient_vs_autograd",
    "eval:cartesian_gradient_vs_autograd",
    "eval:cartesian_basis_expansion",
    "eval:polar_cartesian_polar_surface",
    "eval:cartesian_to_polar_surface",
    "eval:merge_is_sum",
    "eval:alias_defocus",
    "eval:fit_recovers",
    "eval:fit_e2e_recovers",
    "eval:fit_e2e_repeatable",
    "eval:coefficients_survive_history",
    "eval:history_reconstruct_twin",
    "eval:alias_entry_points_agree",
    "eval:layout_changes_result",
    "eval:global_state_changes_result",
    "eval:equivalent_forms_disagree",
    "eval:feedback_not_fixed_point",
    "eval:big_grid_rows_vs_small_twin",
    "eval:k_grid_vs_fftfreq",
]
EXHAUSTIVE = {"quick": False, "thorough": False}

NM = [(n, m) for n in range(1, 6) for m in range((n + 1) % 2, n + 2, 2)]  # 14 (n, m) pairs
POLAR = []
for _n, _m in NM:
    POLAR.append("C%d%d" % (_n, _m))
    if _m:
        POLAR.append("phi%d%d" % (_n, _m))
CART = []
for _n, _m in NM:
    CART += ["C%d%d" % (_n, _m)] if _m == 0 else ["C%d%d_a" % (_n, _m), "C%d%d_b" % (_n, _m)]
assert len(POLAR) == 25 and len(CART) == 25
ALIASES = {"defocus": "C10", "astigmatism": "C12", "astigmatism_angle": "phi12", "coma": "C21", "coma_angle": "phi21", "Cs": "C30", "C5": "C50"}
SCALES = ["unit", "physical"]
TOL = 1e-11
PI = math.pi


def plan(tier, seed):
    q = tier == "quick"
    specs = [{"kind": "names"}]
    for scale in SCALES:
        for sym in POLAR:
            for r in range(4 if q else 80):
                specs.append({"kind": "onehot_polar", "symbol": sym, "scale": scale, "rep": r})
        for lab in CART:
            for r in range(4 if q else 80):
                specs.append({"kind": "onehot_cart", "label": lab, "scale": scale, "rep": r})
    for r in range(500 if q else 90000):
        specs.append({"kind": "dense", "scale": (SCALES + ["tiny", "huge"])[r % 4], "rep": r})
    for r in range(200 if q else 8000):
        specs.append({"kind": "alias_fn", "rep": r})
    for r in range(100 if q else 3000):
        specs.append({"kind": "alias_probe", "rep": r})
    for r in range(30 if q else 500):
        specs.append({"kind": "alias_direct", "rep": r})
    for r in range(300 if q else 90000):
        specs.append({"kind": "fit", "rep": r})
    for r in range(28 if q else 420):
        specs.append({"kind": "fit_e2e", "rep": r})
    for r in range(30 if q else 420):
        specs.append({"kind": "direct_history", "rep": r})
    for r in range(10 if q else 200):
        specs.append({"kind": "layout", "rep": r})
    for r in range(2 if q else 12):
        specs.append({"kind": "big_grid", "family": "points64", "rep": r})
        specs.append({"kind": "big_grid", "family": "kgrid32", "rep": r})
    for j, name in enumerate(STATES):
        for r in range(1 if q else 10):
            specs.append({"kind": "global_state", "state": name, "rep": r})
    for r in range(12 if q else 300):
        specs.append({"kind": "equiv_forms", "rep": r})
    for form in FORMS:
        for r in range(3 if q else 60):
            specs.append({"kind": "alias_forms", "form": form, "rep": r})
    for sp in specs:  # rare kinds carry required monitors: never dropped by the soft time budget
        if sp["kind"] in ("names", "big_grid", "global_state", "layout"):
            sp["_must_run"] = True
    rng = np.random.default_rng([seed, 12, 3])
    order = rng.permutation(len(specs))
    return [specs[0]] + [specs[i] for i in order if i != 0]


def setup(ctx):
    import torch

    from quantem.core.datastructures import Dataset2d, Dataset3d
    from quantem.core.utils import validators
    from quantem.diffractive_imaging import complex_probe as cp
    from quantem.diffractive_imaging import direct_ptycho_utils as du
    from quantem.diffractive_imaging import direct_ptychography as dpm
    from quantem.diffractive_imaging import probe_models as pm

    st = ctx.state
    st.update(torch=torch, cp=cp, du=du, dpm=dpm, pm=pm, validators=validators, Dataset2d=Dataset2d, Dataset3d=Dataset3d)
    st["captured"] = []
    # additional observability: the coefficient dictionary reconstruct() hands to the probe evaluation
    if hasattr(dpm, "evaluate_probe"):
        orig = dpm.evaluate_probe

        def wrapped(*a, **k):
            st["captured"].append(k.get("aberration_coefs", a[7] if len(a) > 7 else None))
            ctx.counters["hook:direct_ptychography.evaluate_probe"] += 1
            return orig(*a, **k)

        dpm.evaluate_probe = wrapped
    else:
        ctx.hooks_missing.append("direct_ptychography.evaluate_probe")


# ------------------------------------------------------------------------------------------------
# independent series (numpy float64)


def chi_polar_np(alpha, phi, lam, pol):
    """(value, sum of absolute term magnitudes)"""
    v = np.zeros_like(alpha)
    s = np.zeros_like(alpha)
    for n, m in NM:
        c = pol.get("C%d%d" % (n, m), 0.0)
        p0 = pol.get("phi%d%d" % (n, m), 0.0) if m else 0.0
        if c == 0.0:
            continue
        r = alpha ** (n + 1) / (n + 1)
        v = v + c * r * np.cos(m * (phi - p0))
        s = s + abs(c) * r
    k = 2 * PI / lam
    return k * v, k * s


def chi_cart_np(alpha, phi, lam, cart):
    v = np.zeros_like(alpha)
    s = np.zeros_like(alpha)
    for n, m in NM:
        r = alpha ** (n + 1) / (n + 1)
        if m == 0:
            c = cart.get("C%d%d" % (n, m), 0.0)
            v = v + c * r
            s = s + abs(c) * r
        else:
            a = cart.get("C%d%d_a" % (n, m), 0.0)
            b = cart.get("C%d%d_b" % (n, m), 0.0)
            v = v + r * (a * np.cos(m * phi) + b * np.sin(m * phi))
            s = s + r * (abs(a) + abs(b))
    k = 2 * PI / lam
    return k * v, k * s


def grad_polar_np(alpha, phi, pol):
    """lambda * (d chi / d alpha,  (1/alpha) d chi / d phi) and the magnitude scale"""
    gr = np.zeros_like(alpha)
    gp = np.zeros_like(alpha)
    s = np.zeros_like(alpha)
    for n, m in NM:
        c = pol.get("C%d%d" % (n, m), 0.0)
        p0 = pol.get("phi%d%d" % (n, m), 0.0) if m else 0.0
        if c == 0.0:
            continue
        gr = gr + c * alpha**n * np.cos(m * (phi - p0))
        gp = gp - c * alpha**n * m / (n + 1) * np.sin(m * (phi - p0))
        s = s + abs(c) * alpha**n
    return 2 * PI * gr, 2 * PI * gp, 2 * PI * s


def polar_to_cart_np(pol):
    out = {}
    for n, m in NM:
        c = pol.get("C%d%d" % (n, m), 0.0)
        if m == 0:
            out["C%d%d" % (n, m)] = c
        else:
            p0 = pol.get("phi%d%d" % (n, m), 0.0)
            out["C%d%d_a" % (n, m)] = c * math.cos(m * p0)
            out["C%d%d_b" % (n, m)] = c * math.sin(m * p0)
    return out


# ------------------------------------------------------------------------------------------------
# generators


def _wavelength(rng, scale):
    if scale in ("unit", "tiny", "huge"):
        return float(rng.uniform(0.5, 2.0))
    return _lambda(float(rng.uniform(30e3, 300e3)))


def _lambda(energy_ev):
    """relativistic electron wavelength in Angstrom (hc = 12398.42 eV A, mc^2 = 510.999 keV)"""
    return 12398.419843 / math.sqrt(energy_ev * (2 * 510.99895e3 + energy_ev))


def _coef_mag(rng, scale, n):
    if scale == "unit":
        return float(rng.uniform(0.2, 2.0))
    if scale == "tiny":  # amplitudes of 1e-8 and 1e+8: every judgement is relative to the term magnitudes
        return float(rng.uniform(0.2, 2.0)) * 1e-8
    if scale == "huge":
        return float(rng.uniform(0.2, 2.0)) * 1e8
    return float(10 ** rng.uniform(1.0, 2.5) * 30.0 ** (n - 1))  # ~ order-appropriate Angstrom magnitudes


def _points(rng, scale, npts):
    amax = 1.5 if scale in ("unit", "tiny", "huge") else 0.035
    alpha = rng.uniform(0.03, 1.0, npts) * amax
    phi = rng.uniform(-PI, PI, npts)
    # axis/diagonal directions and the branch cut of atan2
    k = min(8, npts)
    phi[:k] = np.array([0.0, PI / 2, PI, -PI, -PI / 2, PI / 4, -3 * PI / 4, 1e-9])[:k]
    return alpha, phi


def _npts(ctx):
    return 200 if ctx.tier == "quick" else 1000


def _as_coefs(ctx, rng, pol, mode=None):
    """the library passes python floats or 0-d tensors; both are exercised"""
    torch = ctx.state["torch"]
    mode = mode if mode is not None else int(rng.integers(2))
    if mode == 0:
        return dict(pol)
    return {k: torch.tensor(v, dtype=torch.float64) for k, v in pol.items()}


def _t(ctx, x, grad=False):
    torch = ctx.state["torch"]
    return torch.tensor(np.asarray(x, dtype=np.float64), dtype=torch.float64, requires_grad=grad)


def _rel(num, den):
    """max over points of |num| / den; where den == 0 (no non-zero term) num must vanish exactly"""
    num = np.abs(np.asarray(num, dtype=np.float64))
    den = np.asarray(den, dtype=np.float64) * np.ones_like(num)
    if num.size == 0:
        return 0.0
    z = den <= 0
    if z.any() and np.any(num[z] > 0):
        return float("inf")
    nz = ~z
    return float(np.max(num[nz] / den[nz])) if nz.any() else 0.0


# ------------------------------------------------------------------------------------------------
# the monitors for one polar coefficient set


def check_polar_set(ctx, rng, pol, lam, scale, fields, with_conversions=True):
    st = ctx.state
    torch, cp = st["torch"], st["cp"]
    npts = _npts(ctx)
    alpha, phi = _points(rng, scale, npts)
    coefs = _as_coefs(ctx, rng, pol)
    ref, S = chi_polar_np(alpha, phi, lam, pol)

    # 1. surface, incl. alpha = 0
    a0 = np.concatenate([alpha, [0.0]])
    p0 = np.concatenate([phi, [0.3]])
    r0, S0 = chi_polar_np(a0, p0, lam, pol)
    chi = cp.aberration_surface(_t(ctx, a0), _t(ctx, p0), lam, coefs)
    if tuple(chi.shape) != a0.shape:
        ctx.viol("surface_shape", "aberration_surface returned shape %s for input of shape %s" % (tuple(chi.shape), a0.shape), **fields)
        return alpha, phi, ref, S
    ctx.close(_rel(chi.detach().numpy() - r0, S0), TOL, "surface_vs_series", lambda: "aberration_surface differs from the series for %r (lambda=%r)" % (pol, lam), **fields)

    # 2. polar gradients vs autograd and vs the analytic series
    A, P = _t(ctx, alpha, True), _t(ctx, phi, True)
    chi = cp.aberration_surface(A, P, lam, coefs)
    if chi.requires_grad:
        ga, gp = torch.autograd.grad(chi.sum(), (A, P), allow_unused=True)
        ga = np.zeros_like(alpha) if ga is None else ga.numpy()
        gp = np.zeros_like(alpha) if gp is None else gp.numpy()
    else:  # empty / all-gated coefficient set: the surface is the constant 0
        ga = gp = np.zeros_like(alpha)
    dk, dphi = cp.aberration_surface_polar_gradients(_t(ctx, alpha), _t(ctx, phi), coefs)
    dk, dphi = dk.detach().numpy(), dphi.detach().numpy()
    gr_np, gp_np, G = grad_polar_np(alpha, phi, pol)
    ctx.close(max(_rel(dk - lam * ga, G), _rel(dphi - lam * gp / alpha, G)), TOL, "polar_gradient_vs_autograd", lambda: "polar gradient != lambda * autograd gradient for %r" % (pol,), **fields)
    ctx.close(max(_rel(dk - gr_np, G), _rel(dphi - gp_np, G)), TOL, "polar_gradient_vs_series", lambda: "polar gradient != analytic derivative of the series for %r" % (pol,), **fields)

    # 3. Cartesian gradients vs autograd w.r.t. the Cartesian angle components
    ax, ay = _t(ctx, alpha * np.cos(phi), True), _t(ctx, alpha * np.sin(phi), True)
    AA = torch.sqrt(ax**2 + ay**2)
    PP = torch.atan2(ay, ax)
    chi = cp.aberration_surface(AA, PP, lam, coefs)
    if chi.requires_grad:
        gx, gy = torch.autograd.grad(chi.sum(), (ax, ay), allow_unused=True)
        gx = np.zeros_like(alpha) if gx is None else gx.numpy()
        gy = np.zeros_like(alpha) if gy is None else gy.numpy()
    else:
        gx = gy = np.zeros_like(alpha)
    dx, dy = cp.aberration_surface_cartesian_gradients(AA.detach(), PP.detach(), coefs)
    ctx.close(max(_rel(dx.detach().numpy() - lam * gx, G), _rel(dy.detach().numpy() - lam * gy, G)), TOL, "cartesian_gradient_vs_autograd", lambda: "Cartesian gradient != lambda * autograd gradient for %r" % (pol,), **fields)

    if not with_conversions:
        return alpha, phi, ref, S
    # 4. polar -> Cartesian coefficients -> basis expansion
    polt = {k: torch.tensor(v, dtype=torch.float64) for k, v in pol.items()}
    cart = cp.polar_to_cartesian_aberrations(polt)
    ctx.check(all(l in cart for l in CART), "cartesian_label_set", lambda: "polar_to_cartesian_aberrations lacks labels: keys %r" % (sorted(cart),), **fields)
    labels = [l for l in CART if l in cart]
    basis = cp.aberration_surface_cartesian_basis(_t(ctx, alpha), _t(ctx, phi), lam, labels)
    vec = torch.stack([torch.as_tensor(cart[l], dtype=torch.float64) for l in labels])
    exp = (basis * vec).sum(-1).detach().numpy()
    ctx.close(_rel(exp - ref, S), TOL, "cartesian_basis_expansion", lambda: "sum_k c_k basis_k != polar surface for %r" % (pol,), **fields)
    cref = polar_to_cart_np(pol)
    cs = max([abs(pol.get("C%d%d" % nm, 0.0)) for nm in NM]) or 1.0
    ctx.close(max(abs(float(cart[l]) - cref[l]) for l in labels) / cs, TOL, "polar_to_cartesian_coefficients", lambda: "polar_to_cartesian_aberrations(%r) = %r" % (pol, {k: float(v) for k, v in cart.items() if float(v) != 0}), **fields)
    # 5. polar -> Cartesian -> polar leaves the surface unchanged
    back = cp.cartesian_to_polar_aberrations(cart)
    chi_b = cp.aberration_surface(_t(ctx, alpha), _t(ctx, phi), lam, back).detach().numpy()
    ctx.close(_rel(chi_b - ref, S), TOL, "polar_cartesian_polar_surface", lambda: "surface changed by polar->Cartesian->polar: %r -> %r" % (pol, {k: float(v) for k, v in back.items() if float(v) != 0}), **fields)
    return alpha, phi, ref, S


# ------------------------------------------------------------------------------------------------
# case kinds


def run_onehot_polar(spec, idx, ctx):
    rng = ctx.rng(idx)
    sym, scale = spec["symbol"], spec["scale"]
    n, m = int(sym[-2]), int(sym[-1])
    lam = _wavelength(rng, scale)
    sign = -1.0 if (spec["rep"] % 2) else 1.0
    if sym.startswith("C"):
        pol = {sym: sign * _coef_mag(rng, scale, n)}
        if m and spec["rep"] >= 2:
            pol["phi%d%d" % (n, m)] = float(rng.uniform(-PI, PI))
        nontriv = True
    else:
        ang = float(rng.uniform(-PI, PI)) if spec["rep"] != 1 else PI / (2 * m)
        if spec["rep"] == 3:
            pol = {sym: ang}  # the angle alone: the surface must vanish identically
            nontriv = False
        else:
            pol = {"C%d%d" % (n, m): sign * _coef_mag(rng, scale, n), sym: ang}
            nontriv = True
    fields = {"kind": "onehot_polar", "symbol": sym, "order": n, "m": m, "scale": scale}
    check_polar_set(ctx, rng, pol, lam, scale, fields)
    ctx.nontrivial(("onehot_polar", sym, scale, spec["rep"]), nontriv)
    ctx.observe(coefs=pol, wavelength=lam, points=_npts(ctx))


def run_onehot_cart(spec, idx, ctx):
    st = ctx.state
    torch, cp = st["torch"], st["cp"]
    rng = ctx.rng(idx)
    lab, scale = spec["label"], spec["scale"]
    n, m = int(lab[1]), int(lab[2])
    kind = lab.split("_")[1] if "_" in lab else None
    lam = _wavelength(rng, scale)
    c = (-1.0 if spec["rep"] % 2 else 1.0) * _coef_mag(rng, scale, n)
    fields = {"kind": "onehot_cart", "label": lab, "order": n, "m": m, "scale": scale}
    alpha, phi = _points(rng, scale, _npts(ctx))
    ref, S = chi_cart_np(alpha, phi, lam, {lab: c})
    # label parser
    got = cp.parse_cartesian_aberration_label(lab)
    ctx.check(tuple(got) == (n, m, kind), "parse_label", "parse_cartesian_aberration_label(%r) = %r" % (lab, got), **fields)
    # basis function of the label alone, and inside a longer basis list (column order)
    b1 = cp.aberration_surface_cartesian_basis(_t(ctx, alpha), _t(ctx, phi), lam, [lab])
    if tuple(b1.shape) != (alpha.size, 1):
        ctx.viol("basis_shape", "basis for one label has shape %s, expected %s" % (tuple(b1.shape), (alpha.size, 1)), **fields)
        return
    ctx.close(_rel(c * b1[..., 0].numpy() - ref, S), TOL, "cartesian_basis_function", lambda: "c * basis(%s) != series term" % lab, **fields)
    perm = [CART[i] for i in rng.permutation(len(CART))]
    ball = cp.aberration_surface_cartesian_basis(_t(ctx, alpha), _t(ctx, phi), lam, perm)
    ctx.close(_rel(c * ball[..., perm.index(lab)].numpy() - ref, S), TOL, "cartesian_basis_function", lambda: "column of %s in a permuted basis list != series term" % lab, **fields)
    # Cartesian -> polar: the polar surface of the converted coefficients is the same function
    pol = cp.cartesian_to_polar_aberrations({lab: torch.tensor(c, dtype=torch.float64)})
    chi = cp.aberration_surface(_t(ctx, alpha), _t(ctx, phi), lam, pol).detach().numpy()
    ctx.close(_rel(chi - ref, S), TOL, "cartesian_to_polar_surface", lambda: "polar surface of cartesian_to_polar_aberrations({%s: %r}) = %r differs from the Cartesian term" % (lab, c, {k: float(v) for k, v in pol.items() if float(v) != 0}), **fields)
    # ... and all monitors of the polar form on those coefficients (gradients of exactly this term)
    polf = {k: float(v) for k, v in pol.items() if float(v) != 0.0}
    check_polar_set(ctx, rng, polf, lam, scale, fields)
    ctx.nontrivial(("onehot_cart", lab, scale, spec["rep"]), True)
    ctx.observe(label=lab, coef=c, wavelength=lam, polar=polf)


def _dense_polar(rng, scale):
    orders = [n for n in range(1, 6) if rng.random() < 0.7] or [int(rng.integers(1, 6))]
    pol = {}
    for n, m in NM:
        if n not in orders or rng.random() < 0.15:
            continue
        pol["C%d%d" % (n, m)] = float(rng.choice([-1.0, 1.0])) * _coef_mag(rng, scale, n)
        if m and rng.random() < 0.9:
            pol["phi%d%d" % (n, m)] = float(rng.uniform(-PI, PI))
    if not pol:
        pol = {"C10": _coef_mag(rng, scale, 1)}
    return pol


def run_dense(spec, idx, ctx):
    st = ctx.state
    torch, cp = st["torch"], st["cp"]
    rng = ctx.rng(idx)
    scale = spec["scale"]
    lam = _wavelength(rng, scale)
    pol = _dense_polar(rng, scale)
    fields = {"kind": "dense", "scale": scale, "n_coefs": len(pol)}
    alpha, phi, ref, S = check_polar_set(ctx, rng, pol, lam, scale, fields)
    # merge: polar (+) Cartesian delta == sum of the two surfaces
    labs = [l for l in CART if rng.random() < 0.4] or ["C10"]
    delta = {l: float(rng.choice([-1.0, 1.0])) * _coef_mag(rng, scale, int(l[1])) * float(rng.uniform(0.01, 1.0)) for l in labs}
    dref, dS = chi_cart_np(alpha, phi, lam, delta)
    polt = {k: torch.tensor(v, dtype=torch.float64) for k, v in pol.items()}
    merged = cp.merge_aberration_coefficients(polt, {k: torch.tensor(v, dtype=torch.float64) for k, v in delta.items()})
    chi = cp.aberration_surface(_t(ctx, alpha), _t(ctx, phi), lam, merged).detach().numpy()
    ctx.close(_rel(chi - (ref + dref), S + dS), TOL, "merge_is_sum", lambda: "merge(%r, %r) is not the sum of the surfaces" % (pol, delta), **fields)
    ctx.nontrivial(("dense", scale, spec["rep"]), True)
    ctx.observe(coefs=pol, delta=delta, wavelength=lam, points=_npts(ctx))


def run_names(spec, idx, ctx):
    st = ctx.state
    torch, cp, du, validators = st["torch"], st["cp"], st["du"], st["validators"]
    f = {"kind": "names"}
    # naming schemes: every symbol/label of orders 1..5 is known under its documented name (supersets are fine)
    ctx.check(all(x in cp.POLAR_SYMBOLS for x in POLAR), "polar_symbol_set", "complex_probe.POLAR_SYMBOLS = %r" % (cp.POLAR_SYMBOLS,), **f)
    ctx.check(all(cp.POLAR_ALIASES.get(k) == v for k, v in ALIASES.items()), "alias_table", "complex_probe.POLAR_ALIASES = %r" % (cp.POLAR_ALIASES,), **f)
    pres = getattr(du, "ABERRATION_PRESETS", None)
    if pres is not None and "all" in pres:
        ctx.check(all(l in pres["all"] for l in CART), "cartesian_label_set", "ABERRATION_PRESETS['all'] = %r" % (pres["all"],), **f)
        for name, labs in pres.items():
            ok = True
            try:
                for l in labs:
                    n, m, kind = cp.parse_cartesian_aberration_label(l)
                    ok = ok and (kind in ("a", "b")) == (m > 0) and 0 <= m <= n + 1 and (n + 1 - m) % 2 == 0
            except Exception:  # noqa: BLE001
                ok = False
            ctx.check(ok, "cartesian_label_set", "preset %s = %r holds a label that is not a Cartesian aberration label" % (name, labs), **f)
    empty = cp.polar_to_cartesian_aberrations({})
    ctx.check(all(l in empty for l in CART) and all(float(v) == 0 for v in empty.values()), "cartesian_label_set", "polar_to_cartesian_aberrations({}) = %r" % (empty,), **f)
    for sym in POLAR + list(ALIASES):
        out = validators.validate_aberration_coefficients({sym: 1.25})
        exp = {"C10": -1.25} if sym == "defocus" else {ALIASES.get(sym, sym): 1.25}
        ctx.check(out == exp, "alias_defocus" if sym == "defocus" else "alias_table" if sym in ALIASES else "polar_symbol_set", "validate_aberration_coefficients({%r: 1.25}) = %r" % (sym, out), entry="validate_aberration_coefficients", **f)
        out2 = {k: float(v) for k, v in cp.standardize_aberration_coefs({sym: 1.25}).items()}
        ctx.check(out2 == exp, "alias_defocus" if sym == "defocus" else "alias_table" if sym in ALIASES else "polar_symbol_set", "standardize_aberration_coefs({%r: 1.25}) = %r" % (sym, out2), entry="standardize_aberration_coefs", **f)
    ctx.nontrivial(("names",), True)
    ctx.observe(polar=POLAR, cartesian=CART)


# ---- alias --------------------------------------------------------------------------------------


def _alias_input(rng, allow_none=True):
    """a user dictionary holding 'defocus' (never together with C10), other symbols/aliases, some None.
    Returns (user dict, expected canonical dict, defocus)."""
    d = float(rng.choice([-1.0, 1.0])) * float(10 ** rng.uniform(0, 3.5))
    if rng.random() < 0.1:
        d *= float(rng.choice([1e-8, 1e8]))  # scale family
    if rng.random() < 0.2:
        d = int(round(d)) or 7
    inv = {v: k for k, v in ALIASES.items() if k != "defocus"}
    others = [s for s in POLAR if s != "C10"]
    chosen = [str(x) for x in rng.choice(others, size=int(rng.integers(0, 6)), replace=False)]
    user, exp = {}, {}
    for j, s in enumerate(chosen):
        key = inv[s] if (s in inv and rng.random() < 0.5) else s
        if allow_none and j == 0 and rng.random() < 0.3:
            user[key] = None  # "not given": must be skipped
            continue
        v = float(rng.uniform(-PI, PI)) if s.startswith("phi") else float(rng.normal() * 100.0) or 1.0
        user[key] = v
        exp[s] = v
    items = list(user.items())
    items.insert(int(rng.integers(0, len(items) + 1)), ("defocus", d))
    exp["C10"] = -float(d)
    return dict(items), exp, d


def _nz(d):
    """non-zero canonical entries (an implementation may or may not fill absent symbols with zeros)"""
    return {k: float(v) for k, v in d.items() if k != "defocus" and v is not None and float(v) != 0.0}


def _surface_of(ctx, rng, coefs, exp, fields):
    """the accepted coefficients must describe the surface with C10 = -defocus"""
    cp = ctx.state["cp"]
    lam = 0.0251
    alpha, phi = _points(rng, "physical", 64)
    ref, S = chi_polar_np(alpha, phi, lam, exp)
    chi = cp.aberration_surface(_t(ctx, alpha), _t(ctx, phi), lam, {k: float(v) for k, v in coefs.items() if v is not None}).detach().numpy()
    ctx.close(_rel(chi - ref, S), 5e-5, "alias_surface", lambda: "surface of the accepted coefficients %r differs from the surface with C10=-defocus %r" % (coefs, exp), **fields)


def run_alias_fn(spec, idx, ctx):
    st = ctx.state
    cp, validators = st["cp"], st["validators"]
    rng = ctx.rng(idx)
    user, exp, d = _alias_input(rng)
    # 1. validate_aberration_coefficients (None entries are skipped)
    out = validators.validate_aberration_coefficients(user)
    f = {"kind": "alias", "entry": "validate_aberration_coefficients"}
    ctx.check(out.get("C10") == -float(d), "alias_defocus", lambda: "validate_aberration_coefficients(%r) -> %r, expected C10 = %r" % (user, out, -float(d)), **f)
    ctx.check(_nz(out) == _nz(exp), "alias_other_symbols", lambda: "validate_aberration_coefficients(%r) -> %r, expected %r" % (user, out, exp), **f)
    _surface_of(ctx, rng, out, exp, f)
    # 2. standardize_aberration_coefs (float32 tensors, no None support)
    user2 = {k: v for k, v in user.items() if v is not None}
    out2 = cp.standardize_aberration_coefs(user2)
    f = {"kind": "alias", "entry": "standardize_aberration_coefs"}
    got = float(out2["C10"]) if "C10" in out2 else float("nan")
    ctx.close((got + float(d)) / abs(float(d)), 1e-5, "alias_defocus", lambda: "standardize_aberration_coefs(%r)['C10'] = %r, expected %r" % (user2, got, -float(d)), **f)
    worst = max([abs(float(out2.get(k, float("nan"))) - v) / max(abs(v), 1e-30) for k, v in exp.items() if k != "C10"] or [0.0])
    ctx.close(worst, 1e-5, "alias_other_symbols", lambda: "standardize_aberration_coefs(%r) -> %r" % (user2, {k: float(v) for k, v in out2.items()}), **f)
    ctx.check(sorted(_nz({k: float(v) for k, v in out2.items()})) == sorted(_nz(exp)), "alias_other_symbols", lambda: "standardize_aberration_coefs non-zero keys %r, expected %r" % (sorted(out2), sorted(exp)), **f)
    _surface_of(ctx, rng, out2, exp, f)
    ctx.nontrivial(("alias_fn", spec["rep"]), d != 0)
    ctx.observe(user=user, validate=out, standardize={k: float(v) for k, v in out2.items()})


def run_alias_probe(spec, idx, ctx):
    st = ctx.state
    pm, torch = st["pm"], st["torch"]
    rng = ctx.rng(idx)
    user, exp, d = _alias_input(rng, allow_none=True)
    cls_name = "ProbePixelated" if spec["rep"] % 3 else "ProbeParametric"
    cls = getattr(pm, cls_name)
    form = ["top", "nested", "split", "reassign"][int(rng.integers(4))]
    base = {"energy": float(rng.choice([60e3, 80e3, 200e3, 300e3])), "semiangle_cutoff": float(rng.uniform(10, 30))}
    if form == "top":
        params = {**base, **user}
    elif form == "nested":
        params = {**base, "aberration_coefs": dict(user)}
    elif form == "split":  # defocus nested, the rest at top level
        params = {**base, **{k: v for k, v in user.items() if k != "defocus"}, "aberration_coefs": {"defocus": d}}
    else:
        params = dict(base)
    f = {"kind": "alias", "entry": cls_name + ".probe_params", "form": form}
    kw = {"rng": 0}
    if cls_name == "ProbeParametric":
        kw["max_aberrations_order"] = int(rng.integers(1, 6))
    model = cls.from_params(copy.deepcopy(params), **kw)
    if form == "reassign":
        model.probe_params = {**user}
    ab = model.probe_params["aberration_coefs"]
    ctx.check(ab.get("C10") == -float(d), "alias_defocus", lambda: "%s(%s): probe_params['aberration_coefs'] = %r, expected C10 = %r" % (cls_name, form, {k: v for k, v in ab.items() if v != 0}, -float(d)), **f)
    nz = {k: v for k, v in ab.items() if v != 0.0}
    expnz = {k: v for k, v in exp.items() if v != 0.0}
    ctx.check(nz == expnz, "alias_other_symbols", lambda: "%s(%s): non-zero aberration_coefs %r, expected %r" % (cls_name, form, nz, expnz), **f)
    _surface_of(ctx, rng, ab, exp, f)
    # the probe that is actually built equals the probe built from C10 = -defocus (twin run on the real model)
    shape = (int(rng.integers(12, 21)), int(rng.integers(12, 21)))
    rs = np.array([0.02, 0.02]) * float(rng.uniform(0.8, 1.5))
    twin_params = {**base, **{k: v for k, v in exp.items()}}
    twin = cls.from_params(twin_params, **kw)
    wrong = cls.from_params({**twin_params, "C10": float(d)}, **kw)
    if cls_name == "ProbeParametric" and form != "reassign":
        pc = dict(model.aberration_coefs.items()) if hasattr(model, "aberration_coefs") else {}
        got = float(pc["C10"].detach()) if "C10" in pc else float("nan")
        ctx.close((got + float(d)) / abs(float(d)), 1e-5, "alias_defocus", lambda: "ProbeParametric learnable C10 = %r, expected %r" % (got, -float(d)), **{**f, "entry": "ProbeParametric.aberration_coefs"})
    if form != "reassign" or cls_name == "ProbePixelated":
        for mdl in (model, twin, wrong):
            mdl.set_initial_probe(shape, rs, 1.0)
        with torch.no_grad():
            p, pt, pw = model.probe.detach(), twin.probe.detach(), wrong.probe.detach()
        scale = float(pt.abs().max())
        ctx.close(float((p - pt).abs().max()) / scale, 1e-5, "alias_probe_twin", lambda: "%s(%s): probe built from defocus=%r differs from the probe built from C10=%r" % (cls_name, form, d, -float(d)), **f)
        ctx.observe(wrong_sign_probe_distance=float((p - pw).abs().max()) / scale)
        if form == "nested" or form == "split":
            # check_probe_params back-fills the alias: defocus = -C10
            back = model.probe_params.get("defocus")
            ctx.check(back is None or float(back) == float(d), "alias_backfill", "probe_params['defocus'] back-filled as %r for C10=%r" % (back, -float(d)), **f)
    ctx.nontrivial(("alias_probe", cls_name, form, spec["rep"]), d != 0)
    ctx.observe(cls=cls_name, form=form, user=user, aberration_coefs=nz)


def _make_dp(ctx, rng, aberration_coefs, rotation=0.0, gpts=None, scan=(10, 12), want_factory=False):
    st = ctx.state
    dpm, Dataset2d, Dataset3d = st["dpm"], st["Dataset2d"], st["Dataset3d"]
    gpts = gpts or (int(rng.integers(10, 21)), int(rng.integers(10, 21)))
    ks = (float(rng.uniform(0.015, 0.03)), float(rng.uniform(0.015, 0.03)))
    kx = np.fft.fftfreq(gpts[0], 1.0 / (gpts[0] * ks[0]))
    ky = np.fft.fftfreq(gpts[1], 1.0 / (gpts[1] * ks[1]))
    KX, KY = np.meshgrid(kx, ky, indexing="ij")
    rad = float(rng.uniform(2.2, 4.0)) * max(ks)
    bf = (KX**2 + KY**2) <= rad**2
    if rng.random() < 0.5:  # irregular subset, still spanning both axes
        drop = rng.random(bf.shape) < 0.3
        keep = bf & ~drop
        ii, jj = np.nonzero(keep)
        if keep.sum() >= 5:
            B = np.stack([KX[keep], KY[keep]], 1)
            sv = np.linalg.svd(B, compute_uv=False)
            if sv[1] > 0.3 * sv[0]:
                bf = keep
    nbf = int(bf.sum())
    data = rng.normal(size=(nbf, *scan)).astype(np.float32)
    energy = float(rng.choice([60e3, 80e3, 200e3, 300e3]))
    semiangle = rad * _lambda(energy) * 1e3  # mrad: the bright-field disc is the aperture

    def factory(coefs, rot):
        vbf = Dataset3d.from_array(data.copy(), sampling=(1.0, 0.4, 0.5), units=("index", "A", "A"))
        mask = Dataset2d.from_array(bf.copy(), sampling=ks, units=("A^-1", "A^-1"))
        return dpm.DirectPtychography.from_virtual_bfs(vbf, mask, energy=energy, rotation_angle=rot, aberration_coefs=coefs, semiangle_cutoff=semiangle, verbose=False, crop_bf_mask=False, rng=0)

    dp = factory(aberration_coefs, rotation)
    if want_factory:
        return dp, nbf, gpts, ks, factory
    return dp, nbf, gpts, ks


def run_alias_direct(spec, idx, ctx):
    st = ctx.state
    torch, dpm = st["torch"], st["dpm"]
    rng = ctx.rng(idx)
    user, exp, d = _alias_input(rng, allow_none=True)
    f = {"kind": "alias", "entry": "DirectPtychography"}
    dp, nbf, gpts, ks = _make_dp(ctx, rng, dict(user), rotation=float(rng.uniform(-0.5, 0.5)))
    got = dp.aberration_coefs
    ctx.check(got.get("C10") == -float(d), "alias_defocus", lambda: "DirectPtychography(aberration_coefs=%r).aberration_coefs = %r" % (user, got), **{**f, "form": "constructor"})
    ctx.check(_nz(got) == _nz(exp), "alias_other_symbols", lambda: "DirectPtychography.aberration_coefs = %r, expected %r" % (got, exp), **{**f, "form": "constructor"})
    # override dictionaries go through the same alias rule
    d2 = float(rng.choice([-1.0, 1.0])) * float(10 ** rng.uniform(1, 3))
    cur = dp.hyperparameter_state.current_aberrations({"defocus": d2})
    ctx.check(cur.get("C10") == -d2, "alias_defocus", lambda: "current_aberrations(override {'defocus': %r}) = %r" % (d2, cur), **{**f, "form": "override"})
    # twin reconstructions: override by alias == override by C10 = -defocus, through the real pipeline
    kernel = str(rng.choice(["ssb", "prlx", "icom", "obf", "mf"]))
    # several common options together (random point of the cross product)
    opts = {"upsampling_factor": [None, 2][int(rng.integers(2))], "max_batch_size": [None, 7][int(rng.integers(2))], "q_lowpass": [None, 0.8][int(rng.integers(2))], "q_highpass": [None, 0.05][int(rng.integers(2))], "parallax_flip_phase": bool(rng.integers(2))}
    st["captured"].clear()
    a = dp.reconstruct(override_aberration_coefs={"defocus": d2}, deconvolution_kernel=kernel, verbose=False, **opts).corrected_stack.clone()
    cap = list(st["captured"])
    b = dp.reconstruct(override_aberration_coefs={"C10": -d2}, deconvolution_kernel=kernel, verbose=False, **opts).corrected_stack.clone()
    w = dp.reconstruct(override_aberration_coefs={"C10": d2}, deconvolution_kernel=kernel, verbose=False, **opts).corrected_stack.clone()
    scale = float(b.abs().max()) or 1.0
    ctx.close(float((a - b).abs().max()) / scale, 1e-5, "alias_reconstruct_twin", lambda: "reconstruct(override defocus=%r) differs from reconstruct(override C10=%r), kernel %s" % (d2, -d2, kernel), **{**f, "form": "reconstruct", "kernel": kernel})
    if cap and isinstance(cap[0], dict):
        ctx.check(cap[0].get("C10") == -d2, "alias_defocus", lambda: "reconstruct handed %r to evaluate_probe" % (cap[0],), **{**f, "form": "reconstruct_hook"})
    ctx.nontrivial(("alias_direct", spec["rep"]), d != 0 and d2 != 0)
    ctx.observe(user=user, constructor=got, override_defocus=d2, kernel=kernel, wrong_sign_distance=float((a - w).abs().max()) / scale, n_bf=nbf, gpts=gpts)


def run_direct_history(spec, idx, ctx):
    """the coefficients a DirectPtychography model was given keep describing the same surface across public calls
    that do not set aberrations: edits of returned dictionaries, rotation-only searches, later searches/fits"""
    st = ctx.state
    dpm = st["dpm"]
    rng = ctx.rng(idx)
    user, exp, d = _alias_input(rng, allow_none=False)
    if "C12" not in exp:  # construction-time astigmatism as well
        exp["C12"], user["astigmatism"] = 17.5, 17.5
    rot0 = float(rng.uniform(-0.5, 0.5))
    given = dict(user)
    dp, nbf, gpts, ks, factory = _make_dp(ctx, rng, given, rotation=rot0, want_factory=True)
    variant = spec["rep"] % 3
    f = {"kind": "direct_history", "entry": "DirectPtychography", "variant": ["search_search", "search_fit", "search_search_fixed"][variant]}
    fitted = set()

    def state_ok(step, extra=None):
        want = dict(exp)
        want.update(extra or {})
        got = dp.aberration_coefs
        g, w = _nz(got), {k: v for k, v in _nz(want).items()}
        for k in fitted:  # symbols a fit legitimately re-estimated
            g.pop(k, None)
            w.pop(k, None)
        ctx.check(g == w, "coefficients_survive_history", lambda: "after %s the model holds %r; it was constructed with %r (C10 = -defocus = %r)" % (step, got, user, -float(d)), step=step, **f)

    def scribble(dct):
        """the harness edits 'its' copy"""
        if isinstance(dct, dict):
            dct["C10"] = 4321.0
            dct.pop("C12", None)
            dct["C50"] = -7.0e6
            dct["defocus"] = 99.0

    def neutral():
        """reads / copies / reprs between the steps: neutral on the unchanged tree"""
        hs_ = dp.hyperparameter_state
        repr(hs_), str(dp.rotation_angle), dp.aberration_coefs, dp.semiangle_cutoff, dp.device
        for which in ("initial", "optimized", "current", "all"):
            hs_.summarize(which=which) if hasattr(hs_, "summarize") else None
        hs_.copy() if hasattr(hs_, "copy") else None
        copy.deepcopy(hs_)
        if getattr(dp, "corrected_stack", None) is not None:
            dp.variance_loss(), dp.corrected_bf, dp.obj

    _state_ok = state_ok

    def state_ok(step, extra=None):  # noqa: F811
        if spec["rep"] % 2:
            neutral()
        _state_ok(step, extra)

    state_ok("construction")
    # (a) returned / passed dictionaries are the caller's: editing them must not edit the model
    scribble(given)
    state_ok("editing the dictionary that was passed to the constructor")
    scribble(dp.aberration_coefs)
    state_ok("editing the dictionary returned by aberration_coefs")
    hs = dp.hyperparameter_state
    if hasattr(hs, "current_aberrations"):
        scribble(hs.current_aberrations())
        state_ok("editing the dictionary returned by current_aberrations()")
        ov = {"defocus": 55.0}
        scribble(hs.current_aberrations(ov))
        ctx.check(ov == {"defocus": 55.0}, "coefficients_survive_history", "current_aberrations(override) modified the override dictionary: %r" % (ov,), step="override argument", **f)
        state_ok("editing the dictionary returned by current_aberrations(override)")
    # kernels whose reconstruction is non-zero on these tiny scenes (single-sideband has no double-overlap region here: every
    # trial loss is inf and the library's grid search then has no best trial)
    kernel = str(rng.choice(["icom", "prlx"]))
    a = dp.reconstruct(deconvolution_kernel=kernel, verbose=False).corrected_stack.clone()
    fresh = factory(dict(exp), rot0)
    b = fresh.reconstruct(deconvolution_kernel=kernel, verbose=False).corrected_stack.clone()
    scale = float(b.abs().max()) or 1.0
    ctx.close(float((a - b).abs().max()) / scale, 1e-5, "history_reconstruct_twin", lambda: "after the dictionary edits reconstruct() differs from a fresh instance built with the same coefficients (kernel %s)" % kernel, step="dictionary edits", **f)
    # (b) rotation-only grid search, then another search / a fit
    OP = getattr(dpm, "OptimizationParameter", None)
    if OP is not None and hasattr(dp, "grid_search_hyperparameters"):
        dp.grid_search_hyperparameters(rotation_angle=OP(rot0 - 0.2, rot0 + 0.2, n_points=2), deconvolution_kernel=kernel, verbose=False)
        state_ok("a rotation-only grid search")
        scribble(dp.aberration_coefs)
        state_ok("editing aberration_coefs after the search")
        r1 = float(dp.rotation_angle)
        extra = {}
        if variant == 0:
            dp.grid_search_hyperparameters(rotation_angle=OP(r1 - 0.05, r1 + 0.05, n_points=2), deconvolution_kernel=kernel, verbose=False)
            step = "a second rotation-only grid search"
        elif variant == 2:
            extra = {"C21": 333.0}
            dp.grid_search_hyperparameters(aberration_coefs={"coma": 333.0}, rotation_angle=OP(r1 - 0.05, r1 + 0.05, n_points=2), deconvolution_kernel=kernel, verbose=False)
            step = "a grid search with a fixed coma override after the rotation-only search"
        else:
            dp.fit_hyperparameters_cross_correlation(bin_factors=(1,), verbose=False)
            fitted.update({"C10", "C12", "phi12"})
            step = "a cross-correlation fit after the rotation-only search"
        state_ok(step, extra)
        if variant != 1:
            r2 = float(dp.rotation_angle)
            a = dp.reconstruct(deconvolution_kernel=kernel, verbose=False).corrected_stack.clone()
            fresh = factory({**exp, **extra}, r2)
            b = fresh.reconstruct(deconvolution_kernel=kernel, verbose=False).corrected_stack.clone()
            scale = float(b.abs().max()) or 1.0
            ctx.close(float((a - b).abs().max()) / scale, 1e-5, "history_reconstruct_twin", lambda: "after %s reconstruct() differs from a fresh instance built with the construction-time coefficients and rotation %r" % (step, r2), step=step, **f)
    else:
        ctx.hooks_missing.append("DirectPtychography.grid_search_hyperparameters")
    ctx.nontrivial(("direct_history", variant, spec["rep"]), d != 0)
    ctx.observe(user=user, expected=exp, variant=f["variant"], kernel=kernel, n_bf=nbf, final=dp.aberration_coefs, rotation=float(dp.rotation_angle))


# ---- numeric forms of coefficient values -----------------------------------------------------------

_INT_RANGES = {"int8": (-128, 127), "int16": (-32768, 32767), "int32": (-(2**31), 2**31 - 1), "int64": (-(2**63), 2**63 - 1), "uint8": (0, 255), "uint16": (0, 65535), "uint32": (0, 2**32 - 1), "uint64": (0, 2**64 - 1)}
FORMS = ["py_int", "py_float"]
FORMS += ["np.%s" % t for t in ("float16", "float32", "float64", *_INT_RANGES)]
FORMS += ["np0d.%s" % t for t in ("float32", "float64", *_INT_RANGES)]
FORMS += ["npelem.%s" % t for t in ("float32", "uint8", "uint16", "int16", "uint64")]
FORMS += ["torch.%s" % t for t in ("float16", "float32", "float64", "int8", "int16", "int32", "int64", "uint8")]
FORMS += ["torchelem.%s" % t for t in ("float32", "uint8", "int64")]


def _form_value(ctx, rng, form, edge):
    """a coefficient value in the given numeric form (magnitudes that make sense as Angstrom values)"""
    torch = ctx.state["torch"]
    lib, _, t = form.partition(".")
    if form == "py_int":
        return int(rng.integers(-3000, 3000)) or 5
    if form == "py_float":
        return float(rng.uniform(-3000, 3000))
    if t.startswith("float"):
        v = float(rng.uniform(-2000, 2000))
    else:
        lo, hi = _INT_RANGES[t]
        if edge == 1:
            v = hi if hi < 2**53 else 2**40  # large values stay exactly representable as float
        elif edge == 2 and lo < 0:
            v = lo if lo > -(2**53) else -(2**40)
        else:
            v = int(rng.integers(max(lo, -5000), min(hi, 5000) + 1)) or 1
    if lib == "np":
        return getattr(np, t)(v)
    if lib == "np0d":
        return np.array(v, dtype=t)
    if lib == "npelem":
        arr = np.array([v, v], dtype=t)  # e.g. one element of a focal-series array
        return arr[1]
    dt = getattr(torch, t)
    if lib == "torch":
        return torch.tensor(v, dtype=dt)
    return torch.tensor([v, v], dtype=dt)[0]


def run_alias_forms(spec, idx, ctx):
    """C10 = -float(defocus) whatever numeric type carries the value, identically in every entry point"""
    st = ctx.state
    cp, validators, pm, dpm = st["cp"], st["validators"], st["pm"], st["dpm"]
    rng = ctx.rng(idx)
    form = spec["form"]
    v = _form_value(ctx, rng, form, spec["rep"] % 3)
    w = _form_value(ctx, rng, form, 0)  # a canonical coefficient in the same form
    want = -float(v)
    base = {"energy": 80e3, "semiangle_cutoff": 20.0}
    f = {"kind": "alias_forms", "value_form": form.split(".")[0], "value_dtype": form.split(".")[-1], "signedness": "unsigned" if "uint" in form else "signed"}
    results = {}

    def entry(name, fn, tol=0.0):
        out = fn()
        got = float(out["C10"]) if "C10" in out else float("nan")
        results[name] = got
        err = abs(got - want) / max(abs(want), 1e-30)
        ctx.close(err, tol if tol else 1e-15, "alias_defocus", lambda: "%s: defocus = %r (%s) gives C10 = %r, expected -float(value) = %r" % (name, v, form, got, want), entry=name, **f)
        g30 = float(out["C30"]) if "C30" in out else float("nan")
        ctx.close(abs(g30 - float(w)) / max(abs(float(w)), 1e-30), tol if tol else 1e-15, "alias_other_symbols", lambda: "%s: Cs = %r (%s) gives C30 = %r" % (name, w, form, g30), entry=name, **f)

    entry("validate_aberration_coefficients", lambda: validators.validate_aberration_coefficients({"defocus": v, "Cs": w}))
    entry("standardize_aberration_coefs", lambda: cp.standardize_aberration_coefs({"defocus": v, "Cs": w}), tol=1e-5)
    entry("ProbePixelated.probe_params", lambda: pm.ProbePixelated.from_params({**base, "defocus": v, "Cs": w}, rng=0).probe_params["aberration_coefs"])
    entry("ProbePixelated.probe_params[nested]", lambda: pm.ProbePixelated.from_params({**base, "aberration_coefs": {"defocus": v, "C30": w}}, rng=0).probe_params["aberration_coefs"])
    entry("ProbeParametric.probe_params", lambda: pm.ProbeParametric.from_params({**base, "defocus": v, "C30": w}, rng=0, max_aberrations_order=1).probe_params["aberration_coefs"])
    HS = getattr(dpm, "HyperparameterState", None)
    if HS is not None:
        entry("HyperparameterState(initial)", lambda: HS(initial_aberrations={"defocus": v, "Cs": w}).current_aberrations())
        entry("HyperparameterState.current_aberrations(override)", lambda: HS(initial_aberrations={"C10": 1.0}).current_aberrations({"defocus": v, "Cs": w}))
    vals = [x for k, x in results.items() if k != "standardize_aberration_coefs"]
    ctx.check(all(x == vals[0] for x in vals), "alias_entry_points_agree", lambda: "entry points disagree on C10 for defocus = %r (%s): %r" % (v, form, results), **f)
    ctx.nontrivial(("alias_forms", form, spec["rep"]), float(v) != 0.0)
    ctx.observe(form=form, value=repr(v), expected_C10=want, results=results)


# ---- proactive widening: size, layout, process-global state, equivalent forms, feedback -----------------


def _layout(torch, x, form):
    """the same values in a different memory layout"""
    if form == "contiguous":
        return x.contiguous()
    if form == "fortran":
        return x.transpose(-1, -2).contiguous().transpose(-1, -2)
    if form == "strided":
        big = torch.zeros(tuple(x.shape[:-1]) + (2 * x.shape[-1],), dtype=x.dtype)
        big[..., ::2] = x
        return big[..., ::2]
    if form == "rowstrided":
        big = torch.zeros((3 * x.shape[0],) + tuple(x.shape[1:]), dtype=x.dtype)
        big[1::3] = x
        return big[1::3]
    if form == "from_numpy":
        return torch.from_numpy(np.asfortranarray(x.numpy()))  # a view of (Fortran-ordered) NumPy memory
    if form == "readonly_numpy":
        a = x.numpy().copy()
        t = torch.from_numpy(a)
        a.setflags(write=False)
        return t
    raise HarnessError(form)


LAYOUTS = ["fortran", "strided", "rowstrided", "from_numpy", "readonly_numpy"]


def run_layout(spec, idx, ctx):
    st = ctx.state
    torch, cp, du = st["torch"], st["cp"], st["du"]
    rng = ctx.rng(idx)
    form = LAYOUTS[spec["rep"] % len(LAYOUTS)]
    dt = [torch.float64, torch.float32][(spec["rep"] // len(LAYOUTS)) % 2]
    shape = (int(rng.integers(5, 20)), int(rng.integers(5, 20)))
    pol = _dense_polar(rng, "physical")
    lam = _wavelength(rng, "physical")
    alpha, phi = _points(rng, "physical", shape[0] * shape[1])
    A0 = torch.tensor(alpha.reshape(shape), dtype=dt)
    P0 = torch.tensor(phi.reshape(shape), dtype=dt)
    f = {"kind": "layout", "layout": form, "dtype": str(dt).split(".")[-1]}
    tol = 1e-13 if dt == torch.float64 else 1e-5
    A, P = _layout(torch, A0, form), _layout(torch, P0, form)
    variants = [("both", A, P), ("alpha_only", A, P0), ("expanded_phi", A, P0[:1, :1].expand(shape))]
    for vname, a_, p_ in variants:
        pc = p_.contiguous()
        for name, fn in (
            ("aberration_surface", lambda a, p: cp.aberration_surface(a, p, lam, pol)),
            ("polar_gradients", lambda a, p: torch.stack(cp.aberration_surface_polar_gradients(a, p, pol))),
            ("cartesian_gradients", lambda a, p: torch.stack(cp.aberration_surface_cartesian_gradients(a, p, pol))),
            ("cartesian_basis", lambda a, p: cp.aberration_surface_cartesian_basis(a, p, lam, CART[:9])),
        ):
            got, ref = fn(a_, p_), fn(A0, pc)
            sc = float(ref.abs().max()) or 1.0
            ctx.close(float((got - ref).abs().max()) / sc, tol, "layout_changes_result", lambda: "%s on %s (%s, %s) input differs from the result for a contiguous copy" % (name, form, vname, dt), function=name, variant=vname, **f)
    # the float64 reference as well (values, not only self-consistency)
    ref64, S = chi_polar_np(A0.double().numpy(), P0.double().numpy(), lam, pol)
    got = cp.aberration_surface(A, P, lam, pol).double().numpy()
    ctx.close(_rel(got - ref64, S), 1e-11 if dt == torch.float64 else 3e-5, "surface_vs_series", lambda: "aberration_surface on %s input differs from the series" % form, **f)
    # fit: shifts / mask in other layouts, grid sizes and samplings as lists / numpy scalars
    dp, nbf, gpts, ks = _make_dp(ctx, rng, {}, rotation=0.0, scan=(4, 4))
    c10 = float(rng.choice([-1.0, 1.0])) * float(rng.uniform(50, 800))
    coefs = {"C10": c10, "C12": 0.3 * abs(c10), "phi12": float(rng.uniform(-1.5, 1.5))}
    rot = float(rng.uniform(-1.2, 1.2))
    sh = dp._return_lateral_shifts(rot, coefs, dp.bf_mask) if hasattr(dp, "_return_lateral_shifts") else None
    if sh is not None:
        ref = du.fit_aberrations_from_shifts(sh.contiguous(), dp.bf_mask, dp.wavelength, dp.gpts, dp.sampling)
        wide = torch.zeros((sh.shape[0], 4), dtype=sh.dtype)
        wide[:, ::2] = sh
        mask_nc = _layout(torch, dp.bf_mask.to(torch.uint8), "fortran").bool() if dp.bf_mask.ndim == 2 else dp.bf_mask
        mask_nc = dp.bf_mask.t().contiguous().t()
        got = du.fit_aberrations_from_shifts(wide[:, ::2], mask_nc, np.float64(dp.wavelength), [int(g) for g in dp.gpts], [np.float64(x) for x in dp.sampling])
        sc = max(abs(c10), 1.0)
        err = max(abs(got["C10"] - ref["C10"]) / sc, abs(got["C12"] - ref["C12"]) / sc, abs(got["rotation_angle"] - ref["rotation_angle"]), abs(got["phi12"] - ref["phi12"]))
        ctx.close(err, 1e-4, "layout_changes_result", lambda: "fit_aberrations_from_shifts on strided shifts / Fortran mask / list arguments: %r vs %r" % (got, ref), function="fit_aberrations_from_shifts", variant="strided", **f)
    ctx.nontrivial(("layout", form, str(dt), spec["rep"]), True)
    ctx.observe(layout=form, dtype=str(dt), shape=shape, coefs=pol)


def run_big_grid(spec, idx, ctx):
    """arrays far larger than the random draws (2**20 .. 2**22 points): a strided sub-sample must agree with the series,
    and whole rows must agree with the same rows evaluated on their own"""
    st = ctx.state
    torch, cp = st["torch"], st["cp"]
    rng = ctx.rng(idx)
    r = spec["rep"]
    f = {"kind": "big_grid", "family": spec["family"]}
    pol = _dense_polar(rng, "physical")
    if spec["family"] == "points64":
        shape = [(1024, 1024), (2048, 1031), (4096, 1024), (1 << 21, 1)][r % 4]
        n = shape[0] * shape[1]
        lam = _wavelength(rng, "physical")
        g = torch.Generator().manual_seed(int(rng.integers(1 << 30)))
        A = torch.rand(shape, dtype=torch.float64, generator=g) * 0.034 + 0.001
        P = (torch.rand(shape, dtype=torch.float64, generator=g) * 2 - 1) * PI
        if r % 2:
            A, P = A.t().contiguous().t(), P.t().contiguous().t()  # Fortran order
        chi = cp.aberration_surface(A, P, lam, pol)
        dk, dphi = cp.aberration_surface_polar_gradients(A, P, pol)
        idxs = torch.arange(0, n, 4099)[:600]
        a_s, p_s = A.reshape(-1)[idxs].numpy(), P.reshape(-1)[idxs].numpy()
        ref, S = chi_polar_np(a_s, p_s, lam, pol)
        ctx.close(_rel(chi.reshape(-1)[idxs].numpy() - ref, S), TOL, "surface_vs_series", lambda: "big grid %s: sampled points differ from the series" % (shape,), n_points=n, **f)
        gr, gp, G = grad_polar_np(a_s, p_s, pol)
        ctx.close(max(_rel(dk.reshape(-1)[idxs].numpy() - gr, G), _rel(dphi.reshape(-1)[idxs].numpy() - gp, G)), TOL, "polar_gradient_vs_series", lambda: "big grid %s: sampled gradient differs" % (shape,), n_points=n, **f)
        rows = [0, shape[0] // 2, shape[0] - 1]
        sub = cp.aberration_surface(A[rows].contiguous(), P[rows].contiguous(), lam, pol)
        ctx.close(float((chi[rows] - sub).abs().max()) / (float(sub.abs().max()) or 1.0), 1e-13, "big_grid_rows_vs_small_twin", lambda: "rows of the big evaluation differ from the same rows evaluated alone", n_points=n, **f)
        labs = CART[:3] + CART[-2:]
        B = cp.aberration_surface_cartesian_basis(A, P, lam, labs)
        for j, lab in enumerate(labs):
            rj, Sj = chi_cart_np(a_s, p_s, lam, {lab: 1.0})
            ctx.close(_rel(B.reshape(-1, len(labs))[idxs, j].numpy() - rj, Sj), TOL, "cartesian_basis_function", lambda: "big grid: basis %s differs" % lab, n_points=n, **f)
        ctx.check(tuple(chi.shape) == tuple(shape) and bool(torch.isfinite(chi).all()), "big_grid_finite", "non-finite values or shape %s on the big grid" % (tuple(chi.shape),), n_points=n, **f)
    else:  # the library's own float32 k-grid at a large detector size, with rotation
        gpts = [(1024, 1024), (2048, 1536), (3000, 701)][r % 3]
        samp = (float(rng.uniform(0.05, 0.3)), float(rng.uniform(0.05, 0.3)))
        rot = [None, float(rng.uniform(-3, 3))][r % 2]
        lam = _lambda(float(rng.choice([80e3, 300e3])))
        kx, ky = cp.spatial_frequencies(gpts, samp, rotation_angle=rot)
        fx = np.fft.fftfreq(gpts[0], samp[0])[:, None] * np.ones((1, gpts[1]))
        fy = np.fft.fftfreq(gpts[1], samp[1])[None, :] * np.ones((gpts[0], 1))
        if rot is not None:
            fx, fy = fx * math.cos(rot) - fy * math.sin(rot), fx * math.sin(rot) + fy * math.cos(rot)
        kmax = float(np.hypot(fx, fy).max())
        n = gpts[0] * gpts[1]
        ctx.close(max(float(np.abs(kx.numpy() - fx).max()), float(np.abs(ky.numpy() - fy).max())) / kmax, 1e-6, "k_grid_vs_fftfreq", lambda: "spatial_frequencies%r rotation %r differs from fftfreq" % (gpts, rot), n_points=n, **f)
        k, phi = cp.polar_coordinates(kx, ky)
        alpha = k * lam
        small = alpha <= 0.04
        chi = cp.aberration_surface(alpha, phi, lam, pol)
        idxs = torch.nonzero(small.reshape(-1))[:, 0][:: max(1, int(small.sum()) // 500)][:600]
        a_s, p_s = alpha.reshape(-1)[idxs].double().numpy(), phi.reshape(-1)[idxs].double().numpy()
        ref, S = chi_polar_np(a_s, p_s, lam, pol)
        ctx.close(_rel(chi.reshape(-1)[idxs].double().numpy() - ref, S), 3e-5, "surface_vs_series", lambda: "float32 k-grid %r: sampled points differ from the series" % (gpts,), n_points=n, **f)
        dx, dy = cp.aberration_surface_cartesian_gradients(alpha, phi, pol)
        gr, gp, G = grad_polar_np(a_s, p_s, pol)
        ex = np.cos(p_s) * gr - np.sin(p_s) * gp
        ey = np.sin(p_s) * gr + np.cos(p_s) * gp
        ctx.close(max(_rel(dx.reshape(-1)[idxs].double().numpy() - ex, G), _rel(dy.reshape(-1)[idxs].double().numpy() - ey, G)), 3e-5, "cartesian_gradient_vs_series", lambda: "float32 k-grid %r: sampled Cartesian gradient differs" % (gpts,), n_points=n, **f)
    ctx.nontrivial(("big_grid", spec["family"], r), True)
    ctx.observe(family=spec["family"], n_points=n, coefs=pol)


STATES = ["default_dtype_float64", "no_grad", "inference_mode", "grad_disabled", "deterministic_algorithms", "matmul_precision_medium", "num_threads_3", "numpy_errstate_raise", "config_float64", "numpy_printoptions"]


@contextlib.contextmanager
def _state(ctx, name):
    """process-global state a user may set, applied around the calls and restored afterwards"""
    torch = ctx.state["torch"]
    from quantem.core import config as qconfig

    if name == "default_dtype_float64":
        old = torch.get_default_dtype()
        torch.set_default_dtype(torch.float64)
        try:
            yield
        finally:
            torch.set_default_dtype(old)
    elif name == "no_grad":
        with torch.no_grad():
            yield
    elif name == "inference_mode":
        with torch.inference_mode():
            yield
    elif name == "grad_disabled":
        with torch.set_grad_enabled(False):
            yield
    elif name == "deterministic_algorithms":
        old = torch.are_deterministic_algorithms_enabled()
        torch.use_deterministic_algorithms(True)
        try:
            yield
        finally:
            torch.use_deterministic_algorithms(old)
    elif name == "matmul_precision_medium":
        old = torch.get_float32_matmul_precision()
        torch.set_float32_matmul_precision("medium")
        try:
            yield
        finally:
            torch.set_float32_matmul_precision(old)
    elif name == "num_threads_3":
        old = torch.get_num_threads()
        torch.set_num_threads(3)
        try:
            yield
        finally:
            torch.set_num_threads(old)
    elif name == "numpy_errstate_raise":
        with np.errstate(all="raise"):
            yield
    elif name == "numpy_printoptions":
        with np.printoptions(precision=2, suppress=True), contextlib.ExitStack() as es:
            torch.set_printoptions(precision=2)
            es.callback(lambda: torch.set_printoptions(profile="default"))
            yield
    elif name == "config_float64":
        keys = ("dtype_real", "dtype_complex", "precision")
        old = {k: qconfig.get(k) for k in keys}
        qconfig.set({"dtype_real": "float64", "dtype_complex": "complex128", "precision": "float64"})
        try:
            yield
        finally:
            qconfig.set(old)
    else:
        raise HarnessError(name)


def _bundle(ctx, seed):
    """a fixed bundle of C12 computations (same random inputs for a given seed); returns named float64 arrays"""
    st = ctx.state
    torch, cp, du, pm, validators = st["torch"], st["cp"], st["du"], st["pm"], st["validators"]
    rng = np.random.default_rng([12, 77, seed])
    out = {}
    pol = _dense_polar(rng, "physical")
    lam = _wavelength(rng, "physical")
    alpha, phi = _points(rng, "physical", 120)
    A, P = torch.tensor(alpha, dtype=torch.float64), torch.tensor(phi, dtype=torch.float64)
    out["surface"] = cp.aberration_surface(A, P, lam, pol)
    out["polar_gradients"] = torch.stack(cp.aberration_surface_polar_gradients(A, P, pol))
    out["cartesian_gradients"] = torch.stack(cp.aberration_surface_cartesian_gradients(A, P, pol))
    out["basis"] = cp.aberration_surface_cartesian_basis(A, P, lam, CART)
    polt = {k: torch.tensor(v, dtype=torch.float64) for k, v in pol.items()}
    cart = cp.polar_to_cartesian_aberrations(polt)
    back = cp.cartesian_to_polar_aberrations(cart)
    out["roundtrip_surface"] = cp.aberration_surface(A, P, lam, back)
    out["merge_surface"] = cp.aberration_surface(A, P, lam, cp.merge_aberration_coefficients(polt, {"C12_a": torch.tensor(3.0, dtype=torch.float64), "C30": torch.tensor(1e4, dtype=torch.float64)}))
    d = float(rng.uniform(50, 500))
    out["standardize_C10"] = torch.tensor(float(cp.standardize_aberration_coefs({"defocus": d, "Cs": 2e5})["C10"]), dtype=torch.float64)
    out["validate_C10"] = torch.tensor(float(validators.validate_aberration_coefficients({"defocus": d})["C10"]), dtype=torch.float64)
    out["expected_C10"] = torch.tensor(-d, dtype=torch.float64)
    model = pm.ProbePixelated.from_params({"energy": 80e3, "semiangle_cutoff": 20.0, "defocus": d, "astigmatism": 30.0, "astigmatism_angle": 0.4}, rng=0)
    out["probe_C10"] = torch.tensor(float(model.probe_params["aberration_coefs"]["C10"]), dtype=torch.float64)
    model.set_initial_probe((16, 18), np.array([0.02, 0.02]), 1.0)
    out["probe"] = torch.view_as_real(model.probe.detach().to(torch.complex128))
    dp, nbf, gpts, ks = _make_dp(ctx, rng, {"defocus": d}, rotation=0.1, scan=(6, 6))
    out["dp_C10"] = torch.tensor(float(dp.aberration_coefs["C10"]), dtype=torch.float64)
    c10 = float(rng.uniform(100, 600))
    coefs = {"C10": c10, "C12": 0.4 * c10, "phi12": 0.5}
    sh = dp._return_lateral_shifts(0.6, coefs, dp.bf_mask) if hasattr(dp, "_return_lateral_shifts") else None
    if sh is not None:
        out["lateral_shifts"] = sh
        fit = du.fit_aberrations_from_shifts(sh, dp.bf_mask, dp.wavelength, dp.gpts, dp.sampling)
        out["fit"] = torch.tensor([fit["C10"] / c10, fit["C12"] / c10, fit["phi12"], fit["rotation_angle"]], dtype=torch.float64)
        out["fit_truth"] = torch.tensor([1.0, 0.4, 0.5, 0.6], dtype=torch.float64)
    out["reconstruct"] = dp.reconstruct(override_aberration_coefs={"defocus": 0.5 * d}, deconvolution_kernel="icom", verbose=False).corrected_stack
    return {k: v.detach().to(torch.float64).clone() for k, v in out.items()}


_BUNDLE_TOL = {"probe": 1e-5, "reconstruct": 1e-4, "lateral_shifts": 1e-5, "fit": 1e-4, "standardize_C10": 1e-6}


def run_global_state(spec, idx, ctx):
    st = ctx.state
    name = spec["state"]
    seed = spec["rep"]
    ref = _bundle(ctx, seed)
    with _state(ctx, name):
        got = _bundle(ctx, seed)
    f = {"kind": "global_state", "state": name}
    for k, r in ref.items():
        g = got.get(k)
        sc = float(r.abs().max()) or 1.0
        ok_shape = g is not None and tuple(g.shape) == tuple(r.shape)
        ctx.close(float((g - r).abs().max()) / sc if ok_shape else float("inf"), _BUNDLE_TOL.get(k, 1e-12), "global_state_changes_result", lambda: "%s under %s differs from the default-state result" % (k, name), quantity=k, **f)
    for k in ("standardize_C10", "validate_C10", "probe_C10", "dp_C10"):
        ctx.close(float((got[k] - got["expected_C10"]).abs()) / float(got["expected_C10"].abs()), 1e-6, "alias_defocus", lambda: "%s under %s: %r, expected %r" % (k, name, float(got[k]), float(got["expected_C10"])), entry=k, **f)
    if "fit" in got:
        ctx.close(float((got["fit"] - got["fit_truth"]).abs().max()), 1e-4, "fit_recovers", lambda: "fit under %s: %r" % (name, got["fit"].tolist()), **f)
    # the state itself is restored
    torch = st["torch"]
    ctx.check(torch.get_default_dtype() == torch.float32 and torch.is_grad_enabled() and not torch.is_inference_mode_enabled(), "harness_state_restored", "global state not restored after %s" % name, **f)
    ctx.nontrivial(("global_state", name, seed), True)
    ctx.observe(state=name, quantities=sorted(ref))


def run_equiv_forms(spec, idx, ctx):
    """the same coefficient set written in every accepted way (key order, alias names, nested / flat, mapping type, numeric
    type of the values) means the same thing at every entry point; outputs fed back as inputs are fixed points"""
    st = ctx.state
    torch, cp, du, pm, validators, dpm = st["torch"], st["cp"], st["du"], st["pm"], st["validators"], st["dpm"]
    rng = ctx.rng(idx)
    user, exp, d = _alias_input(rng, allow_none=False)
    inv = {v: k for k, v in ALIASES.items()}
    canonical = dict(sorted({**{k: v for k, v in exp.items() if k != "C10"}}.items()))
    base_items = [("defocus", d)] + list(canonical.items())

    def spell(items, how):
        if how == "alias":
            return [(inv.get(k, k) if k != "defocus" else k, v) for k, v in items]
        return items

    def vals(items, how):
        if how == "np":
            return [(k, np.float64(v)) for k, v in items]
        if how == "tensor":
            return [(k, torch.tensor(v, dtype=torch.float64)) for k, v in items]
        if how == "mixed":
            kinds = [float, np.float64, lambda v: torch.tensor(v, dtype=torch.float64), lambda v: np.array(v)]
            return [(k, kinds[j % 4](v)) for j, (k, v) in enumerate(items)]
        if how == "mixed_surface":  # the surface functions take float | Tensor values (np.float64 is a float); 0-d ndarrays raise on the unchanged tree
            kinds = [float, np.float64, lambda v: torch.tensor(v, dtype=torch.float64)]
            return [(k, kinds[j % 3](v)) for j, (k, v) in enumerate(items)]
        return items

    forms = {}
    forms["canonical_sorted"] = dict(base_items)
    forms["reversed"] = dict(reversed(base_items))
    forms["shuffled"] = dict([base_items[i] for i in rng.permutation(len(base_items))])
    forms["alias_names"] = dict(spell(base_items, "alias"))
    forms["alias_reversed"] = dict(reversed(spell(base_items, "alias")))
    forms["ordered_dict"] = collections.OrderedDict(reversed(base_items))
    forms["numpy_values"] = dict(vals(base_items, "np"))
    forms["tensor_values"] = dict(vals(reversed(base_items), "tensor"))
    forms["mixed_values"] = dict(vals(spell(base_items, "alias"), "mixed"))
    base = {"energy": 80e3, "semiangle_cutoff": 20.0}
    entries = {
        "validate_aberration_coefficients": lambda m: validators.validate_aberration_coefficients(m),
        "standardize_aberration_coefs": lambda m: {k: float(v) for k, v in cp.standardize_aberration_coefs(m).items()},
        "ProbePixelated[flat]": lambda m: pm.ProbePixelated.from_params({**base, **m}, rng=0).probe_params["aberration_coefs"],
        "ProbePixelated[flat_first]": lambda m: pm.ProbePixelated.from_params({**m, **base}, rng=0).probe_params["aberration_coefs"],
        "ProbePixelated[nested]": lambda m: pm.ProbePixelated.from_params({"aberration_coefs": dict(m), **base}, rng=0).probe_params["aberration_coefs"],
        "ProbePixelated[split]": lambda m: pm.ProbePixelated.from_params({**base, **{k: v for j, (k, v) in enumerate(m.items()) if j % 2}, "aberration_coefs": {k: v for j, (k, v) in enumerate(m.items()) if not j % 2}}, rng=0).probe_params["aberration_coefs"],
        "ProbeParametric[flat]": lambda m: pm.ProbeParametric.from_params({**base, **m}, rng=0, max_aberrations_order=2).probe_params["aberration_coefs"],
        "HyperparameterState(initial)": lambda m: dpm.HyperparameterState(initial_aberrations=m).current_aberrations(),
        "HyperparameterState(override)": lambda m: dpm.HyperparameterState(initial_aberrations={}).current_aberrations(m),
    }
    f = {"kind": "equiv_forms"}
    want = _nz(exp)
    for ename, fn in entries.items():
        tol = 1e-6 if ename.startswith("standardize") else 0.0
        for fname, m in forms.items():
            if ename.startswith("ProbeP") and fname == "ordered_dict" and False:
                continue
            got = _nz(fn(m))
            bad = sorted(set(got) ^ set(want)) or [k for k in want if abs(got[k] - want[k]) > tol * abs(want[k])]
            ctx.check(not bad, "equivalent_forms_disagree", lambda: "%s with the %s form %r gives %r, expected %r (differs at %r)" % (ename, fname, m, got, want, bad), entry=ename, form=fname, **f)
    # the surface functions read the same mapping in any order / mapping type / value type
    pol = {k: v for k, v in exp.items()}
    lam = 0.0251
    alpha, phi = _points(rng, "physical", 64)
    ref, S = chi_polar_np(alpha, phi, lam, pol)
    A, P = _t(ctx, alpha), _t(ctx, phi)
    pitems = list(pol.items())
    sforms = {"reversed": dict(reversed(pitems)), "proxy": types.MappingProxyType(dict(pitems)), "ordered": collections.OrderedDict(pitems), "numpy_values": dict(vals(pitems, "np")), "mixed_values": dict(vals(pitems, "mixed_surface")), "with_unrelated_keys": {**dict(pitems), "energy": 80e3, "note": "x"}}
    for fname, m in sforms.items():
        chi = cp.aberration_surface(A, P, lam, m)
        ctx.close(_rel(np.asarray(chi.detach(), dtype=np.float64) - ref, S), TOL, "surface_vs_series", lambda: "aberration_surface with the %s form differs from the series" % fname, form=fname, **f)
        dk, dphi = cp.aberration_surface_polar_gradients(A, P, m)
        gr, gp, G = grad_polar_np(alpha, phi, pol)
        ctx.close(max(_rel(np.asarray(dk.detach()) - gr, G), _rel(np.asarray(dphi.detach()) - gp, G)), TOL, "polar_gradient_vs_series", lambda: "polar gradient with the %s form differs" % fname, form=fname, **f)
    labs = [CART[i] for i in rng.permutation(len(CART))][:7]
    b_list = cp.aberration_surface_cartesian_basis(A, P, lam, labs)
    b_tuple = cp.aberration_surface_cartesian_basis(A, P, lam, tuple(labs))
    ctx.close(float((b_list - b_tuple).abs().max()), 0.0 + 1e-300, "equivalent_forms_disagree", "basis labels as tuple vs list differ", entry="aberration_surface_cartesian_basis", form="tuple", **f)
    # outputs fed back as inputs
    v1 = validators.validate_aberration_coefficients(forms["alias_names"])
    v2 = validators.validate_aberration_coefficients(dict(v1))
    ctx.check(_nz(v2) == _nz(v1), "feedback_not_fixed_point", lambda: "validate(validate(x)) = %r, validate(x) = %r" % (v2, v1), entry="validate_aberration_coefficients", **f)
    s1 = cp.standardize_aberration_coefs(forms["alias_names"])
    s2 = cp.standardize_aberration_coefs(s1)
    ctx.check({k: float(v) for k, v in s2.items()} == {k: float(v) for k, v in s1.items()}, "feedback_not_fixed_point", lambda: "standardize(standardize(x)) = %r vs %r" % (s2, s1), entry="standardize_aberration_coefs", **f)
    p1 = pm.ProbePixelated.from_params({**base, **forms["alias_names"]}, rng=0).probe_params
    p2 = pm.ProbePixelated.from_params({**base, "aberration_coefs": dict(p1["aberration_coefs"])}, rng=0).probe_params["aberration_coefs"]
    p3 = pm.ProbePixelated.from_params(copy.deepcopy(p1), rng=0).probe_params["aberration_coefs"]  # a whole probe_params dict fed back
    ctx.check(_nz(p2) == _nz(p1["aberration_coefs"]) and _nz(p3) == _nz(p1["aberration_coefs"]), "feedback_not_fixed_point", lambda: "probe_params fed back: %r / %r vs %r" % (_nz(p2), _nz(p3), _nz(p1["aberration_coefs"])), entry="ProbePixelated.probe_params", **f)
    h1 = dpm.HyperparameterState(initial_aberrations=forms["reversed"]).current_aberrations()
    h2 = dpm.HyperparameterState(initial_aberrations=h1).current_aberrations(h1)
    ctx.check(_nz(h2) == _nz(h1), "feedback_not_fixed_point", lambda: "HyperparameterState fed its own output: %r vs %r" % (h2, h1), entry="HyperparameterState", **f)
    polt = {k: torch.tensor(v, dtype=torch.float64) for k, v in pol.items()}
    cur = polt
    for _ in range(3):
        cur = cp.cartesian_to_polar_aberrations(cp.polar_to_cartesian_aberrations(cur))
    chi = cp.aberration_surface(A, P, lam, cur).detach().numpy()
    ctx.close(_rel(chi - ref, S), TOL, "polar_cartesian_polar_surface", lambda: "three polar->Cartesian->polar round trips changed the surface", form="repeated", **f)
    mg = cp.merge_aberration_coefficients(cp.merge_aberration_coefficients(polt, {"C21_b": torch.tensor(40.0, dtype=torch.float64)}), {"C21_b": torch.tensor(-40.0, dtype=torch.float64)})
    chi = cp.aberration_surface(A, P, lam, mg).detach().numpy()
    ctx.close(_rel(chi - ref, S + chi_cart_np(alpha, phi, lam, {"C21_b": 40.0})[1]), TOL, "merge_is_sum", lambda: "merge(+d) then merge(-d) does not give back the surface", form="repeated", **f)
    ctx.nontrivial(("equiv_forms", spec["rep"]), d != 0)
    ctx.observe(user=forms["alias_names"], expected=want, n_forms=len(forms), n_entries=len(entries))


# ---- fit ----------------------------------------------------------------------------------------


def run_fit(spec, idx, ctx):
    st = ctx.state
    torch, du = st["torch"], st["du"]
    rng = ctx.rng(idx)
    dp, nbf, gpts, ks = _make_dp(ctx, rng, {}, rotation=0.0, scan=(4, 4))
    c10 = float(rng.choice([-1.0, 1.0])) * float(10 ** rng.uniform(math.log10(20), 3.3))
    if rng.random() < 0.3:
        c10 *= float(10 ** rng.uniform(-4, 4))  # scale family: the fit is judged relative to |C10|
    mode = int(rng.integers(4))
    c12 = 0.0 if mode == 0 else float(rng.uniform(0.02, 0.8)) * abs(c10)
    phi12 = float(rng.uniform(-PI / 2, PI / 2))
    rot = float(rng.uniform(-(PI / 2 - 0.05), PI / 2 - 0.05)) if mode != 1 else 0.0
    coefs = {"C10": c10, "C12": c12, "phi12": phi12}
    if mode == 3:
        coefs = {"defocus": -c10, "astigmatism": c12, "astigmatism_angle": phi12}
        coefs = st["validators"].validate_aberration_coefficients(coefs)
    f = {"kind": "fit", "sign_c10": "neg" if c10 < 0 else "pos", "astigmatic": c12 > 0}
    if hasattr(dp, "_return_lateral_shifts"):
        shifts = dp._return_lateral_shifts(rot, coefs, dp.bf_mask)
        route = "_return_lateral_shifts"
    else:  # same quantity from the public gradient function
        ctx.hooks_missing.append("DirectPtychography._return_lateral_shifts") if "DirectPtychography._return_lateral_shifts" not in ctx.hooks_missing else None
        cp = st["cp"]
        kxa, kya = cp.spatial_frequencies(dp.gpts, dp.sampling, rotation_angle=rot)
        k, ph = cp.polar_coordinates(kxa, kya)
        dx, dy = cp.aberration_surface_cartesian_gradients(k * dp.wavelength, ph, coefs)
        shifts = torch.stack((dx[dp.bf_mask], dy[dp.bf_mask]), -1) / 2 / PI
        route = "gradients"
    # independent prediction of the shifts: s = A R(rot) alpha_vec  (float64)
    kx = np.fft.fftfreq(gpts[0], 1.0 / (gpts[0] * ks[0]))
    ky = np.fft.fftfreq(gpts[1], 1.0 / (gpts[1] * ks[1]))
    KX, KY = np.meshgrid(kx, ky, indexing="ij")
    m = dp.bf_mask.cpu().numpy().astype(bool)
    av = np.stack([KX[m], KY[m]], 1) * dp.wavelength
    R = np.array([[math.cos(rot), -math.sin(rot)], [math.sin(rot), math.cos(rot)]])
    ca, cb = c12 * math.cos(2 * phi12), c12 * math.sin(2 * phi12)
    A = np.array([[c10 + ca, cb], [cb, c10 - ca]])
    pred = (A @ (R @ av.T)).T
    sc = float(np.abs(pred).max())
    ctx.close(float(np.abs(shifts.detach().cpu().numpy().astype(np.float64) - pred).max()) / sc, 1e-4, "lateral_shifts_vs_model", lambda: "predicted lateral shifts differ from A R alpha for %r rot=%r" % (coefs, rot), **{**f, "route": route})
    fit = du.fit_aberrations_from_shifts(shifts, dp.bf_mask, dp.wavelength, dp.gpts, dp.sampling)
    S = max(abs(c10), c12)
    fa, fb = fit["C12"] * math.cos(2 * fit["phi12"]), fit["C12"] * math.sin(2 * fit["phi12"])
    res = max(abs(fit["C10"] - c10), abs(fa - ca), abs(fb - cb)) / S
    dr = abs(fit["rotation_angle"] - rot)
    ctx.close(max(res, dr), 1e-4, "fit_recovers", lambda: "fit %r from shifts generated with C10=%r C12=%r phi12=%r rotation=%r" % (fit, c10, c12, phi12, rot), **f)
    ctx.nontrivial(("fit", spec["rep"]), c10 != 0)
    ctx.observe(coefs=coefs, rotation=rot, fit=fit, n_bf=nbf, gpts=gpts, residual=max(res, dr))


def _e2e_scene(ctx, rng):
    """virtual bright-field stack whose images are one band-limited image displaced by the predicted shifts"""
    st = ctx.state
    dpm, Dataset2d, Dataset3d = st["dpm"], st["Dataset2d"], st["Dataset3d"]
    S = (int(rng.integers(28, 41)), int(rng.integers(28, 41)))
    ss = (float(rng.uniform(0.8, 1.25)),) * 2 if rng.random() < 0.5 else (float(rng.uniform(0.8, 1.25)), float(rng.uniform(0.8, 1.25)))
    G = (int(rng.integers(10, 15)), int(rng.integers(10, 15)))
    dk = (float(rng.uniform(0.04, 0.06)), float(rng.uniform(0.04, 0.06)))
    energy = float(rng.choice([80e3, 200e3, 300e3]))
    wl = _lambda(energy)
    kx = np.fft.fftfreq(G[0], 1 / (G[0] * dk[0]))
    ky = np.fft.fftfreq(G[1], 1 / (G[1] * dk[1]))
    KX, KY = np.meshgrid(kx, ky, indexing="ij")
    rad = float(rng.uniform(2.6, 3.8)) * max(dk)
    mask = (KX**2 + KY**2) <= rad**2
    amax = rad * wl
    maxshift = float(rng.uniform(1.2, 3.0))
    c10 = float(rng.choice([-1, 1])) * maxshift * min(ss) / amax / 1.3
    c12 = float(rng.uniform(0.0, 0.3)) * abs(c10)
    phi12 = float(rng.uniform(-PI / 2, PI / 2))
    rot = float(rng.uniform(-1.2, 1.2))
    av = np.stack([KX[mask], KY[mask]], 1) * wl
    R = np.array([[math.cos(rot), -math.sin(rot)], [math.sin(rot), math.cos(rot)]])
    ca, cb = c12 * math.cos(2 * phi12), c12 * math.sin(2 * phi12)
    A = np.array([[c10 + ca, cb], [cb, c10 - ca]])
    s_px = (A @ (R @ av.T)).T / np.array(ss)
    base = rng.normal(size=S)
    qx = np.fft.fftfreq(S[0])[:, None]
    qy = np.fft.fftfreq(S[1])[None, :]
    Fb = np.fft.fft2(base) * np.exp(-(qx**2 + qy**2) / (2 * 0.08**2))
    b = np.fft.ifft2(Fb).real
    Fb = np.fft.fft2(b / b.std())
    # the image recorded at detector pixel k is the common image displaced by -s_k (the model's +s_k aligns them)
    ramp = np.exp(2j * np.pi * (qx[None] * s_px[:, 0, None, None] + qy[None] * s_px[:, 1, None, None]))
    stack = (1.0 + 0.1 * np.fft.ifft2(Fb[None] * ramp).real).astype(np.float32)
    vbf = Dataset3d.from_array(stack, units=("index", "A", "A"), sampling=(1.0,) + ss)
    bfm = Dataset2d.from_array(mask, units=("A^-1", "A^-1"), sampling=dk)
    dp = dpm.DirectPtychography.from_virtual_bfs(vbf, bfm, energy=energy, rotation_angle=0.0, semiangle_cutoff=rad * wl * 1e3, crop_bf_mask=False, verbose=False, rng=0)
    truth = {"C10": c10, "C12": c12, "phi12": phi12, "rotation": rot, "ca": ca, "cb": cb}
    return dp, truth, {"scan": S, "gpts": G, "n_bf": int(mask.sum()), "max_shift_px": float(np.abs(s_px).max())}


def run_fit_e2e(spec, idx, ctx):
    """history of fits on ONE object: every fit must return the generating values, not only the first"""
    rng = ctx.rng(idx)
    dp, t, info = _e2e_scene(ctx, rng)
    guessed = bool(spec["rep"] % 2)
    guess = {"aberration_coefs": {"C10": t["C10"] * float(rng.uniform(0.6, 1.3))}, "rotation_angle": t["rotation"] + float(rng.uniform(-0.2, 0.2))} if guessed else {}
    other = {"override_aberration_coefs": {"defocus": float(rng.uniform(-300, 300)), "C12": float(rng.uniform(0, 50))}, "override_rotation_angle": float(rng.uniform(-1, 1)), "deconvolution_kernel": str(rng.choice(["ssb", "icom", "prlx"]))}
    #         (kwargs, label)
    if guessed:
        steps = [("fit", guess, "guess"), ("reconstruct", other, ""), ("fit", guess, "guess"), ("fit", {}, "plain")]
    else:
        steps = [("fit", {}, "plain"), ("fit", {}, "plain"), ("reconstruct", other, ""), ("fit", {}, "plain")]
    seen = {}
    nfit = 0
    after_recon = False
    log = []
    for kind, kw, label in steps:
        if kind == "reconstruct":
            dp.reconstruct(verbose=False, **kw)
            after_recon = True
            continue
        nfit += 1
        dp.fit_hyperparameters_cross_correlation(bin_factors=(2, 1), verbose=False, **{k: (dict(v) if isinstance(v, dict) else v) for k, v in kw.items()})
        c, r = dict(dp.aberration_coefs), float(dp.rotation_angle)
        fa, fb = c.get("C12", 0.0) * math.cos(2 * c.get("phi12", 0.0)), c.get("C12", 0.0) * math.sin(2 * c.get("phi12", 0.0))
        vec = (c.get("C10", 0.0), fa, fb, r)
        f = {"kind": "fit_e2e", "call": "first" if nfit == 1 else "repeated", "after_other_reconstruct": after_recon, "seeded_with_guess": label == "guess"}
        ec = max(abs(vec[0] - t["C10"]), abs(fa - t["ca"]), abs(fb - t["cb"])) / abs(t["C10"])
        er = abs(r - t["rotation"])
        ctx.close(ec, 0.15, "fit_e2e_recovers", lambda: "fit #%d returned %r rotation %r; the shifts were generated with C10=%r C12=%r phi12=%r rotation=%r" % (nfit, c, r, t["C10"], t["C12"], t["phi12"], t["rotation"]), quantity="coefficients", **f)
        ctx.close(er, 0.1, "fit_e2e_recovers", lambda: "fit #%d returned rotation %r, generated with %r" % (nfit, r, t["rotation"]), quantity="rotation", **f)
        if label in seen:
            v0 = seen[label]
            dc = max(abs(vec[i] - v0[i]) for i in range(3)) / abs(t["C10"])
            ctx.close(dc, 0.1, "fit_e2e_repeatable", lambda: "fit #%d with the same arguments on the same object returned %r, an earlier call returned %r" % (nfit, vec, v0), quantity="coefficients", **f)
            ctx.close(abs(vec[3] - v0[3]), 0.05, "fit_e2e_repeatable", lambda: "rotation %r vs %r from an earlier identical call" % (vec[3], v0[3]), quantity="rotation", **f)
        else:
            seen[label] = vec
        log.append({"fit": nfit, "args": label, "after_other_reconstruct": after_recon, "coef_err": ec, "rot_err": er})
    ctx.nontrivial(("fit_e2e", spec["rep"]), True)
    ctx.observe(truth={k: t[k] for k in ("C10", "C12", "phi12", "rotation")}, scene=info, fits=log)


def run_case(spec, idx, ctx):
    k = spec["kind"]
    fn = {"names": run_names, "onehot_polar": run_onehot_polar, "onehot_cart": run_onehot_cart, "dense": run_dense, "alias_fn": run_alias_fn, "alias_probe": run_alias_probe, "alias_direct": run_alias_direct, "fit": run_fit, "fit_e2e": run_fit_e2e, "layout": run_layout, "big_grid": run_big_grid, "global_state": run_global_state, "equiv_forms": run_equiv_forms, "direct_history": run_direct_history, "alias_forms": run_alias_forms}.get(k)
    if fn is None:
        raise HarnessError("unknown case kind %r" % k)
    with np.errstate(all="ignore"):
        fn(spec, idx, ctx)


def summarize(all_cases, counters, extras):
    return {"polar_symbols_enumerated": len(POLAR), "cartesian_labels_enumerated": len(CART), "one_hot_enumeration_exhaustive": True}
